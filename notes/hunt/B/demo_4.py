"""C03: a setup node that already ran to completion is entered again on the next call when the
call in which it ran failed somewhere else.

Documented: "setup ExecNodes: These nodes only run once per DAG instance" /
"setup (bool): if True, will be executed only once during the lifetime of a `DAG` instance".

The result of a setup node is only copied into DAG.results at the very end of
DAG.run_subgraph, after the scheduler returned normally.  If any other node of the same call
raises, the (successfully computed, typically expensive) setup result is thrown away and the
setup function is entered a second time by the retried call.  Same for AsyncDAG and executors.
"""
import asyncio
import sys

from tawazi import dag, xn

loads = []


@xn(setup=True)
def load_model():
    loads.append("load_model")
    return {"bias": 1}


@xn
def predict(model, x):
    if x < 0:
        raise ValueError("bad request")
    return x + model["bias"]


def describe(x):
    return predict(load_model(), x)


problems = []

pipe = dag(describe)
try:
    pipe(-1)  # a bad request: predict fails AFTER load_model returned
except BaseException as e:  # noqa: BLE001  (TawaziBaseException derives from BaseException)
    print("1st call failed as expected:", e)
assert loads == ["load_model"]
assert pipe(1) == 2  # retry / next request on the same DAG instance
assert pipe(2) == 3
print("sync  DAG: load_model entered", len(loads), "times over 3 calls on one DAG instance")
if len(loads) != 1:
    problems.append(f"DAG: setup node entered {len(loads)} times in the lifetime of one DAG instance")

loads.clear()
apipe = dag(describe, is_async=True)


async def main():
    try:
        await apipe(-1)
    except BaseException:  # noqa: BLE001
        pass
    assert await apipe(1) == 2


asyncio.run(main())
print("async DAG: load_model entered", len(loads), "times over 2 calls on one AsyncDAG instance")
if len(loads) != 1:
    problems.append(f"AsyncDAG: setup node entered {len(loads)} times in the lifetime of one DAG instance")

if problems:
    print("DEFECT (C03):")
    for p in problems:
        print("  -", p)
    sys.exit(1)
print("ok")
