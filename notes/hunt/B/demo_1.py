"""C14: a deactivated node / sub-DAG whose result is consumed through unpack_to or an index
makes the call die with an internal AttributeError instead of yielding None.

README: "When twz_active is False, the ExecNode is not executed and returns None" and
"[a sub-DAG] can be used with conditional execution to run a subgraph only if a condition is met"
(`main_dag(-1) == (None, -1)`).  No node function raises in any of the calls below.
"""
import sys

from tawazi import dag, xn
from tawazi.errors import TawaziBaseException

entered = []


@xn(unpack_to=2)
def split(x):
    entered.append("split")
    return x, x + 1


@xn
def pair(x):
    entered.append("pair")
    return {"lo": x, "hi": x + 1}


@xn
def show(v):
    entered.append("show")
    return f"got {v}"


# 1. documented unpacking + documented twz_active on the same call
@dag
def unpack_if_positive(x):
    lo, hi = split(x, twz_active=x > 0)
    return lo, hi


# 2. documented conditional sub-DAG whose return value is an indexed result
@dag
def sub(x):
    p = pair(x)
    return p["hi"]


@dag
def main_dag(x):
    v = sub(x, twz_active=x > 0)
    return show(v)


# 3. the activation flag itself is an element of a deactivated node's result
@dag
def chained(x):
    lo, hi = split(x, twz_active=x > 0)
    return show(x, twz_active=hi)


failures = []
for name, d, active_expected, inactive_expected in (
    ("unpack_if_positive", unpack_if_positive, (1, 2), (None, None)),
    ("main_dag", main_dag, "got 2", "got None"),
    ("chained", chained, "got 1", None),
):
    assert d(1) == active_expected, (name, d(1))  # the active branch works
    entered.clear()
    try:
        out = d(-1)
    except TawaziBaseException as e:
        failures.append(f"{name}(-1): TawaziBaseException {e!r}")
    except Exception as e:  # noqa: BLE001
        failures.append(
            f"{name}(-1): raised {e!r} although no node function raised "
            f"(nodes entered: {entered}); the message names no node and no call location"
        )
    else:
        if out != inactive_expected:
            failures.append(f"{name}(-1) returned {out!r}, expected {inactive_expected!r}")

if failures:
    print("DEFECT (C14): deactivating a node/sub-DAG crashes the call with a scheduler-internal error")
    for f in failures:
        print("  -", f)
    sys.exit(1)
print("ok")
