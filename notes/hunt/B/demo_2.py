"""C03: `executor(target_nodes=[<ExecNode>]).setup()` sets up the wrong setup nodes when a tag
of another node equals the id of the selected node.

The executor resolves its aliases once in __post_init__ (ExecNode reference -> id "a").
`DAGExecution.setup()` hands the already resolved ids to `DAG.setup()`, which resolves them a
second time as user aliases; there a string is first looked up as a TAG, so the id "a" now
designates the node tagged "a" (`b`).  Result: the setup node of the unselected branch is
entered and the setup node of the selected branch is not.
"""
import sys

from tawazi import dag, xn

entered = []


@xn(setup=True)
def load_for_a():
    entered.append("load_for_a")
    return 1


@xn(setup=True)
def load_for_b():
    entered.append("load_for_b")
    return 2


@xn
def a(x):
    entered.append("a")
    return x


@xn(tag="a")  # a tag equal to the id of another node is allowed (tags are free-form strings)
def b(x):
    entered.append("b")
    return x


@dag
def pipe():
    return a(load_for_a()), b(load_for_b())


# select node `a` unambiguously: by reference to the ExecNode (documented Alias kind)
ex = pipe.executor(target_nodes=[a])
assert ex.target_nodes == ["a"] and set(ex.graph.nodes) == {"load_for_a", "a"}, ex.graph.nodes

ex.setup()  # documented: "Same thing as DAG.setup but target_nodes ... come from the DAGExecution's init"
after_setup = list(entered)
result = ex()
after_call = list(entered)

print("selection of the executor :", sorted(ex.graph.nodes))
print("entered by ex.setup()     :", after_setup)
print("entered after ex()        :", after_call, "->", result)

problems = []
if "load_for_b" in after_setup:
    problems.append("ex.setup() entered the UNSELECTED setup node load_for_b")
if "load_for_a" not in after_setup:
    problems.append("ex.setup() did not set up the SELECTED setup node load_for_a (it only ran later, inside ex())")
if problems:
    print("DEFECT (C03):")
    for p in problems:
        print("  -", p)
    sys.exit(1)
print("ok")
