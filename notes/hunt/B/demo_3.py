"""C03: with debug nodes enabled, a sub-graph execution runs the wrong set of debug nodes.

Documented rule (`@xn(debug=...)`): "a debug ExecNode will run [if] its inputs exist regardless
of subgraph choice"; the docstring of DiGraphEx.include_debug_nodes gives the example
A -> B -> (D, E[debug]): executing the sub-graph whose leaf is D must also run E.

Actual behaviour of `extend_graph_with_debug_nodes` / `include_debug_nodes`:
  (a) a debug node that hangs off a NON-LEAF node of the selection is never added
      (the very example of the docstring), nor is a debug node that also takes a constant;
  (b) a debug node that the user EXPLICITLY excluded is added back (and entered) as soon as its
      predecessors are leaves of the pruned graph.
"""
import os
import sys

os.environ["RUN_DEBUG_NODES"] = "True"  # documented switch, set before importing tawazi

from tawazi import cfg, dag, xn  # noqa: E402

assert cfg.RUN_DEBUG_NODES is True
entered = []


@xn
def A(x):
    entered.append("A")
    return x + 1


@xn
def B(x):
    entered.append("B")
    return x + 1


@xn
def D(x):
    entered.append("D")
    return x + 1


@xn(debug=True)
def E(x):
    entered.append("E")


@xn(debug=True)
def check_D(x, label):
    entered.append("check_D")


@xn(debug=True)
def peek_D(x):
    entered.append("peek_D")


@dag
def pipe(x):
    b = B(A(x))
    E(b)  # debug node on the non-leaf node B
    d = D(b)
    check_D(d, "label")  # debug node on the leaf D, with an extra constant
    peek_D(d)  # debug node on the leaf D
    return d


problems = []

# whole DAG: every debug node runs (reference behaviour)
entered.clear()
assert pipe(0) == 3
assert sorted(entered) == ["A", "B", "D", "E", "check_D", "peek_D"], entered

# (a) sub-graph whose leaf is D: all inputs of E, check_D and peek_D are computed
entered.clear()
assert pipe.executor(target_nodes=["D"])(0) == 3
print("target_nodes=['D']        entered:", entered)
for dbg in ("E", "check_D", "peek_D"):
    if dbg not in entered:
        problems.append(f"target_nodes=['D']: enabled debug node {dbg} was not entered although all its inputs were computed")

# (b) explicit exclusion of one debug node
entered.clear()
assert pipe.executor(exclude_nodes=["E", "D"])(0) is None  # D (hence its debug nodes) and E excluded
print("exclude_nodes=['E','D']   entered:", entered)
if "E" in entered:
    problems.append("exclude_nodes=['E','D']: the explicitly excluded node E was entered")

if problems:
    print("DEFECT (C03):")
    for p in problems:
        print("  -", p)
    sys.exit(1)
print("ok")
