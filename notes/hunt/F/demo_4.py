"""C20 / C01: a DAG that returns a constant next to its results works on its own but cannot be called inside
another DAG: describing the outer DAG dies with
    TypeError: ReturnExecNode.__init__() got an unexpected keyword argument 'id_'

A constant in a DAG's return value (`return f(x), 7`, `return {"value": f(x), "unit": "cm"}`) is held by a
ReturnExecNode.  When the DAG is called inside another DAG, DAG.__call__ re-creates every ExecNode of the inner DAG
under a prefixed id with `type(exec_node)(**asdict(exec_node))`.  ArgExecNode accepts that (its __init__ takes
`id_, **_kwargs`) but ReturnExecNode.__init__(self, func, name_or_order) does not.

expected: outer(1) == (20, 7) - what the inlined body computes and what `inner` returns when called directly.
observed: TypeError while the outer DAG is being described.
"""
import sys
import traceback

from tawazi import dag, xn


@xn
def incr(x):
    return x + 1


@xn
def times10(x):
    return x * 10


@dag
def inner(x):
    return incr(x), 7  # a result and a constant


@dag
def inner_dict(x):
    return {"value": incr(x), "unit": "cm"}


# both DAGs are fine when called directly
assert inner(1) == (2, 7)
assert inner_dict(1) == {"value": 2, "unit": "cm"}

problems = []

try:

    @dag
    def outer(x):
        value, const = inner(x)
        return times10(value), const

    got = outer(1)
    print("outer(1) returned", got, "- expected (20, 7)")
    if got != (20, 7):
        problems.append(f"outer(1) returned {got} instead of (20, 7)")
except BaseException as e:  # noqa: BLE001
    traceback.print_exc()
    problems.append(f"tuple return with a constant: {type(e).__name__}: {e}")

try:

    @dag
    def outer_dict(x):
        d = inner_dict(x)
        return times10(d["value"]), d["unit"]

    got = outer_dict(1)
    print("outer_dict(1) returned", got, "- expected (20, 'cm')")
    if got != (20, "cm"):
        problems.append(f"outer_dict(1) returned {got} instead of (20, 'cm')")
except BaseException as e:  # noqa: BLE001
    problems.append(f"dict return with a constant: {type(e).__name__}: {e}")

if problems:
    print("DEFECT:")
    for p in problems:
        print("  -", p)
    sys.exit(1)
print("no defect")
