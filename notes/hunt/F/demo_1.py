"""C19: a node that is both an input and an output of compose() silently yields None
(and its upstream nodes, which nothing needs, are executed).

pipeline:   raw = source(1) ; clean = normalise(raw) ; score = model(clean) ; return clean, score
composed:   inputs = [normalise]   outputs = [normalise, model]
            "give me the DAG that, given the value normalise produced, returns that value and the score"

expected:   composed(5) == (5, 50)  and only `model` runs
            (upstream tawazi intends overlapping inputs/outputs to be refused with ValueError, see
             tests/test_dag_compose.py::test_inputs_outputs_overlapping - that would be acceptable too)
observed:   composed(5) == (None, 50) and `source` is executed although no output needs it
"""
import sys
import warnings

from tawazi import dag, xn

executed = []


@xn
def source(seed):
    executed.append("source")
    return seed * 100


@xn
def normalise(raw):
    executed.append("normalise")
    return raw / 100


@xn
def model(clean):
    executed.append("model")
    return clean * 10


@dag
def pipeline():
    raw = source(1)
    clean = normalise(raw)
    score = model(clean)
    return clean, score


assert pipeline() == (1.0, 10.0)
executed.clear()

try:
    with warnings.catch_warnings():
        warnings.simplefilter("ignore")
        composed = pipeline.compose("composed", inputs=[normalise], outputs=[normalise, model])
except ValueError as e:
    print("compose refused the overlapping input/output with ValueError (acceptable):", e)
    sys.exit(0)

got = composed(5)
expected = (5, 50)
print("composed(5) returned", got, "- expected", expected)
print("nodes executed by the composed DAG:", executed, "- expected ['model']")

problems = []
if got != expected:
    problems.append(f"wrong value: the supplied input value 5 came back as {got[0]!r}")
if executed != ["model"]:
    problems.append(f"executed {executed} instead of only ['model']")

# same thing with an argument of the original DAG used as input and output
@dag
def pipeline2(x):
    return x, model(x)


executed.clear()
with warnings.catch_warnings():
    warnings.simplefilter("ignore")
    try:
        composed2 = pipeline2.compose("composed2", inputs="pipeline2>!>x", outputs=["pipeline2>!>x", model])
        got2 = composed2(7)
        print("composed2(7) returned", got2, "- expected (7, 70)")
        if got2 != (7, 70):
            problems.append(f"DAG argument used as input and output: got {got2}, expected (7, 70)")
    except ValueError as e:
        print("compose refused (acceptable):", e)

if problems:
    print("DEFECT:")
    for p in problems:
        print("  -", p)
    sys.exit(1)
print("no defect")
