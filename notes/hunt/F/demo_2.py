"""C12: DAGExecution.setup() resolves the executor's target/exclude aliases a SECOND time.

The executor's __post_init__ already turned target_nodes / exclude_nodes into node ids.
DAGExecution.setup() hands these ids to DAG.setup(), which runs them through alias resolution again,
where a string is first looked up as a TAG.  If a node id happens to be equal to a tag carried by another
node, the setup phase selects the wrong part of the graph: it runs the setup node of a branch the executor
will never execute, and does not run the one it needs.

Here the executor targets the node `report` (given as an unambiguous ExecNode reference).
Another node, `audit`, carries the tag "report".

expected: ex.setup() runs only `load_report_model` (the setup node `report` depends on),
          `load_audit_model` never runs.
observed: ex.setup() runs `load_audit_model`; `load_report_model` is not set up (it runs later, inside the call).
"""
import sys

from tawazi import dag, xn

executed = []


@xn(setup=True)
def load_audit_model():
    executed.append("load_audit_model")
    return "audit-model"


@xn(setup=True)
def load_report_model():
    executed.append("load_report_model")
    return "report-model"


@xn(tag="report")  # this node is tagged with a string equal to the id of the node `report`
def audit(model):
    executed.append("audit")
    return f"audit by {model}"


@xn
def report(model):
    executed.append("report")
    return f"report by {model}"


@dag
def pipeline():
    return audit(load_audit_model()), report(load_report_model())


report_node = pipeline.get_node_by_id("report")  # an ExecNode reference: not ambiguous
ex = pipeline.executor(target_nodes=[report_node])

print("executor selected the nodes:", sorted(ex.graph.nodes))
assert sorted(ex.graph.nodes) == ["load_report_model", "report"]

ex.setup()
after_setup = list(executed)
print("executed by ex.setup():", after_setup, "- expected ['load_report_model']")

result = ex()
print("executed in total:", executed)
print("result:", result)

problems = []
if after_setup != ["load_report_model"]:
    problems.append(f"ex.setup() executed {after_setup} instead of ['load_report_model']")
if "load_audit_model" in executed:
    problems.append("load_audit_model ran although it is outside the closure selected by target_nodes=[report]")
if problems:
    print("DEFECT:")
    for p in problems:
        print("  -", p)
    sys.exit(1)
print("no defect")
