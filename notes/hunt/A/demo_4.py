"""C20: a DAG that returns a constant can not be called inside another DAG.

Returning constants (alone, or inside a tuple / list / dict) is supported for a DAG.  Calling such a
DAG inside another DAG's describing function must behave as if its body had been inlined, but the
description of the outer DAG fails with
    TypeError: ReturnExecNode.__init__() got an unexpected keyword argument 'id_'
for every return shape.
"""
import sys

from tawazi import dag, xn


@xn
def inc(x):
    return x + 1


@dag
def sub_tuple(x):
    return inc(x), "v1"


@dag
def sub_list(x):
    return [inc(x), 2]


@dag
def sub_dict(x):
    return {"res": inc(x), "version": 3}


@dag
def sub_single(x):
    inc(x)
    return "done"


failures = []

# the DAGs work on their own
standalone = (sub_tuple(1), sub_list(1), sub_dict(1), sub_single(1))
print("standalone:", standalone)
if standalone != ((2, "v1"), [2, 2], {"res": 2, "version": 3}, "done"):
    failures.append(f"standalone DAGs are broken: {standalone!r}")


def try_outer(label, build, expected):
    try:
        outer = build()
        got = outer(1)
    except BaseException as e:
        print(f"{label}: raised {type(e).__name__}: {e} | expected {expected!r}")
        failures.append(f"{label}: raised {type(e).__name__}: {e} instead of returning {expected!r}")
        return
    print(f"{label}: -> {got!r} | expected {expected!r}")
    if got != expected:
        failures.append(f"{label}: got {got!r}, expected {expected!r}")


def build_tuple():
    @dag
    def outer(x):
        a, tag = sub_tuple(x)
        return inc(a), tag

    return outer


def build_list():
    @dag
    def outer(x):
        lst = sub_list(x)
        return lst[0] + lst[1]

    return outer


def build_dict():
    @dag
    def outer(x):
        d = sub_dict(x)
        return d["res"], d["version"]

    return outer


def build_single():
    @dag
    def outer(x):
        return sub_single(x)

    return outer


try_outer("nested tuple  (inc(x), 'v1')          ", build_tuple, (3, "v1"))
try_outer("nested list   [inc(x), 2]             ", build_list, 4)
try_outer("nested dict   {'res':..,'version': 3} ", build_dict, (2, 3))
try_outer("nested single 'done'                  ", build_single, "done")

if failures:
    print("\nDEFECT (C20): calling a DAG that returns a constant inside another DAG is not equivalent to inlining it:")
    for f in failures:
        print("  -", f)
    sys.exit(1)
print("no defect observed")
