import threading, time, asyncio
from tawazi import dag, xn, Resource, cfg

# Exp 1: async-thread node start delayed by main-thread node
@xn(resource=Resource.async_thread, priority=10)
def A():
    time.sleep(1); return "A"
@xn(resource=Resource.main_thread)
def M():
    time.sleep(1); return "M"
@dag(max_concurrency=2)
def p():
    return A(), M()
t=time.time(); print(p(), time.time()-t)

# Exp 2: thread + main
@xn(resource=Resource.thread, priority=10)
def T():
    time.sleep(1); return "T"
@dag(max_concurrency=2)
def p2():
    return T(), M()
t=time.time(); print(p2(), time.time()-t)
