from tawazi import dag, xn, Resource, cfg
@xn
def a(x): return x+1
@dag
def inner(x):
    return a(x), 3
@dag
def outer(x):
    u, v = inner(x)
    return u, v
print(outer(1))
