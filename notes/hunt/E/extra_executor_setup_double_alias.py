from tawazi import dag, xn
L=[]
@xn(setup=True)
def train(): L.append("train"); return 1
@xn(setup=True, tag="train")
def helper(): L.append("helper"); return 2
@xn
def use(a, b): return a, b
@dag
def p():
    return use(train(), helper())
t = p.get_node_by_id("train")
ex = p.executor(target_nodes=[t])
ex.setup()
print(L)
