"""C08 (also C06): an async-thread node does not run concurrently with main-thread nodes.

    a : async-thread node, priority 100, sleeps T
    m : main-thread node,  priority 10,  sleeps T      (independent of a)
    max_concurrency = 2

The scheduler "starts" a first (highest priority) with asyncio.ensure_future(...), which only creates
a task: nothing is handed to the worker pool until the scheduler coroutine yields to the event loop.
It does not yield: it goes on and runs m inline, which blocks the loop for T seconds. a's function is
entered only after m returned, so the two independent nodes run one after the other (2T instead of T)
and the lower priority node actually runs first. With a `thread` node in place of the `async-thread`
node the same DAG takes T (this is what tests/test_resource.py::test_main_thread_resource_computation_time
checks for thread + main-thread).
"""
import asyncio
import sys
import threading
import time

from tawazi import Resource, dag, xn

T = 0.5
events = {}
lock = threading.Lock()


def mark(name: str, what: str) -> None:
    with lock:
        events[(name, what)] = time.perf_counter()


def make(name: str, **kwargs):
    def f() -> str:
        mark(name, "start")
        time.sleep(T)
        mark(name, "end")
        return name

    f.__name__ = f.__qualname__ = name
    return xn(f, **kwargs)


def run(flavour: str, pooled_resource: Resource) -> bool:
    a = make("a", priority=100, resource=pooled_resource)
    m = make("m", priority=10, resource=Resource.main_thread)

    def describe():
        return a(), m()

    pipeline = dag(describe, max_concurrency=2, is_async=(flavour == "AsyncDAG"))
    events.clear()
    t0 = time.perf_counter()
    res = asyncio.run(pipeline()) if flavour == "AsyncDAG" else pipeline()
    total = time.perf_counter() - t0
    assert res == ("a", "m")
    overlap = min(events[("a", "end")], events[("m", "end")]) - max(
        events[("a", "start")], events[("m", "start")]
    )
    rel = {k: round(v - t0, 3) for k, v in sorted(events.items(), key=lambda kv: kv[1])}
    print(f"[{flavour}, a is {pooled_resource.value}] total {total:.2f}s, overlap {max(overlap, 0):.2f}s, {rel}")
    ok = total < 1.5 * T
    if not ok:
        print(
            f"  VIOLATION C08: two independent ready nodes, max_concurrency=2, one pooled + one main-thread:"
            f" expected ~{T}s, took {total:.2f}s; a (priority 100) entered its function "
            f"{rel[('a', 'start')]}s after the call, i.e. only after m (priority 10) had finished"
        )
    return ok


if __name__ == "__main__":
    results = []
    # control: thread + main-thread do overlap
    results.append(run("DAG", Resource.thread))
    # defect: async-thread + main-thread do not, in either flavour
    results.append(run("DAG", Resource.async_thread))
    results.append(run("AsyncDAG", Resource.async_thread))
    if not all(results):
        sys.exit(1)
    print("ok")
