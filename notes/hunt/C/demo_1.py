"""C06 (also C08): completions of pooled nodes are only noticed when the scheduler blocks.

After running a main-thread node inline, the scheduler picks the next node from a stale ready set:
a pooled node that finished meanwhile is not collected, so its high-priority successor is ignored
although it is ready and a worker slot is free. Lower-priority nodes are started before it.

    a (thread, 0.05 s) -> b (thread, priority 100)
    m1, m2, m3 : independent main-thread nodes, priorities 10, 9, 8, 0.3 s each
    max_concurrency = 2

Start order by compound priority: a (0+100), then m1 (10). `a` ends at t=0.05 while m1 runs.
When m1 returns (t=0.3) the ready nodes are b (100), m2 (9), m3 (8): b must start.
The library starts m2, then m3, and b only at t=0.9.
"""
import asyncio
import sys
import threading
import time

from tawazi import Resource, dag, xn

T = 0.3
events = {}
lock = threading.Lock()


def mark(name: str, what: str) -> None:
    with lock:
        events[(name, what)] = time.perf_counter()


@xn(priority=0)
def a() -> int:
    mark("a", "start")
    time.sleep(0.05)
    mark("a", "end")
    return 1


@xn(priority=100)
def b(x: int) -> int:
    mark("b", "start")
    time.sleep(0.05)
    mark("b", "end")
    return x + 1


def make_main(name: str, priority: int):
    def f() -> None:
        mark(name, "start")
        time.sleep(T)
        mark(name, "end")

    f.__name__ = f.__qualname__ = name
    return xn(f, priority=priority, resource=Resource.main_thread)


m1, m2, m3 = make_main("m1", 10), make_main("m2", 9), make_main("m3", 8)


def describe() -> int:
    r = b(a())
    m1()
    m2()
    m3()
    return r


def check(flavour: str, pipeline) -> int:
    events.clear()
    cp = pipeline.graph_ids.compound_priority
    assert (cp["a"], cp["b"], cp["m1"], cp["m2"], cp["m3"]) == (100, 100, 10, 9, 8), dict(cp)
    t0 = time.perf_counter()
    res = asyncio.run(pipeline()) if flavour == "AsyncDAG" else pipeline()
    assert res == 2
    rel = {k: round(v - t0, 3) for k, v in sorted(events.items(), key=lambda kv: kv[1])}
    print(f"[{flavour}] timeline:", rel)
    bad = 0
    for low in ("m2", "m3"):
        # b was ready (its only dependency returned) well before `low` started, yet started after it
        ready_before = events[("a", "end")] < events[(low, "start")] - 0.1
        # (50 ms tolerance: a worker thread enters the function slightly after the submission)
        started_after = events[("b", "start")] > events[(low, "start")] + 0.05
        if ready_before and started_after:
            bad += 1
            print(
                f"[{flavour}] VIOLATION C06: {low} (compound priority {cp[low]}) started at "
                f"{rel[(low, 'start')]}s while b (compound priority {cp['b']}) was ready since "
                f"{rel[('a', 'end')]}s, a worker slot was free (1 of 2 used, by the finished a), "
                f"b only started at {rel[('b', 'start')]}s"
            )
    return bad


if __name__ == "__main__":
    n_bad = check("DAG", dag(describe, max_concurrency=2))
    n_bad += check("AsyncDAG", dag(describe, max_concurrency=2, is_async=True))
    if n_bad:
        print(f"{n_bad} priority inversions: a lower-priority node was started while a ready "
              "node with a strictly greater compound priority existed")
        sys.exit(1)
    print("ok")
