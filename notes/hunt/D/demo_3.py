"""C11 (x C12) - a root_nodes sub-graph run permanently stores a setup value that was computed
WITHOUT one of its setup inputs; every later whole-DAG call silently reuses the broken value.

executor(root_nodes=[r]) keeps r and everything depending on r. A setup node that depends on r
AND on a second setup node s is kept, s is cut away. s never runs, the kept setup node is
executed with None in place of s's value, and DAG.run_subgraph then records that value in
DAG.results as "the" result of the setup node for the lifetime of the DAG instance.
For ordinary nodes the None placeholder only affects that one partial run; for setup nodes it
poisons all later executions: the setup node is never executed again, although later on its
real input is available.
"""
import sys
from copy import deepcopy

from tawazi import dag, xn

ran = []


@xn(setup=True)
def load_model():
    ran.append("load_model")
    return "model"


@xn(setup=True)
def load_vocab():
    ran.append("load_vocab")
    return "vocab"


@xn(setup=True)
def build_predictor(model, vocab):
    ran.append(f"build_predictor({model!r}, {vocab!r})")
    return {"model": model, "vocab": vocab}


@xn
def predict(predictor, x):
    return f"{predictor['model']}/{predictor['vocab']}/{x}"


@dag
def pipe(x):
    return predict(build_predictor(load_model(), load_vocab()), x)


reference = deepcopy(pipe)(1)  # an untouched copy of the DAG gives the right answer
print("reference  pipe(1) ->", reference)
ran.clear()

# run the paths that begin at load_model (documented use of root_nodes)
ex = pipe.executor(root_nodes=["load_model"])
print("partial run, nodes:", sorted(ex.graph.nodes), "->", ex(1))
print("   executed:", ran)
ran.clear()

# later: a plain, complete call of the same DAG instance
later = pipe(1)
print("later      pipe(1) ->", later)
print("   executed:", ran, "| stored setup value:", pipe.results["build_predictor"])

if later != reference:
    print(
        "DEFECT: after a root_nodes run, a complete call returns",
        repr(later),
        "instead of",
        repr(reference),
        "- build_predictor was executed once with vocab=None, that value was stored as its setup result"
        " and it is reused although load_vocab has run in the meantime",
    )
    sys.exit(1)
print("ok")
