"""C11 - executor(cache_deps_of=[n]).setup() runs EVERY setup node of the DAG, not only the ones
the executor's selection (n and what n depends on) needs.

An executor created with cache_deps_of selects n and its ancestors (ex.graph shows it), and calling
it runs only those. DAGExecution.setup() however only forwards target_nodes / exclude_nodes - both
None for such an executor (cache_deps_of cannot be combined with them) - so DAG.setup() falls back
to "all setup nodes". The expensive resource the sub-graph was meant to avoid is loaded anyway.
(Same family as the known "executor(root_nodes=...).setup() ignores root_nodes", other parameter.)
"""
import os
import sys
import tempfile

from tawazi import dag, xn

ran = []


@xn(setup=True)
def load_tokenizer():
    ran.append("load_tokenizer")
    return "tok"


@xn(setup=True)
def load_huge_model():
    ran.append("load_huge_model")
    return "model"


@xn
def tokenize(tok, text):
    return f"{tok}({text})"


@xn
def infer(model, tokens):
    return f"{model}<{tokens}>"


@dag
def pipe(text):
    tokens = tokenize(load_tokenizer(), text)
    return infer(load_huge_model(), tokens)


cache = os.path.join(tempfile.mkdtemp(), "deps_of_tokenize.pkl")
ex = pipe.executor(cache_deps_of=["tokenize"], cache_in=cache)
selection = sorted(n for n in ex.graph.nodes if ">!>" not in n)
print("nodes selected by the executor:", selection)
assert selection == ["load_tokenizer", "tokenize"]

ex.setup()
print("setup nodes executed by ex.setup():", ran)
ex("hello")

if "load_huge_model" in ran:
    print(
        "DEFECT: executor(cache_deps_of=['tokenize']).setup() executed load_huge_model,"
        " a setup node outside the executor's selection", selection
    )
    sys.exit(1)
print("ok")
