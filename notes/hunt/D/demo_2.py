"""C11 - DAG.setup(exclude_nodes=...) / DAG.setup(root_nodes=...) and executor(exclude_nodes=...).setup()
raise ValueError instead of running the setup nodes the selection needs.

DAG.setup documents exclude_nodes and root_nodes ("The ExecNodes that the user aims to exclude from the DAG",
"... select as ancestor nodes"). Without target_nodes, _pre_setup uses *every* setup node of the DAG as the
target list; as soon as the exclusion / the root selection removes one setup node from the graph,
make_subgraph -> minimal_induced_subgraph refuses the target list ("The provided nodes are not in the graph").
So the only selections setup() accepts without target_nodes are the ones that change nothing.
"""
import sys

from tawazi import dag, xn

ran = []


@xn(setup=True)
def load_small():
    ran.append("load_small")
    return "small"


@xn(setup=True)
def load_huge():
    ran.append("load_huge")
    return "huge"


@xn
def use_small(m):
    return m.upper()


@xn
def use_huge(m):
    return m.upper()


@dag
def pipe():
    return use_small(load_small()), use_huge(load_huge())


problems = []

# 1. the executor itself is perfectly valid: it runs without the excluded model ...
ex = pipe.executor(exclude_nodes=["load_huge"])
assert sorted(ex.graph.nodes) == ["load_small", "use_small"]
# ... but preparing it with its own setup() is impossible
try:
    ex.setup()
    if ran != ["load_small"]:
        problems.append(f"executor(exclude_nodes=['load_huge']).setup() executed {ran}")
except ValueError as e:
    problems.append(f"executor(exclude_nodes=['load_huge']).setup() raised ValueError: {str(e)[:90]}...")

# 2. same thing directly on the DAG
for kwargs, expected in (
    ({"exclude_nodes": ["load_huge"]}, ["load_small"]),
    ({"root_nodes": ["load_small"]}, ["load_small"]),
):
    ran.clear()
    try:
        pipe.setup(**kwargs)
        if ran != expected:
            problems.append(f"pipe.setup({kwargs}) executed {ran}, expected {expected}")
    except ValueError as e:
        problems.append(f"pipe.setup({kwargs}) raised ValueError: {str(e)[:90]}...")

# the executor still works (and loads only what it needs), which shows the selection is legal
ran.clear()
print("executor result:", ex(), "| setup nodes it ran:", ran)

if problems:
    print("DEFECT:")
    for p_ in problems:
        print(" -", p_)
    sys.exit(1)
print("ok")
