"""C12: with root_nodes, values handed to a nested DAG (constants, the caller's own DAG
arguments, already computed setup results) silently arrive as None.

A nested DAG receives each argument through a hidden "stub" node (id `sub.sub>!>param`).
The stub is an ordinary graph node that must *execute* to forward the value.  A root_nodes
selection keeps only R and what depends on R, so every stub that does not descend from R is
cut away and the inner nodes read None - although the value is a constant / was given by
the caller / is already stored in DAG.results.  The same pipeline written without the
nested DAG returns the real values.
"""
import sys

from tawazi import dag, xn


@xn
def pre(y):
    return y * 2


@xn
def scale(v, factor):
    return (v, factor)


@xn(setup=True)
def load():
    return "MODEL"


@xn
def infer(model, v, x):
    return (model, v, x)


@dag
def sub(v, factor, model, x):
    return scale(v, factor), infer(model, v, x)


@dag
def nested(x, y):
    m = load()
    return sub(pre(y), 10, m, x)


@dag
def flat(x, y):  # the very same pipeline, sub-DAG inlined by hand
    m = load()
    v = pre(y)
    return scale(v, 10), infer(m, v, x)


expected = ((4, 10), ("MODEL", 4, 1))
failures = []
for d in (flat, nested):
    d.setup()  # the setup node is computed and stored in the DAG instance
    whole = d(1, 2)
    # select "everything that depends on the DAG argument y"
    part = d.executor(root_nodes=[f"{d.qualname}>!>y"])(1, 2)
    print(f"{d.qualname:7s} whole call           -> {whole}")
    print(f"{d.qualname:7s} root_nodes=[<arg y>] -> {part}")
    if whole != expected:
        failures.append(f"{d.qualname}: whole call returned {whole}")
    if part != expected:
        failures.append(
            f"{d.qualname}: root_nodes run returned {part}, expected {expected}: the constant 10, "
            f"the caller's argument x=1 and the stored setup result 'MODEL' were replaced by None"
        )

if failures:
    print("\nDEFECT:")
    for f in failures:
        print("  -", f)
    sys.exit(1)
print("ok")
