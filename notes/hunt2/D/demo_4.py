"""C12: a node whose only inputs are constants can not be used as a root node.

`executor(root_nodes=[...])` / `setup(root_nodes=[...])` accept only nodes with in-degree 0 in the
internal graph.  Every constant argument (positional, keyword, `twz_active=True`) is a hidden
ArgExecNode predecessor, so `load("data.csv")` - which depends on nothing that is computed - is
rejected with ValueError, and the message lists the *other* roots instead of the offending node.
The only accepted spelling is the internal id of the hidden node: 'load>!>0th argument'.
"""
import sys

from tawazi import dag, xn


@xn
def load(path):
    return f"content of {path}"


@xn
def other():
    return "other"


@xn
def parse(text):
    return text.upper()


@dag
def pipe():
    o = other()
    return parse(load("data.csv")), o


assert pipe() == ("CONTENT OF DATA.CSV", "other")
failures = []
for alias in ("load", load):
    try:
        res = pipe.executor(root_nodes=[alias])()
    except ValueError as e:
        failures.append(f"root_nodes=[{alias!r}] raised ValueError: {e}")
        continue
    if res != ("CONTENT OF DATA.CSV", None):
        failures.append(f"root_nodes=[{alias!r}] returned {res}")

# the hidden node is accepted and gives the selection the user asked for
res = pipe.executor(root_nodes=["load>!>0th argument"])()
print("root_nodes=['load>!>0th argument'] ->", res)
assert res == ("CONTENT OF DATA.CSV", None)

if failures:
    print("\nDEFECT: `load` starts a path of the graph (it depends on a constant only) but:")
    for f in failures:
        print("  -", f)
    sys.exit(1)
print("ok")
