"""C13: a debug node whose inputs are all available is NOT pulled into a sub-graph run as soon
as one of its inputs is a constant (positional, keyword or `twz_active=True`).

Documentation of @xn(debug=...): "a debug ExecNode will run [if] its inputs exists regardless of
subgraph choice".  `DiGraphEx.include_debug_nodes` requires every graph predecessor of the debug
node to be a leaf of the selected sub-graph; a constant argument is materialised as a hidden
ArgExecNode predecessor (`show>!>1st argument`) that is never part of the selection, so the test
fails although the constant is always available in DAG.results.
"""
import sys

from tawazi import cfg, dag, xn

ran = []


@xn
def a(x):
    ran.append("a")
    return x + 1


@xn
def b(v):
    ran.append("b")
    return v


@xn(debug=True)
def show(v):
    ran.append("show")


@xn(debug=True)
def show_labelled(v, label):
    ran.append("show_labelled")


@xn(debug=True)
def show_kw(v, prefix=""):
    ran.append("show_kw")


@xn(debug=True)
def show_active(v):
    ran.append("show_active")


@dag
def pipe(x):
    r = a(x)
    show(r)
    show_labelled(r, "after a")  # same as `show` + a constant
    show_kw(r, prefix=">>")  # same as `show` + a keyword constant
    show_active(r, twz_active=True)  # same as `show` + a constant activation
    return b(r)


cfg.RUN_DEBUG_NODES = True
pipe(1)
print("whole call          :", sorted(ran))
assert sorted(ran) == ["a", "b", "show", "show_active", "show_kw", "show_labelled"]

ran.clear()
pipe.executor(target_nodes=["a"])(1)
print("target_nodes=['a']  :", sorted(ran))
expected = ["a", "show", "show_active", "show_kw", "show_labelled"]
if sorted(ran) != expected:
    missing = sorted(set(expected) - set(ran))
    print(
        f"\nDEFECT: debug nodes {missing} did not run in the sub-graph run although their only "
        f"non constant input `a` was executed (the plain `show` did run)"
    )
    sys.exit(1)
print("ok")
