"""A debug node that takes a constant (or a DAG input) next to a node result is never pulled into a sub-graph run.

Documented behaviour (`@xn(debug=...)` docstring): "a debug ExecNode will run [if] its inputs exist regardless of
subgraph choice" (and `DiGraphEx.include_debug_nodes`: "E should also be included in the execution because it can be
executed (debug node whose inputs are provided)").

`dbg_plain(y)` and `dbg_const(y, "label")` hang on the same leaf `b` of the selected sub-graph; with RUN_DEBUG_NODES on,
both have all their inputs available, so both must run exactly once. Only `dbg_plain` runs.
"""
import sys

from tawazi import cfg, dag, xn

cfg.RUN_DEBUG_NODES = True
calls = []


@xn
def a():
    calls.append("a")
    return 1


@xn
def b(x):
    calls.append("b")
    return x + 1


@xn
def c(x):
    calls.append("c")
    return x + 1


@xn(debug=True)
def dbg_plain(x):
    calls.append("dbg_plain")


@xn(debug=True)
def dbg_const(x, label):
    calls.append("dbg_const")


@xn(debug=True)
def dbg_input(x, dag_input):
    calls.append("dbg_input")


@dag
def pipe(threshold=10):
    x = a()
    y = b(x)
    dbg_plain(y)
    dbg_const(y, "b returned")  # same dependency as dbg_plain + a constant
    dbg_input(y, threshold)  # same dependency as dbg_plain + an argument of the DAG (has a value)
    return c(y)


# whole DAG: all three debug nodes run
pipe()
assert sorted(calls) == ["a", "b", "c", "dbg_const", "dbg_input", "dbg_plain"], calls

# sub-graph up to b: b is the leaf, the three debug nodes only need b (+ values that are already known)
calls.clear()
ex = pipe.executor(target_nodes=["b"])
ex()
print("executed in the sub-graph run:", calls)
print("nodes of the executor graph  :", sorted(ex.graph.nodes))

missing = [n for n in ("dbg_plain", "dbg_const", "dbg_input") if calls.count(n) != 1]
if missing:
    print(
        f"DEFECT: enabled debug node(s) {missing} were not executed although every one of their inputs "
        "is available (dbg_plain, which has the same node dependency, did run)"
    )
    sys.exit(1)
print("ok")
