"""Attributes of the decorated function silently overwrite the configuration of the node.

`xn` finishes with `functools.update_wrapper(lazy_exec_node, _func)`. update_wrapper merges `_func.__dict__` into
the `__dict__` of the wrapper - and a LazyExecNode is a dataclass whose fields (debug, setup, priority, tag, args,
kwargs, active, resource, id_, exec_function ...) live in that very `__dict__`. Any attribute of the function whose name
is also a field of ExecNode therefore replaces the validated value passed to `@xn(...)`, after validation.

Here a small plugin-style decorator stores metadata on the functions (`func.debug`, `func.setup`: a common Python
idiom). The functions are then declared as ordinary nodes: `@xn` (debug=False, setup=False).

* `audit` silently becomes a *debug* node: it is not executed at all and the DAG returns None for it.
* `read_sensor` silently becomes a *setup* node: it is executed for the first call only, later calls return the stale
  value of the first call.

Expected (C03): each of these selected, active, ordinary nodes is entered exactly once per execution.
"""
import sys

from tawazi import dag, xn

calls = []
SENSOR = [0]


def plugin(**meta):
    """Attach some metadata to a function (used by an unrelated part of the application)."""

    def deco(func):
        for k, v in meta.items():
            setattr(func, k, v)
        return func

    return deco


@xn  # an ordinary node: debug=False
@plugin(debug=True, owner="team-a")  # 'verbose logging wanted' for the application's own plugin registry
def audit(x):
    calls.append("audit")
    return f"audited {x}"


@xn  # an ordinary node: setup=False
@plugin(setup="calibrate_first")  # name of a hook for the application's own plugin registry
def read_sensor():
    calls.append("read_sensor")
    SENSOR[0] += 1
    return SENSOR[0]


@xn
def double(x):
    calls.append("double")
    return 2 * x


@dag
def pipe(x):
    return audit(x), double(read_sensor())


print("configuration of the nodes: audit.debug =", audit.debug, "| read_sensor.setup =", read_sensor.setup)
r1 = pipe(1)
c1 = list(calls)
calls.clear()
r2 = pipe(2)
c2 = list(calls)
print("1st call ->", r1, "executed:", c1)
print("2nd call ->", r2, "executed:", c2)

problems = []
if c1.count("audit") != 1 or c2.count("audit") != 1:
    problems.append("node 'audit' (declared with a plain @xn) was not executed: it was turned into a debug node")
if c2.count("read_sensor") != 1:
    problems.append(
        "node 'read_sensor' (declared with a plain @xn) was not executed by the 2nd call: it was turned into a "
        f"setup node, the 2nd call returned the stale value {r2[1]} instead of 4"
    )
if problems:
    for p in problems:
        print("DEFECT:", p)
    sys.exit(1)
print("ok")
