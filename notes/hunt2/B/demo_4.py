"""The callable given to `xn` is never entered when it is a bound method / functools.partial: hidden deep copies run.

`LazyExecNode.__call__` (one per call site) does `values = dataclasses.asdict(self)` and then
`values["exec_function"] = deepcopy(self.exec_function)`. For a plain function deepcopy is the identity, but
`deepcopy(obj.method)` deep-copies `obj` and `deepcopy(partial(f, state))` deep-copies `state`. Every call site of the
node in a DAG (and again every sub-DAG expansion, `compose` and `config_from_dict`) therefore works on its own private
clone of the object, made at description time.

1. `collector.add` is used as a node: after the DAG ran, `collector` is still empty, and a later node that receives
   `collector` sees nothing.
2. `ids.next_id` is used at three call sites to draw three unique ids: every call site has its own clone of `ids`, so
   the three nodes return the SAME id.

Expected (C03): the function of every selected active node - the callable the user registered - is entered exactly
once per call site; here it is entered zero times (plain functions and methods called as `obj.method(...)` inside the
DAG behave correctly).
"""
import functools
import sys

from tawazi import dag, xn


class Collector:
    def __init__(self):
        self.items = []

    def add(self, x):
        self.items.append(x)
        return len(self.items)


class IdGenerator:
    def __init__(self):
        self.last = 0

    def next_id(self):
        self.last += 1
        return self.last


collector = Collector()
ids = IdGenerator()
add_to_collector = xn(collector.add)
next_id = xn(ids.next_id)

log = []
append_to_log = xn(functools.partial(lambda target, x: target.append(x) or len(target), log))


@xn
def count(coll, after):
    return len(coll.items)


@dag
def pipe(x):
    n = add_to_collector(x)
    m = append_to_log(x)
    return n, m, count(collector, n), next_id(), next_id(), next_id()


n, m, seen, *drawn = pipe("record")
drawn = tuple(drawn)
print("add_to_collector returned", n, "| collector.items =", collector.items, "| count(collector) saw", seen)
print("append_to_log returned", m, "| log =", log)
print("three draws of next_id:", drawn, "| ids.last =", ids.last)

problems = []
if collector.items != ["record"] or seen != 1:
    problems.append("collector.add was never entered on `collector` (a hidden deep copy of it was used)")
if log != ["record"]:
    problems.append("the partial bound to `log` appended to a hidden deep copy of `log`")
if len(set(drawn)) != 3 or ids.last != 3:
    problems.append(f"three call sites of ids.next_id drew {drawn}: each call site owns a private clone of `ids`")
if problems:
    for p in problems:
        print("DEFECT:", p)
    sys.exit(1)
print("ok")
