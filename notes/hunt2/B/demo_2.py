"""A node that fails with an exception that is not a subclass of `Exception` is not reported as a node failure.

ExecNode.execute only catches `Exception`. Every exception of tawazi itself derives from `BaseException`
(tawazi.errors.TawaziBaseException), so e.g. a node that runs another DAG (a documented, thread-safe callable) and
whose inner DAG fails is NOT identified: the outer call raises the inner error as is - the failing outer node and its
call location are lost and the exception is not chained. Same for any user exception deriving from BaseException.

Expected (C14): the call raises a TawaziBaseException "Error occurred while executing ExecNode <id> at <file:line>"
whose __cause__ is the original exception, as it does for an ordinary Exception.
"""
import sys

from tawazi import Resource, dag, xn
from tawazi.errors import TawaziBaseException

problems = []


class Abort(BaseException):
    """A user exception that is deliberately not an Exception (like KeyboardInterrupt, GeneratorExit, CancelledError)."""


def check(title, dag_, node_id):
    try:
        dag_()
    except BaseException as e:  # noqa: B036
        ok = (
            isinstance(e, TawaziBaseException)
            and f"ExecNode {node_id} at " in str(e)
            and e.__cause__ is not None
        )
        print(f"{title}: raised {type(e).__name__}({e}) cause={e.__cause__!r}")
        if not ok:
            problems.append(title)
    else:
        print(f"{title}: no exception")
        problems.append(title)


# reference: an ordinary Exception is wrapped and names the node
@xn
def fails_with_exception():
    raise ValueError("boom")


@dag
def ref():
    return fails_with_exception()


check("reference (ValueError)", ref, "fails_with_exception")
assert not problems, "the reference behaviour changed"

# 1. a user exception deriving from BaseException, for each resource
for res in Resource:

    @xn(resource=res)
    def stop_everything():
        raise Abort("stop")

    @dag
    def d1():
        return stop_everything()

    check(f"BaseException subclass on {res.value}", d1, "stop_everything")


# 2. tawazi's own exceptions: a node that runs another DAG whose node fails
@xn
def broken_leaf():
    raise ValueError("inner boom")


@dag
def inner():
    return broken_leaf()


@xn
def run_inner_pipeline():
    # executed in a pool thread at run time (not a sub-DAG description): a DAG is a thread-safe callable
    return inner()


@dag
def outer():
    return run_inner_pipeline()


check("node running another DAG", outer, "run_inner_pipeline")

if problems:
    print("DEFECT: the failing node / call location is not identified and the error is not chained for:", problems)
    sys.exit(1)
print("ok")
