"""C06 / C07: the hidden pass-through node that feeds a sub-DAG parameter takes part in the priority competition.

A sub-DAG parameter is materialised in the outer DAG as a hidden main-thread node (`<sub>.<sub>>!><param>`,
exec_function `lambda x: x`).  Its compound priority is the sum of the priorities of EVERYTHING the parameter
feeds, so a negative-priority consumer drags it below unrelated outer nodes, and the high-priority consumer of the
same parameter - whose only input is a constant, i.e. it is ready from the very first instant - is started AFTER a
lower-priority node.  The same pipeline written flat (without the sub-DAG) is scheduled correctly.

Part 2 shows the C07 face of the same root cause: when the hidden node ties with a user node (the user nodes have
NO ties between them), the execution order of a max_concurrency=1 DAG depends on PYTHONHASHSEED.
"""
import os
import subprocess
import sys

from tawazi import dag, xn

order = []


@xn(priority=10)
def hi(x):
    order.append("hi")
    return x


@xn(priority=-20)
def lo(x):
    order.append("lo")
    return x


@xn(priority=0)
def other():
    order.append("other")
    return 0


@dag
def inner(x):
    return hi(x), lo(x)


@dag  # max_concurrency=1
def outer_nested():
    o = other()
    a, b = inner(5)  # the parameter is a constant: nothing has to run before hi / lo
    return o, a, b


@dag  # the very same pipeline without the sub-DAG
def outer_flat():
    o = other()
    a, b = hi(5), lo(5)
    return o, a, b


def part1() -> int:
    order.clear()
    assert outer_flat() == (0, 5, 5)
    flat = list(order)
    order.clear()
    assert outer_nested() == (0, 5, 5)
    nested = list(order)

    cp = outer_nested.graph_ids.compound_priority
    print("flat   order:", flat)
    print("nested order:", nested)
    print("compound priorities (nested):", {k: cp[k] for k in ("other", "inner.hi", "inner.lo")})
    hidden = [k for k in outer_nested.exec_nodes if k.endswith(">!>x")]
    print("hidden node(s):", {k: cp[k] for k in hidden})
    if nested.index("other") < nested.index("hi"):
        print(
            "C06 VIOLATED: 'other' (compound priority 0) was started while 'hi' (compound priority 10) was ready:\n"
            "  hi's only input is the constant 5, it was not started, and 10 > 0.\n"
            "  The flat DAG starts hi first, the nested one starts other first."
        )
        return 1
    return 0


CHILD = r"""
from tawazi import dag, xn
order = []
@xn(priority=5)
def n1(x): order.append("n1"); return x
@xn(priority=-5)
def n2(x): order.append("n2"); return x
@xn(priority=0)
def r(): order.append("r"); return 0
@xn(priority=-1)
def q(): order.append("q"); return 0
@dag
def inner(x):
    return n1(x), n2(x)
@dag
def outer():
    a, b = inner(5)
    return r(), q(), a, b
outer()
cp = outer.graph_ids.compound_priority
# the user nodes have pairwise distinct compound priorities: 5, 0, -1, -5
assert sorted(cp[k] for k in ("inner.n1", "r", "q", "inner.n2")) == [-5, -1, 0, 5]
print(",".join(order))
"""


def part2() -> int:
    orders = {}
    for seed in range(8):
        env = dict(os.environ, PYTHONHASHSEED=str(seed))
        out = subprocess.run(
            [sys.executable, "-c", CHILD], env=env, capture_output=True, text=True, check=True
        ).stdout.strip()
        orders.setdefault(out, []).append(seed)
    for o, seeds in orders.items():
        print(f"PYTHONHASHSEED in {seeds}: execution order {o}")
    if len(orders) > 1:
        print(
            "C07 VIOLATED: max_concurrency=1, user priorities 5 / 0 / -1 / -5 (no ties), yet the execution order\n"
            "  depends on the hash seed (the hidden sub-DAG parameter node has compound priority 0 and ties with r)."
        )
        return 1
    return 0


if __name__ == "__main__":
    rc1 = part1()
    print()
    rc2 = part2()
    sys.exit(1 if (rc1 or rc2) else 0)
