"""C20: a DAG that is built (decorated with @dag) inside another DAG's describing function dead-locks.

`threadsafe_make_dag` takes the module-wide, NON re-entrant `exec_nodes_lock`; the describing function of the
outer DAG runs while that lock is held, so decorating the inner function blocks forever on the same lock
(no error, the process just hangs at import / definition time).

Plain Python:  outer(1) == 4
tawazi      :  `@dag def outer` never returns
"""
import os
import sys
import threading

from tawazi import dag, xn


@xn
def mul(x, k):
    return x * k


def make_scaler(k):
    """A parametrised sub-pipeline: a perfectly ordinary DAG factory."""

    @dag
    def scale(x):
        return mul(x, k)

    return scale


# the factory works fine outside of a DAG description
assert make_scaler(3)(2) == 6

finished = threading.Event()
result = {}


def build_and_run():
    @dag
    def outer(x):
        double = make_scaler(2)  # a constant computed by simple python code during the description
        return double(x)

    result["value"] = outer(2)
    finished.set()


t = threading.Thread(target=build_and_run, daemon=True)
t.start()
if not finished.wait(5):
    print(
        "DEFECT (C20): building a DAG inside the describing function of another DAG hangs "
        "(dead-lock on tawazi.node.node.exec_nodes_lock); expected outer(2) == 4"
    )
    sys.stdout.flush()
    os._exit(1)
assert result["value"] == 4, result
print("ok")
