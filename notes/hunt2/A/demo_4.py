"""C20: a composed DAG whose inputs name a LATER use of a function (`inc<<1>>`) before its first use (`inc`)
works on its own, but cannot be called inside another DAG: describing the outer DAG raises KeyError.

The input stubs of a sub-DAG are registered through LazyExecNode.__call__, which renumbers ids with
count_occurrences(): the stub for input `c>!>inc` sees the already registered stub `c.c>!>inc<<1>>`,
believes it is the 2nd use of the same function and renames itself `c.c>!>inc<<1>>` too.
With the inputs in the other order ([inc, inc<<1>>]) everything works.
"""
import sys

from tawazi import dag, xn


@xn
def inc(x):
    return x + 1


@xn
def sub(x, y):
    return x - y


@dag
def pipe(x, y):
    a = inc(x)  # id: inc
    b = inc(y)  # id: inc<<1>>
    return sub(a, b)


assert pipe(10, 3) == 7

# value for b first, then value for a
comp = pipe.compose("c", inputs=["inc<<1>>", "inc"], outputs="sub")
assert comp(3, 10) == 7  # a=10, b=3: fine standalone

# inlining `comp` must behave as if its body had been written in place
try:

    @dag
    def outer(p, q):
        return comp(p, q)

    got = outer(3, 10)
except BaseException as e:  # noqa: BLE001
    print(f"DEFECT (C20): calling the composed DAG inside a DAG raised {type(e).__name__}: {e}")
    # the same composition with the inputs in the other order is accepted
    comp2 = pipe.compose("c", inputs=["inc", "inc<<1>>"], outputs="sub")

    @dag
    def outer2(p, q):
        return comp2(p, q)

    print(f"   (with inputs=['inc', 'inc<<1>>'] the nested call works: outer2(10, 3) == {outer2(10, 3)})")
    sys.exit(1)

if got != 7:
    print(f"DEFECT (C20): nested composed DAG returned {got!r}, expected 7")
    sys.exit(1)
print("ok")
