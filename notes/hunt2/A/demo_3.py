"""C19: an alias that is BOTH the tag of one node and the id of another node is ambiguous, yet `compose`
does not raise ValueError: it silently resolves to the tagged node, so the composed DAG returns the value
of the wrong node.

documentation: "Inputs and outputs are communicated using Alias: either the ExecNode reference or the tag/id
(__qualname__) of the ExecNode. Any ambiguity will raise an Error." / compose docstring: "All provided
Aliases must point to unique ExecNodes. Otherwise ValueError is raised"
"""
import sys

from tawazi import dag, xn


@xn
def load(x):
    return x + 1


@xn(tag="scale")  # the author of this node tagged it "scale"
def normalise(x):
    return x * 10


@xn  # ... and this node's id (its __qualname__) is "scale" too
def scale(x):
    return x * 2


@xn
def total(a, b):
    return a + b


@dag
def pipe(x):
    v = load(x)
    return total(normalise(v), scale(v))


assert pipe(1) == 24
assert pipe.get_node_by_id("scale").exec_function(1) == 2  # "scale" is a valid id ...
assert [n.id for n in pipe.get_nodes_by_tag("scale")] == ["normalise"]  # ... and a valid tag of another node

try:
    sub = pipe.compose("sub", inputs="pipe>!>x", outputs="scale")
except ValueError as e:
    print("ok: ambiguous alias rejected:", e)
    sys.exit(0)

got = sub(1)
by_reference = pipe.compose("sub2", inputs="pipe>!>x", outputs=scale)(1)  # 4: scale(load(1))
print(
    "DEFECT (C19): alias 'scale' designates two different nodes (id of `scale`, tag of `normalise`) but compose "
    f"raised no ValueError; the composed DAG returned {got!r} (the value of `normalise`), "
    f"while the node whose id is 'scale' computes {by_reference!r}"
)
sys.exit(1)
