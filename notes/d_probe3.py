import threading, time, traceback
from tawazi import dag, xn, cfg, DAG
cnt = {"a":0,"b":0}
fail = {"on": True}
@xn
def a(x): cnt["a"]+=1; return x+1
@xn
def b(x):
    cnt["b"]+=1
    if fail["on"]: raise ValueError("boom")
    return x*2
@xn
def c(x): return x+100
@dag
def p(x):
    return c(b(a(x)))
ex = p.executor()
try: ex(1)
except BaseException as e: print("first run failed:", type(e).__name__, e, "| cause:", repr(e.__cause__))
fail["on"]=False
print("nodes left", list(ex.graph.nodes), "executed", ex.executed)
try: print("second run:", ex(5), cnt)
except BaseException as e: print("second run raised", type(e).__name__, e)
print("fresh:", p(5))

# compose with active referencing input
@xn
def flag(): return False
@xn
def one(x): return x
@dag
def q():
    f = flag()
    return one(3, twz_active=f)
print(q())
try:
    comp = q.compose("comp", [flag], [one])
    print("composed nodes", list(comp.exec_nodes), comp.exec_nodes["one"].active)
    print("comp(True) expect 3:", comp(True))
except BaseException as e:
    print("compose failed", type(e).__name__, e)

# D3
import tawazi
started = threading.Event(); go = threading.Event()
@xn
def slow():
    return 1
def builder():
    @dag
    def built():
        started.set(); go.wait(2)
        return slow()
    res.append(built)
res=[]
t = threading.Thread(target=builder); t.start()
started.wait()
try:
    r = p(1); print("call during build ->", r)
except BaseException as e: print("call during build raised", type(e).__name__, e)
go.set(); t.join()
print(list(res[0].exec_nodes) if res else None)
