import os, sys, threading, time, traceback
from tawazi import dag, xn, cfg, DAG
cnt = {"a":0,"b":0}
@xn
def a(x): cnt["a"]+=1; return x+1
@xn
def b(x): cnt["b"]+=1; return x*2
@dag
def p(x):
    return b(a(x))
# D1
ex = p.executor(cache_in="/tmp/scratch/c.pkl"); print(ex(1), cnt)
ex = p.executor(from_cache="/tmp/scratch/c.pkl"); print(ex(1), cnt)
try:
    ex = p.executor(cache_deps_of=["b"], cache_in="/tmp/scratch/c2.pkl"); print(ex(1), cnt)
    import pickle; print(pickle.load(open("/tmp/scratch/c2.pkl","rb")))
    ex = p.executor(cache_deps_of=["b"], from_cache="/tmp/scratch/c2.pkl"); print(ex(1), cnt)
except Exception as e:
    traceback.print_exc()

# D4 index flag ignored
@xn
def flags(): return (True, False)
@xn
def one(): return 1
@dag
def q():
    f = flags()
    return one(twz_active=f[1])
print("D4 expect None:", q())

# D8 explicit value ignored for default param
@dag
def inner(x, y=2):
    return a(x), b(y)
@dag
def outer():
    return inner(1, 10)
print("D8 expect (2,20):", outer())

# D12 constant False on nested dag
@dag
def outer2():
    return inner(1, twz_active=False)
print("D12 expect (None,None):", outer2())
