from tawazi import dag, xn
@xn
def a(x): return x+1
@dag
def inner(x): return a(x)
try:
    @dag
    def outer(x):
        return inner(x), inner(x)
    print(outer(1))
except BaseException as e:
    print("twice:", type(e).__name__, str(e)[:100])
# index into kwarg of reused node
@xn
def mk(): return {"k":[1,2,3]}
@xn
def f(p, q=0): return p + q
@dag
def d():
    m = mk()
    return f(1, q=m["k"][2]), f(2, q=m["k"][0])
print(d())
@dag
def o2():
    return d()
print(o2())
