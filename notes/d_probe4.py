import traceback, asyncio, time, threading
from tawazi import dag, xn, cfg, DAG, Resource
# F-11: setup node with twz_active inside sub-DAG
@xn(setup=True)
def s(): return 5
@xn
def use(x): return x
@dag
def inner():
    return use(s(twz_active=True))
print("inner alone:", inner())
try:
    @dag
    def outer():
        return inner()
    print("outer:", outer())
except BaseException as e:
    print("F-11:", type(e).__name__, e)

# F-10: thread + async-thread mix: lost parallelism
ev = []
@xn(resource=Resource.async_thread)
def slow_async(): time.sleep(0.6); return "sa"
@xn(resource=Resource.thread)
def fast_thread(): time.sleep(0.05); return "ft"
@xn(resource=Resource.thread)
def after_fast(x): ev.append(("after_fast_start", time.time()-t0)); return x
@dag(max_concurrency=2)
def mix():
    a = slow_async(); b = fast_thread(); return a, after_fast(b)
t0=time.time(); print(mix(), ev, "total", round(time.time()-t0,2))
