from tawazi import dag, xn
cnt = {"s1":0,"s2":0}
@xn(setup=True)
def s1(): cnt["s1"]+=1; return 1
@xn(setup=True)
def s2(): cnt["s2"]+=1; return 2
@xn
def a(x): return x
@xn
def b(x): return x
@dag
def p():
    return a(s1()), b(s2())
ex = p.executor(root_nodes=["s1"])
print("selection:", sorted(ex.graph.nodes))
ex.setup(); print("after executor.setup with root_nodes=[s1]:", cnt)
import copy
p2 = copy.deepcopy(p)
cnt.update(s1=0,s2=0)
p.setup(root_nodes=["s1"]); print("dag.setup(root_nodes=[s1]):", cnt)
