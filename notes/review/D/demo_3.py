"""00e2679 incomplete: the callable IS still copied (dataclasses.asdict), the copy is only thrown away.

LazyExecNode.__call__, ExecNode._conf_to_values and the sub-DAG splice still start with
dataclasses.asdict(node), which deep-copies every field value - including exec_function - before
the commit's new line overwrites the entry.  So a bound method of any object that cannot be
deep-copied (here: a counter protecting its state with a threading.Lock, i.e. the thread-safe
version of the commit message's own example) still cannot be used in a DAG at all: describing the
DAG raises TypeError.  (For copyable objects the user's object is cloned once per call site /
config reload / splice for nothing, running user __deepcopy__ hooks.)
"""
import sys
import threading
import traceback

from tawazi import dag, xn


class SafeCounter:
    def __init__(self):
        self.lock = threading.Lock()
        self.n = 0

    def next(self):
        with self.lock:
            self.n += 1
            return self.n


counter = SafeCounter()
nxt = xn(counter.next)

try:

    @dag
    def pipe():
        return nxt(), nxt(), nxt()

    got = pipe()
except BaseException as e:
    traceback.print_exc()
    print(f"FAIL: {type(e).__name__}: {e} - plain Python returns (1, 2, 3)")
    sys.exit(1)

print("pipe() ->", got, "| counter.n =", counter.n)
if sorted(got) != [1, 2, 3] or counter.n != 3:
    print("FAIL: expected the three calls to enter counter.next: (1, 2, 3), n == 3")
    sys.exit(1)
print("ok")
