"""Commit 42dda41 (a DAG returning a constant can be nested): incomplete fix.

A nested DAG whose return contains a constant can now be spliced into an outer DAG,
but ReturnExecNode.__init__(id_, **_kwargs) throws away the `active` reference that
DAG.__call__ computes for every non-setup node of a sub-DAG called with twz_active.
A deactivated nested DAG therefore still yields its constant outputs instead of None
(property C10: "a deactivated nested DAG executes none of its non-setup nodes and all
its outputs are None"; C01/C20: the value differs from the plain Python evaluation in
which the deactivated call yields None).

Before the commit (42dda41~1) the same program fails at build time with
TypeError: __init__() got an unexpected keyword argument 'id_'.
"""
import sys

from tawazi import dag, xn

executed = []


@xn
def incr(x):
    executed.append("incr")
    return x + 1


@xn
def consume(v):
    executed.append("consume")
    return v


@dag
def inner_tuple(x):
    return incr(x), 5


@dag
def inner_single():
    return 7


@dag
def inner_dict(x):
    return {"r": incr(x), "c": 9}


try:

    @dag
    def outer(x, flag):
        r, c = inner_tuple(x, twz_active=flag)
        s = inner_single(twz_active=flag)
        d = inner_dict(x, twz_active=flag)
        # a dependent of a deactivated output must receive None
        seen = consume(c)
        return r, c, s, d["r"], d["c"], seen

    @dag
    def outer_const_flag(x):
        # the flag is a constant False
        r, c = inner_tuple(x, twz_active=False)
        return r, c

except BaseException as e:  # TawaziBaseException derives from BaseException
    print(f"FAIL: building the outer DAG raised {type(e).__name__}: {e}")
    sys.exit(1)

failures = []

# active: identical to inlining the nested DAGs
got = outer(1, True)
expected = (2, 5, 7, 2, 9, 5)
if got != expected:
    failures.append(f"outer(1, True) returned {got}, expected {expected}")

# deactivated: every output of the nested DAGs must be None
executed.clear()
got = outer(1, False)
expected = (None, None, None, None, None, None)
if got != expected:
    failures.append(
        f"outer(1, False) returned {got}, expected {expected}: the constant outputs of the "
        f"deactivated nested DAGs are not None (and their dependent received {got[5]!r})"
    )
if "incr" in executed:
    failures.append(f"nodes of the deactivated nested DAG ran: {executed}")

got = outer_const_flag(1)
if got != (None, None):
    failures.append(f"outer_const_flag(1) returned {got}, expected (None, None)")

# show where the activation got lost
rxn = outer.exec_nodes["inner_tuple.inner_tuple<!<1st argument"]
lxn = outer.exec_nodes["inner_tuple.incr"]
print(f"activation of spliced node      {lxn.id!r}: {lxn.active}")
print(f"activation of spliced constant  {rxn.id!r}: {rxn.active}")

if failures:
    for f in failures:
        print("FAIL:", f)
    sys.exit(1)
print("OK")
