"""d98a6ba regression: an indexed / unpacked twz_active flag whose producer was itself deactivated
crashes the scheduler with a bare AttributeError instead of deactivating the node.

Chained activation (the result of a deactivated node, i.e. None, used as the flag of a later node) is
established usage (tests/test_active.py::pipe7). Before d98a6ba `bool(results[flag_id])` was bool(None)
-> the dependent node was deactivated and yielded None. Now `UsageExecNode.result` indexes into None
inside the scheduler loop: the call dies with an exception that names no node, has no call location
and is not caused by any node function (C10, C14)."""
import sys
import traceback

from tawazi import dag, xn

ran = []


@xn
def checks(x):
    ran.append("checks")
    return (x > 0, x % 2 == 0)  # (is_positive, is_even)


@xn(unpack_to=2)
def checks_unpacked(x):
    ran.append("checks_unpacked")
    return (x > 0, x % 2 == 0)


@xn
def work(x):
    ran.append("work")
    return x * 10


@dag
def indexed(x, enabled):
    c = checks(x, twz_active=enabled)  # deactivated -> None
    return work(x, twz_active=c[1])  # flag = indexed part of that result


@dag
def unpacked(x, enabled):
    pos, even = checks_unpacked(x, twz_active=enabled)
    return work(x, twz_active=even)


failures = []
for name, d in (("indexed", indexed), ("unpacked", unpacked)):
    # (only the deactivated-producer case is checked, so that the script is comparable before/after the commit)
    ran.clear()
    try:
        got = d(4, False)
    except BaseException as e:  # noqa: BLE001
        traceback.print_exc()
        failures.append(f"{name}: DAG call raised {type(e).__name__}: {e} (no node function raised)")
        continue
    if got is not None or ran:
        failures.append(f"{name}: expected None with nothing run, got {got!r}, ran={ran}")

if failures:
    print("\nFAIL")
    for f in failures:
        print(" -", f)
    sys.exit(1)
print("OK: a flag taken from a deactivated producer deactivates the dependent node")
