"""ab2f472 incomplete fix: a sub-DAG deactivated with twz_active=False still produces non-None outputs.

The commit attaches the (constant False) flag to the inner nodes, but an output of the sub-DAG that is
not computed by a LazyExecNode - a parameter left at its default, a constant in the return statement,
the result of a setup node - is pre-loaded in the results table (copied from inner.results while
splicing), so the scheduler prunes those nodes before the flag is ever looked at. A deactivated
nested DAG must yield None for ALL its outputs (C10); `inner(...) if False else None`.
The same holds when the flag is a run-time value (twz_active=<node result>)."""
import sys
import traceback

from tawazi import dag, xn

ran = []


@xn
def add(x, y):
    ran.append("add")
    return x + y


@xn(setup=True)
def model():
    return "model"


@dag
def with_default(x, y=2):
    return add(x, y), y  # y is left at its default by the callers below


@dag
def with_constant(x):
    return add(x, 1), "done"


@dag
def with_setup(x):
    m = model()
    return add(x, 1), m


failures = []


def check(name, build, args, expected):
    ran.clear()
    try:
        got = build()(*args)
    except BaseException as e:  # noqa: BLE001
        traceback.print_exc()
        failures.append(f"{name}: raised {type(e).__name__}: {e}")
        return
    if got != expected or ran:
        failures.append(f"{name}: expected {expected!r} and no node run, got {got!r}, ran={ran}")


def b1():
    @dag
    def outer(a):
        return with_default(a, twz_active=False)

    return outer


def b2():
    @dag
    def outer(a):
        return with_constant(a, twz_active=False)

    return outer


def b3():
    @dag
    def outer(a):
        return with_setup(a, twz_active=False)

    return outer


def b4():
    @dag
    def outer(a, flag):
        return with_default(a, twz_active=flag)

    return outer


check("constant False, output = parameter default", b1, (1,), (None, None))
check("constant False, output = constant", b2, (1,), (None, None))
check("constant False, output = setup result", b3, (1,), (None, None))
check("run-time False, output = parameter default", b4, (1, False), (None, None))

if failures:
    print("\nFAIL")
    for f in failures:
        print(" -", f)
    sys.exit(1)
print("OK: every output of a deactivated sub-DAG is None")
