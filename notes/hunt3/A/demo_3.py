"""A node that fails with an exception that does not derive from `Exception` is not reported:
the call raises the bare exception, without the id of the failing node, without its call location
and without a cause.  All of tawazi's own errors are in this case (TawaziBaseException derives from
BaseException), e.g. the very common mistake of calling an @xn from inside another node.
"""
import sys

from tawazi import dag, xn
from tawazi.errors import TawaziBaseException


@xn
def helper(x):
    return x + 1


@xn
def good(x):
    return x


@xn
def calls_an_xn(x):
    # mistake of the user: an ExecNode can not be called outside of a DAG description -> TawaziUsageError
    return helper(x)


class Abort(BaseException):
    """user defined 'stop everything' exception (like KeyboardInterrupt / SystemExit / asyncio.CancelledError)."""


@xn
def aborts(x):
    raise Abort()


@xn
def plain_failure(x):
    raise ValueError("boom")


def check(pipe, node_name):
    try:
        pipe(1)
    except BaseException as e:  # noqa: B902
        named = node_name in str(e)
        located = __file__ in str(e)
        print(f"{node_name:14s}: raised {type(e).__name__}({str(e)[:70]!r}...) names node={named} "
              f"gives location={located} cause={e.__cause__!r}")
        return named and located and e.__cause__ is not None
    print(f"{node_name}: no exception at all")
    return False


@dag
def pipe_ref(x):
    return plain_failure(good(x))


@dag
def pipe_xn(x):
    return calls_an_xn(good(x))


@dag
def pipe_abort(x):
    return aborts(good(x))


ok_ref = check(pipe_ref, "plain_failure")  # reference: an Exception is reported as specified
ok_xn = check(pipe_xn, "calls_an_xn")
ok_abort = check(pipe_abort, "aborts")

if not ok_ref:
    print("unexpected: even a plain Exception is not attributed")
    sys.exit(2)
if not (ok_xn and ok_abort):
    print("DEFECT: the failing node / its call location / the cause are missing from the raised exception")
    sys.exit(1)
print("ok")
