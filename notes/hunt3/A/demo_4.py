"""cache_in stores - and from_cache restores with priority - the CONSTANTS of the DAG description
(hidden argument nodes of every ExecNode, default values of the DAG's parameters), not only results of
executed nodes.  A DAG that is declared again (next run of the same script: that is what a cache file is for)
with another value for such a constant silently runs its NON cached nodes with the stale constant of the run
that wrote the cache.

documentation (dag docstring): "you can use some simple python code to generate constants. These constants
are computed only once during the DAG declaration."
"""
import os
import sys
import tempfile

from tawazi import dag, xn

calls = []


@xn
def load(x):
    calls.append("load")
    return [x, x + 1, x + 2]


@xn
def report(data, day, threshold):
    calls.append("report")
    return f"{day}: {sum(v > threshold for v in data)} values above {threshold}"


RUN = {"day": "monday", "threshold": 0}


def declare():
    """What happens at import time of the user's script: the DAG is declared with the constants of this run."""

    @dag
    def pipe(x, threshold=RUN["threshold"]):
        data = load(x)  # expensive: cached
        return report(data, RUN["day"], threshold)  # cheap: always recomputed, takes a constant + a default

    return pipe


cache = os.path.join(tempfile.mkdtemp(), "deps_of_report.pkl")

# run 1 (monday): compute everything, cache what `report` depends on
pipe_monday = declare()
r1 = pipe_monday.executor(cache_deps_of=["report"], cache_in=cache)(1)
print("run 1                 :", r1, calls)

# run 2 (tuesday, other threshold): same script, same DAG, the constants have other values
RUN.update(day="tuesday", threshold=2)
pipe_tuesday = declare()

calls.clear()
expected = pipe_tuesday(1)
print("run 2 without cache   :", expected, calls)

calls.clear()
got = pipe_tuesday.executor(from_cache=cache)(1)
print("run 2 with from_cache :", got, calls)

if calls != ["report"]:
    print("unexpected: the cache was not used as intended", calls)
    sys.exit(2)
if got != expected:
    print(
        "DEFECT: `report` was executed in run 2 (it is not cached) but received the constants of run 1 "
        f"({got!r} instead of {expected!r})"
    )
    sys.exit(1)
print("ok")
