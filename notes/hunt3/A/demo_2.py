"""With debug nodes enabled, a debug node that takes a CONSTANT next to the value it inspects is silently
left out of every sub-graph run, whereas the same debug node without the constant runs.

documentation (xn docstring): "a debug ExecNode will run [if] its inputs exists regardless of subgraph choice"
"""
import sys

from tawazi import cfg, dag, xn

cfg.RUN_DEBUG_NODES = True
calls = []


@xn
def load(x):
    calls.append("load")
    return x + 1


@xn
def train(x):
    calls.append("train")
    return x * 2


@xn(debug=True)
def show(v):
    calls.append("show")


@xn(debug=True)
def show_labelled(v, label):
    calls.append("show_labelled")


@xn(debug=True)
def show_kw(v, label="?"):
    calls.append("show_kw")


@dag
def pipe(x):
    data = load(x)
    show(data)  # debug node on `data`
    show_labelled(data, "after load")  # the same, plus a constant positional argument
    show_kw(data, label="after load")  # the same, plus a constant keyword argument
    return train(data)


# 1. whole DAG: the three debug nodes run
calls.clear()
pipe(1)
print("whole DAG          :", sorted(calls))
whole_ok = {"show", "show_labelled", "show_kw"} <= set(calls)

# 2. sub-graph up to `load`: all inputs of the three debug nodes exist (data + constants)
calls.clear()
pipe.executor(target_nodes=["load"])(1)
print("sub-graph -> load  :", sorted(calls))
missing = {"show", "show_labelled", "show_kw"} - set(calls)

cfg.RUN_DEBUG_NODES = False
if not whole_ok:
    print("unexpected: debug nodes did not run in the whole DAG")
    sys.exit(2)
if missing:
    print(
        f"DEFECT: debug nodes {sorted(missing)} were not executed in the sub-graph run although their only "
        "non constant input (`load`) was computed; `show`, which differs only by the constant, did run"
    )
    sys.exit(1)
print("ok")
