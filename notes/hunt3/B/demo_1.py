"""C06: a ready inner node of a nested DAG is overtaken by lower-priority nodes.

The hidden identity "stub" node that feeds an argument into a nested DAG gets its own compound
priority (0 + all inner descendants).  With a negative priority somewhere behind that stub, the stub
ranks lower than the inner node it gates, so a ready high-priority inner node has to wait until
unrelated lower-priority nodes were started.  The same pipeline written flat is scheduled correctly.
"""
import sys
from typing import List

from tawazi import dag, xn

order: List[str] = []


@xn(priority=20)
def src() -> int:
    order.append("src")
    return 1


@xn(priority=5)
def hi(x: int) -> int:
    order.append("hi")
    return x


@xn(priority=-10)
def lo(x: int) -> int:
    order.append("lo")
    return x


@xn(priority=1)
def other() -> int:
    order.append("other")
    return 0


@dag(max_concurrency=1)
def flat():
    s = src()
    h, l = hi(s), lo(s)
    return h, l, other(), other(), other()


@dag
def inner(x):
    return hi(x), lo(x)


@dag(max_concurrency=1)
def nested():
    s = src()
    h, l = inner(s)
    return h, l, other(), other(), other()


flat()
flat_order, order = order, []
nested()
nested_order = order

cp = nested.graph_ids.compound_priority
print("flat   order:", flat_order)
print("nested order:", nested_order)
print("compound priorities in `nested`:", {k: v for k, v in cp.items() if ">!>" not in k or "inner" in k})

expected = ["src", "hi", "other", "other", "other", "lo"]
assert flat_order == expected, "flat DAG is scheduled by compound priority (sanity check)"
if nested_order != expected:
    i = nested_order.index("hi")
    print(
        f"VIOLATION (C06): after `src` finished, `inner.hi` (compound priority {cp['inner.hi']}) was ready "
        f"(its only dependency `src` had finished) but {nested_order[1:i]} (compound priority {cp['other']}) "
        f"were started before it; the hidden stub `inner.inner>!>x` has compound priority {cp['inner.inner>!>x']}."
    )
    sys.exit(1)
print("ok")
