"""C08: a DEACTIVATED sequential node (twz_active=False) still drains the thread pool.

In the scheduler the "is_sequential -> wait until nothing is running" step (4.2) comes before the
"is this node active in this call?" step (5.1).  A sequential node that is switched off for this call and
will never run therefore blocks the scheduler until every running node has finished, while independent
ready nodes and free slots exist.  Nothing sequential runs at any point of the execution.
"""
import sys
import time
from typing import Dict, Tuple

from tawazi import dag, xn

T = 0.4
log: Dict[str, Tuple[float, float]] = {}


def record(name: str, dur: float) -> None:
    s = time.perf_counter()
    time.sleep(dur)
    log[name] = (s, time.perf_counter())


@xn(priority=10)
def slow() -> None:
    record("slow", T)


@xn(priority=5, is_sequential=True)
def guarded() -> None:  # e.g. a non thread-safe step that is only needed for some inputs
    record("guarded", T)


@xn(priority=0)
def quick1() -> None:
    record("quick1", T)


@xn(priority=0)
def quick2() -> None:
    record("quick2", T)


@dag(max_concurrency=3)
def pipe(use_guarded: bool) -> None:
    slow()
    guarded(twz_active=use_guarded)
    quick1()
    quick2()


@dag(max_concurrency=3)
def reference() -> None:  # the nodes that really run when use_guarded is False
    slow()
    quick1()
    quick2()


t0 = time.perf_counter()
reference()
t_ref = time.perf_counter() - t0
log.clear()

t0 = time.perf_counter()
pipe(False)
t_pipe = time.perf_counter() - t0

print(f"reference (3 independent nodes, 3 slots): {t_ref:.2f}s")
print(f"pipe(False) (same nodes + 1 deactivated sequential node): {t_pipe:.2f}s")
for k, (s, e) in sorted(log.items(), key=lambda kv: kv[1]):
    print(f"  {k:7s} start {s - t0:.2f} end {e - t0:.2f}")

assert "guarded" not in log, "the deactivated node must not run"
idle = log["quick1"][0] - log["slow"][0]
if idle > T / 2:
    print(
        f"VIOLATION (C08): the scheduler idled {idle:.2f}s with 2 free slots and 2 ready independent nodes "
        f"(quick1, quick2) while only `slow` was running; it was draining the pool for `guarded`, "
        f"a sequential node that is deactivated in this call and never runs."
    )
    sys.exit(1)
print("ok")
