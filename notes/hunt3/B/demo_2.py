"""C06: nodes that do NOT take part in an execution still steer its priorities.

The compound-priority table is computed once on the whole DAG and shared by every sub-graph
(`make_subgraph` / `extend_graph_with_debug_nodes` assign `graph.compound_priority = self.compound_priority`).
A descendant that is excluded from the execution (exclude_nodes, target_nodes, or simply a debug node
while RUN_DEBUG_NODES is off - the default!) still adds its priority to its ancestors.  In the restricted
execution the scheduler therefore starts a node although another ready node has a strictly greater
compound priority (own priority + priorities of its descendants *in that execution*).
"""
import sys
from typing import List

from tawazi import dag, xn

order: List[str] = []


@xn(priority=0)
def a() -> int:
    order.append("a")
    return 1


@xn(priority=100)
def heavy(x: int) -> int:
    order.append("heavy")
    return x


@xn(priority=10)
def b() -> int:
    order.append("b")
    return 2


@dag(max_concurrency=1)
def pipe():
    x = a()
    heavy(x)
    y = b()
    return x, y


# same pipeline, the high priority consumer is a debug node (debug nodes do not run by default)
@xn(debug=True, priority=100)
def check(x: int) -> None:
    order.append("check")


@dag(max_concurrency=1)
def pipe_dbg():
    x = a()
    check(x)
    y = b()
    return x, y


# reference: the pipeline that is actually executed in both cases
@dag(max_concurrency=1)
def reference():
    return a(), b()


bad = []

reference()
ref_order, order = order, []
assert ref_order == ["b", "a"], ref_order  # b (10) before a (0)

ex = pipe.executor(exclude_nodes=[heavy])
ex()
excl_order, order = order, []
print("reference (a, b only)        :", ref_order)
print("executor(exclude_nodes=heavy):", excl_order)
if excl_order != ref_order:
    bad.append(
        f"exclude_nodes: `a` (priority 0, no descendant in this execution) started before the ready `b` "
        f"(priority 10): order {excl_order}, table says a={ex.graph.compound_priority['a']} b={ex.graph.compound_priority['b']}"
    )

ex = pipe.executor(target_nodes=[a, b])
ex()
tgt_order, order = order, []
print("executor(target_nodes=[a, b]):", tgt_order)
if tgt_order != ref_order:
    bad.append(f"target_nodes: order {tgt_order}")

pipe_dbg()
dbg_order, order = order, []
print("debug consumer, RUN_DEBUG_NODES off:", dbg_order)
if dbg_order != ref_order:
    bad.append(
        f"debug node that never runs: `check` did not run, yet its priority 100 made `a` (0) start before the "
        f"ready `b` (10): order {dbg_order}"
    )

# DAG.setup(): only the setup nodes run, the priorities of their (non setup) consumers still count
@xn(setup=True, priority=0)
def load_small() -> int:
    order.append("load_small")
    return 1


@xn(setup=True, priority=10)
def load_big() -> int:
    order.append("load_big")
    return 2


@xn(priority=100)
def consume(x: int) -> int:
    return x


@dag(max_concurrency=1)
def pipe_setup():
    s, b = load_small(), load_big()
    return consume(s), b


pipe_setup.setup()
setup_order, order = order, []
print("DAG.setup() (load_big has priority 10, load_small 0):", setup_order)
if setup_order != ["load_big", "load_small"]:
    bad.append(f"DAG.setup(): order {setup_order}; `consume` (100) does not run during setup")

if bad:
    print("VIOLATION (C06):")
    for line in bad:
        print(" -", line)
    sys.exit(1)
print("ok")
