"""C13 / documented debug rule: a debug node whose inputs ARE all available is not pulled into a
sub-graph run as soon as one of its arguments is a constant (positional or keyword).

documentation (xn docstring): "debug: if True, will execute only when Debug mode is active.
a debug ExecNode will run its inputs exists regardless of subgraph choice."

`show(v)` and `show_labelled(v, "label")` hang on the very same (leaf) node `load`; with RUN_DEBUG_NODES on,
the executor that targets `load` runs `show` but silently drops `show_labelled` and `show_kw`.
"""
import sys

from tawazi import cfg, dag, xn

seen = []


@xn
def load(x):
    return x + 1


@xn(debug=True)
def show(v):
    seen.append("show")


@xn(debug=True)
def show_labelled(v, label):
    seen.append("show_labelled")


@xn(debug=True)
def show_kw(v, prefix=">"):
    seen.append("show_kw")


@dag
def pipe(x):
    v = load(x)
    show(v)
    show_labelled(v, "value of load")  # constant positional argument
    show_kw(v, prefix="#")  # constant keyword argument
    return v


cfg.RUN_DEBUG_NODES = True

# whole DAG: the three debug nodes run (reference behaviour)
assert pipe(1) == 2
assert sorted(seen) == ["show", "show_kw", "show_labelled"], seen
seen.clear()

# sub-graph whose only target (and leaf) is `load`: every input of the three debug nodes is available
ex = pipe.executor(target_nodes=["load"])
assert ex(1) == 2
print("debug nodes executed in the sub-graph run:", sorted(seen))
missing = {"show", "show_kw", "show_labelled"} - set(seen)
if missing:
    print(
        f"DEFECT: debug nodes {sorted(missing)} were not executed although all their inputs "
        "(the result of `load` and a constant) are available; `show`, attached to the same node, did run"
    )
    sys.exit(1)
print("ok")
