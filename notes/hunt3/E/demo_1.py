"""C01: keyword argument names that contain a '.' are silently rewritten (and merged).

`collect(**{"train.loss": a, "val.loss": b})` is legal Python for a function taking **kwargs.
Inside a DAG the node receives {"loss": b}: ExecNode.execute keeps only what follows the last '.'
of every keyword name, so the names change and two keywords collapse into one.
"""
import sys

from tawazi import dag, xn


def _collect(**metrics):
    return dict(metrics)


def _one():
    return 1


def _two():
    return 2


collect, one, two = xn(_collect), xn(_one), xn(_two)


@dag
def pipe():
    return collect(**{"train.loss": one(), "val.loss": two(), "lr": 3})


def plain():
    return _collect(**{"train.loss": _one(), "val.loss": _two(), "lr": 3})


expected = plain()
got = pipe()
print("plain python :", expected)
print("tawazi DAG   :", got)
if got != expected:
    print("VIOLATION (C01): the DAG does not return what the plain function returns; "
          "keyword names were cut at the last '.', and 'train.loss' was overwritten by 'val.loss'")
    sys.exit(1)
print("ok")
