"""C01: a node whose callable holds un-copyable state cannot be used in a DAG at all.

A bound method of an object that owns a threading.Lock (or functools.partial binding a DB connection, a
socket, a file ...) is a perfectly legal callable for @xn: the callable is never supposed to be copied.
LazyExecNode.__call__ still rebuilds the node from dataclasses.asdict(self), which deep-copies EVERY field
value - including exec_function - before the original callable is put back. The deep copy of the bound
method / partial copies the object behind it and raises TypeError, so describing the DAG fails.
"""
import functools
import sqlite3
import sys
import threading

from tawazi import dag, xn


class Counter:
    def __init__(self):
        self._lock = threading.Lock()
        self.n = 0

    def add(self, x):
        with self._lock:
            self.n += x
            return self.n


def _query(conn, x):
    return conn.execute("select ? + 1", (x,)).fetchone()[0]


counter = Counter()
conn = sqlite3.connect(":memory:", check_same_thread=False)

failures = []
for name, func, expected in [
    ("bound method of an object owning a Lock", counter.add, 5),
    ("functools.partial binding a sqlite3 connection", functools.partial(_query, conn), 6),
]:
    assert func(5) == expected  # the plain callable works
    counter.n = 0
    node = xn(func)
    try:

        @dag
        def pipe(x):
            return node(x)

        got = pipe(5)
        print(f"{name}: DAG returned {got!r} (expected {expected!r})")
        if got != expected:
            failures.append(name)
    except BaseException as e:  # noqa: BLE001
        print(f"{name}: describing the DAG failed with {type(e).__name__}: {e}")
        failures.append(name)

if failures:
    print("VIOLATION (C01): the DAG cannot even be described, although the plain function works: "
          "the node's callable is deep-copied (by dataclasses.asdict) every time the node is called")
    sys.exit(1)
print("ok")
