"""00e2679 / b573d07 - incomplete fix: "the callable of a node is never copied" - it still is.

Every place that rebuilds a node (LazyExecNode.__call__, ExecNode._conf_to_values, the sub-DAG
splice: dataclasses.asdict(node); compose: deepcopy(node)) still deep-copies exec_function and only
afterwards overwrites the copy with the original. The copy is thrown away, but it is made:
  * a bound method whose object holds something that cannot be deep-copied (a threading.Lock, a
    socket, a DB connection ...) cannot be used as a node at all: describing the DAG raises TypeError;
  * if the object becomes un-copyable later (lazily created lock / connection), compose() and
    config_from_dict() of the already working DAG raise TypeError;
  * the object's __deepcopy__ runs once per call site (visible side effect, cost of cloning a model).
Plain Python never copies the callable.
"""
import sys
import threading

from tawazi import dag, xn

bad = 0


# ---- A. object that holds a lock from the start: the DAG cannot even be described ----
class Counter:
    def __init__(self):
        self.lock = threading.Lock()
        self.n = 0

    def next(self, x):
        with self.lock:
            self.n += 1
            return self.n + x


c = Counter()
nxt = xn(c.next)
try:

    @dag
    def pipe(x):
        return nxt(x), nxt(x)

    assert pipe(0) == (1, 2), pipe(0)
    print("A ok")
except TypeError as e:
    print("A: describing a DAG that calls xn(counter.next) raises:", type(e).__name__, e)
    bad += 1


# ---- B. object that creates its lock lazily: DAG works, compose / config_from_dict then fail ----
class Lazy:
    copies = 0

    def __init__(self):
        self.lock = None
        self.n = 0

    def __deepcopy__(self, memo):
        Lazy.copies += 1
        if self.lock is not None:
            raise TypeError("cannot pickle '_thread.lock' object")
        new = Lazy()
        new.n = self.n
        return new

    def next(self, x):
        if self.lock is None:
            self.lock = threading.Lock()
        with self.lock:
            self.n += 1
            return self.n + x


@xn
def src(x):
    return x


lz = Lazy()
lnext = xn(lz.next)


@dag
def pipe2(x):
    return lnext(src(x))


if Lazy.copies:
    print(f"B: describing pipe2 deep-copied the user's object {Lazy.copies} time(s) (the copy is discarded)")
    bad += 1
assert pipe2(0) == 1
try:
    comp = pipe2.compose("comp", src, lnext)
    assert comp(0) == 2
    print("B compose ok")
except TypeError as e:
    print("B: compose() raises:", type(e).__name__, e)
    bad += 1
try:
    pipe2.config_from_dict({"nodes": {"Lazy.next": {"priority": 3}}})
    print("B config ok")
except TypeError as e:
    print("B: config_from_dict() raises:", type(e).__name__, e)
    bad += 1

sys.exit(1 if bad else 0)
