"""42dda41 - incomplete fix: a nested DAG that returns a constant ignores twz_active.

Since 42dda41 a DAG whose return contains a constant can be called inside another DAG. The
constant's ReturnExecNode is re-created with ReturnExecNode(id_, **_kwargs), which swallows the
`active` reference the splice computed for it, and its value is copied into the outer DAG's
results, so the scheduler never looks at it. A deactivated nested DAG therefore still outputs its
constants: sub(x, twz_active=False) gives (None, 5) instead of (None, None) - and the same for a
run-time flag. (C10: "a deactivated nested DAG executes none of its non-setup nodes and all its
outputs are None"; a deactivated call yields None.)
"""
import sys

from tawazi import dag, xn


@xn
def inc(x):
    return x + 1


@xn
def ident(v):
    return v


@dag
def sub_tuple(x):
    return inc(x), 5


@dag
def sub_single(x):
    return 7


@dag
def sub_dict(x):
    return {"r": inc(x), "c": 9}


@dag
def outer(x, flag):
    r0, r1 = sub_tuple(x, twz_active=flag)
    s = sub_single(x, twz_active=flag)
    d = sub_dict(x, twz_active=flag)
    # the outputs of the nested DAGs are returned and also passed on to a node
    return r0, r1, s, d["r"], d["c"], ident(r1)


@dag
def outer_const():
    r0, r1 = sub_tuple(1, twz_active=False)
    return r0, r1


bad = 0
got = outer(1, True)
print("active     :", got)
assert got == (2, 5, 7, 2, 9, 5), got

got = outer(1, False)
want = (None, None, None, None, None, None)
print("deactivated:", got, "expected", want)
if got != want:
    bad += 1

got = outer_const()
print("twz_active=False constant:", got, "expected (None, None)")
if got != (None, None):
    bad += 1

sys.exit(1 if bad else 0)
