"""a59b8b6 - incomplete fix: xn() on an existing ExecNode that is a bound method is not unwrapped.

a59b8b6 unwraps `isinstance(_func, LazyExecNode)` only. An @xn-decorated method accessed through an
instance is types.MethodType(LazyExecNode, instance) (LazyExecNode.__get__), so
xn(model.predict, priority=...) - re-decorating an existing ExecNode to give it other options, the
very use case of the commit - still stores the ExecNode as exec_function: the DAG is built, and at
run time the scheduler "invokes an ExecNode outside of a DAG" -> TawaziUsageError (default config).
Using model.predict directly in a DAG works, and so does xn(Model.predict, ...) on the class attribute.
"""
import sys

from tawazi import dag, xn


class Model:
    def __init__(self, bias):
        self.bias = bias

    @xn
    def predict(self, x):
        return self.bias + x


m = Model(10)


@dag
def direct(x):
    return m.predict(x)


assert direct(1) == 11  # a bound ExecNode method is supported usage

unbound = xn(Model.predict, priority=5)  # the case a59b8b6 repaired
urgent = xn(m.predict, priority=5)  # its bound twin


@dag
def pipe(x):
    return unbound(m, x), urgent(x)


try:
    got = pipe(1)
except BaseException as e:
    cause = e.__cause__ or e
    print("pipe(1) raises:", type(e).__name__, "<-", type(cause).__name__, str(cause)[:120])
    print("exec_function of xn(m.predict, priority=5):", urgent.exec_function)
    sys.exit(1)
print(got)
sys.exit(0 if got == (11, 11) else 1)
