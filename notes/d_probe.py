import os, sys
from tawazi import dag, xn, cfg, DAG
import tawazi

# D6: priorities lost in subgraph
@xn(priority=5)
def a(): return "a"
@xn(priority=1)
def b(): return "b"
@xn
def c(x, y): return x + y
@dag
def p():
    return c(a(), b())
print("full cp", dict(p.graph_ids.compound_priority))
ex = p.executor(target_nodes=["c"])
print("exec cp", dict(ex.graph.compound_priority))
ex = p.executor(exclude_nodes=["c"])
print("exec(exclude) cp", dict(ex.graph.compound_priority))
ex = p.executor(root_nodes=["a"])
print("exec(root) cp", dict(ex.graph.compound_priority), list(ex.graph.nodes))

# D7: debug nodes with flag off in subgraph
cnt = []
@xn(debug=True)
def dbg(x): cnt.append(1); return x
@dag
def q():
    x = a()
    dbg(x)
    return x
print("RUN_DEBUG", cfg.RUN_DEBUG_NODES)
q(); print("plain call dbg count", len(cnt))
ex = q.executor(target_nodes=["a", "dbg"]); ex(); print("target incl dbg", len(cnt), list(ex.graph.nodes))
ex = q.executor(root_nodes=["a"]); ex(); print("root", len(cnt), list(ex.graph.nodes))

# D7b diamond compound priority
@xn(priority=1)
def A(): return 1
@xn(priority=1)
def B(x): return 1
@xn(priority=1)
def C(x): return 1
@xn(priority=1)
def D(x,y): return 1
@dag
def dia():
    a_=A(); return D(B(a_), C(a_))
print("diamond", dict(dia.graph_ids.compound_priority))
