"""a5af0f6 - regression: the None of a node that RAN is treated like the None of a deactivated node.

UsageExecNode.result now returns None for every key path applied to a result that is None.
A node that is active, runs, and returns None (a forgotten return, a lookup that found nothing)
and whose result the describing function unpacks / indexes no longer fails the call: the
dependents are silently fed None and the DAG returns a value, where the plain Python body
raises TypeError. Before a5af0f6 the DAG call raised as well.
"""
import sys

from tawazi import dag, xn

entered = []


@xn(unpack_to=2)
def split(x):
    if x > 0:
        return x, -x
    # x <= 0: falls through and returns None


@xn
def pair(a, b):
    entered.append((a, b))
    return (a, b)


@dag
def pipe(x):
    p, q = split(x)
    return pair(p, q)


@dag
def pipe_idx(opts):
    # indexing a DAG argument: pipe_idx(None) is None["k"] in plain Python
    return pair(opts["k"], opts["k"])


def plain(x):
    p, q = split.exec_function(x)
    return pair.exec_function(p, q)


assert pipe(3) == plain(3) == (3, -3)

try:
    plain(0)
except TypeError as e:
    print("plain python raises:", type(e).__name__, e)
else:
    print("unexpected: plain python did not raise")
    sys.exit(2)

bad = 0
entered.clear()
try:
    r = pipe(0)
except BaseException as e:  # the behaviour before a5af0f6
    print("DAG raises:", type(e).__name__, e)
else:
    print(f"DAG call returned {r!r}; `pair` was entered with {entered} - the failure of `p, q = None` is masked")
    bad += 1

entered.clear()
try:
    r = pipe_idx(None)
except BaseException as e:
    print("DAG raises:", type(e).__name__, e)
else:
    print(f"pipe_idx(None) returned {r!r} (plain Python: TypeError 'NoneType' object is not subscriptable)")
    bad += 1

sys.exit(1 if bad else 0)
