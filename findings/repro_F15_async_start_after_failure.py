import asyncio, time
from tawazi import dag, xn, Resource
started=[]
@xn(resource=Resource.async_thread, priority=10)
def a():
    started.append(("a", time.time())); time.sleep(0.05); return 1
@xn(resource=Resource.main_thread, priority=5)
def m():
    raise ValueError("boom")
@dag(max_concurrency=2, is_async=True)
def pipe():
    return a(), m()
async def main():
    t0=time.time()
    try:
        await pipe()
    except BaseException as e:
        t_raise=time.time(); print("raised", type(e).__name__)
    await asyncio.sleep(0.3)
    print("a started after the call raised:", [ (n, round(t-t_raise,3)) for n,t in started])
asyncio.run(main())
