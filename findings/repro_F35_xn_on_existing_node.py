"""4cb33e0 regression: xn(existing_node, <options>) now builds a node that cannot run.

The commit message names this very usage ("xn(existing_node, setup=True) kept the old node's
options") as fixed.  Since update_wrapper no longer overwrites the new node's fields with the old
node's, the new node's exec_function is the old LazyExecNode itself (it used to be replaced by the
old node's plain function through the __dict__ merge).  When the scheduler executes the node it
calls LazyExecNode.__call__ outside of a DAG description, which (default
TAWAZI_EXECNODE_OUTSIDE_DAG_BEHAVIOR=error) raises TawaziUsageError: the DAG call fails.
Before the commit the DAG ran and returned the right value (only the options were ignored).
"""
import sys
import traceback

from tawazi import dag, xn

calls = []


@xn
def load():
    calls.append(1)
    return 7


# re-decorate an existing node with other options (the usage the commit message talks about)
load_hi = xn(load, priority=5)
load_once = xn(load, setup=True)
print("load_hi.priority =", load_hi.priority, "| load_once.setup =", load_once.setup)
print("load_hi.exec_function =", load_hi.exec_function)


@dag
def pipe_hi():
    return load_hi()


@dag
def pipe_once():
    return load_once()


failed = False
for name, pipe in (("pipe_hi", pipe_hi), ("pipe_once", pipe_once)):
    try:
        got = pipe()
    except BaseException as e:  # TawaziBaseException derives from BaseException
        traceback.print_exc(limit=1)
        print(f"FAIL {name}: DAG call raised {type(e).__name__}: {e}")
        failed = True
        continue
    if got != 7:
        print(f"FAIL {name}: returned {got!r}, plain Python returns 7")
        failed = True
    else:
        print(f"ok {name}: returned 7")

sys.exit(1 if failed else 0)
