"""F-14 (known): executor(root_nodes=[s1]).setup() does not forward root_nodes: s2 runs too.

Run: /venv/bin/python findings/repro_F14_setup_roots.py"""
from tawazi import dag, xn

cnt = {"s1": 0, "s2": 0}


@xn(setup=True)
def s1():
    cnt["s1"] += 1
    return 1


@xn(setup=True)
def s2():
    cnt["s2"] += 1
    return 2


@xn
def a(x):
    return x


@xn
def b(x):
    return x


@dag
def p():
    return a(s1()), b(s2())


ex = p.executor(root_nodes=["s1"])
print("selection:", sorted(ex.graph.nodes))
ex.setup()
print("after executor(root_nodes=[s1]).setup():", cnt)
print("DEFECT PRESENT" if cnt["s2"] else "not reproduced")
