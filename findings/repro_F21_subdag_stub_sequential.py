"""C08: with TAWAZI_IS_SEQUENTIAL=True the hidden input stubs of a sub-DAG are sequential.

The documented environment variable TAWAZI_IS_SEQUENTIAL only sets the *default* of `is_sequential`;
here every user node says is_sequential=False explicitly, so nothing the user declared is sequential.
When a DAG is called inside another DAG, `DAG.__call__` creates one internal identity node ("stub") per
passed argument. The other internal nodes (ArgExecNode, ReturnExecNode) are created with
is_sequential=False, but the stub is created without it and silently inherits the environment default.
A sequential stub is a barrier: the scheduler waits for every running node before "running" the
identity function, so an outer node and the sub-DAG's node - independent, both non sequential,
max_concurrency=2 - are executed one after the other.
"""
import os

os.environ["TAWAZI_IS_SEQUENTIAL"] = "True"  # documented configuration, must be set before the import

import sys  # noqa: E402
import threading  # noqa: E402
import time  # noqa: E402

from tawazi import dag, xn  # noqa: E402

T = 0.5
events = {}
lock = threading.Lock()


def make(name: str, **kwargs):
    def f(*_args):
        with lock:
            events[(name, "start")] = time.perf_counter()
        time.sleep(T)
        with lock:
            events[(name, "end")] = time.perf_counter()
        return name

    f.__name__ = f.__qualname__ = name
    return xn(f, is_sequential=False, **kwargs)


long_outer = make("long_outer", priority=100)
inner = make("inner")


@dag(max_concurrency=2)
def sub(x):
    return inner(x)


@dag(max_concurrency=2)
def with_sub_dag(x):
    return long_outer(), sub(x)


@dag(max_concurrency=2)
def flat(x):  # control: the same two nodes without the sub-DAG wrapper
    return long_outer(), inner(x)


def timed(pipeline) -> float:
    events.clear()
    t0 = time.perf_counter()
    assert pipeline(1) == ("long_outer", "inner")
    return time.perf_counter() - t0


if __name__ == "__main__":
    t_flat = timed(flat)
    t_sub = timed(with_sub_dag)
    flags = {id_: node.is_sequential for id_, node in with_sub_dag.exec_nodes.items()}
    print(f"flat DAG           : {t_flat:.2f}s")
    print(f"DAG with a sub-DAG : {t_sub:.2f}s")
    print("is_sequential of the nodes of the DAG with a sub-DAG:", flags)
    assert t_flat < 1.5 * T, "control failed"
    if t_sub > 1.5 * T:
        hidden = [id_ for id_, seq in flags.items() if seq]
        print(
            f"VIOLATION C08: two independent non-sequential nodes with max_concurrency=2 ran one after the other "
            f"({t_sub:.2f}s instead of ~{T}s): the scheduler waited for long_outer to finish because the internal "
            f"stub node(s) {hidden} are sequential although no user node is"
        )
        sys.exit(1)
    print("ok")
