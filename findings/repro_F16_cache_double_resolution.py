from tawazi import dag, xn
import pickle
@xn(tag="train")
def helper(x): return x+1
@xn
def prep(x): return x+2
@xn
def train(p, h): return p*h
@dag
def pipe(x): return train(prep(x), helper(x))
train_node = pipe.get_node_by_id("train")
ex = pipe.executor(cache_deps_of=[train_node], cache_in="/tmp/twzsa_repro_c17.pkl")
print("resolved:", ex.cache_deps_of)
print(ex(1))
print("file holds:", sorted(pickle.load(open("/tmp/twzsa_repro_c17.pkl","rb"))))
