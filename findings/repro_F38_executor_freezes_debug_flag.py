"""C13: "With RUN_DEBUG_NODES off no debug node executes in any execution mode - plain call, executor ..."

A DAGExecution decides in its constructor (__post_init__) whether the debug nodes are part of its graph.
The flag is not looked at again when the executor runs:
 * executor created while the flag was on, run after the flag was switched off -> the debug node executes
   although RUN_DEBUG_NODES is off (a plain call at the same moment does not run it);
 * executor created while the flag was off, run while it is on -> a whole-DAG run skips every debug node.
"""
import sys

from tawazi import cfg, dag, xn

seen = []


@xn
def load(x):
    return x + 1


@xn(debug=True)
def show(v):
    seen.append(("show", v))


@dag
def pipe(x):
    v = load(x)
    show(v)
    return v


problems = []

cfg.RUN_DEBUG_NODES = True
ex_whole = pipe.executor()
ex_sub = pipe.executor(target_nodes=["load"])
cfg.RUN_DEBUG_NODES = False

pipe(1)
assert seen == [], "plain call with the flag off must not run the debug node"

ex_whole(1)
if seen:
    problems.append(f"RUN_DEBUG_NODES is off, executor() ran the debug node: {seen}")
seen.clear()
ex_sub(1)
if seen:
    problems.append(f"RUN_DEBUG_NODES is off, executor(target_nodes=['load']) ran the debug node: {seen}")
seen.clear()

ex_late = pipe.executor()
cfg.RUN_DEBUG_NODES = True
pipe(1)
assert seen == [("show", 2)], "plain call with the flag on runs the debug node"
seen.clear()
ex_late(1)
if not seen:
    problems.append("RUN_DEBUG_NODES is on, a whole-DAG run through executor() did not run the debug node")

for p in problems:
    print("DEFECT:", p)
sys.exit(1 if problems else 0)
