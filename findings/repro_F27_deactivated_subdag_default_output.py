"""C10: a deactivated nested DAG still outputs the default value of an omitted parameter.

Property: "a deactivated nested DAG executes none of its non-setup nodes and all its outputs are None".
If the nested DAG returns one of its defaulted parameters and the caller omits that argument, the
deactivated call yields the default value instead of None.  Passing the very same value explicitly
gives None: the two spellings of the same call disagree.
"""
import sys

from tawazi import dag, xn


@xn
def mul(x, y):
    return x * y


@dag
def scaled(x, scale=10):
    # returns the result and the scale that was applied
    return mul(x, scale), scale


@dag
def outer_default(x, flag):
    y, s = scaled(x, twz_active=flag)  # `scale` omitted -> default
    return y, s


@dag
def outer_explicit(x, flag):
    y, s = scaled(x, 10, twz_active=flag)  # same value given explicitly
    return y, s


failures = []
for label, fn, args, expected in [
    ("outer_default(2, True)  ", outer_default, (2, True), (20, 10)),
    ("outer_explicit(2, True) ", outer_explicit, (2, True), (20, 10)),
    ("outer_explicit(2, False)", outer_explicit, (2, False), (None, None)),
    ("outer_default(2, False) ", outer_default, (2, False), (None, None)),
]:
    got = fn(*args)
    print(f"{label} -> {got!r} | expected {expected!r}")
    if got != expected:
        failures.append(f"{label.strip()}: got {got!r}, expected {expected!r}")

if failures:
    print("\nDEFECT (C10): an output of a deactivated nested DAG is not None:")
    for f in failures:
        print("  -", f)
    sys.exit(1)
print("no defect observed")
