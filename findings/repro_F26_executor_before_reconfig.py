"""C07: an executor created before config_from_dict schedules with the OLD compound priorities.

`dag.executor()` captures a sub-graph whose compound-priority table is the one of the DAG at that
moment. `config_from_dict` replaces the ExecNodes of the DAG and rebuilds `dag.graph_ids`, but the graph
held by the already existing executor keeps pointing at the old table. When that executor is called it
takes the *new* ExecNodes from the DAG (new priority / is_sequential attributes, new max_concurrency)
and orders them with the *stale* compound priorities: the configuration is half applied and the
execution order with max_concurrency=1 and no ties is not the documented one.
"""
import sys

from tawazi import dag, xn

order = []


@xn(priority=1)
def a() -> None:
    order.append("a")


@xn(priority=2)
def b() -> None:
    order.append("b")


@xn(priority=3)
def c() -> None:
    order.append("c")


@dag
def pipeline() -> None:
    a()
    b()
    c()


if __name__ == "__main__":
    early_executor = pipeline.executor()  # created first, called later

    # reconfigure: a becomes the most urgent node (no ties, max_concurrency stays 1)
    pipeline.config_from_dict({"nodes": {"a": {"priority": 10}}})
    expected = ["a", "c", "b"]  # priorities 10 > 3 > 2

    order.clear()
    pipeline()
    by_call = list(order)

    order.clear()
    pipeline.executor()()
    by_new_executor = list(order)

    order.clear()
    early_executor()
    by_early_executor = list(order)

    print("expected order after config_from_dict :", expected)
    print("dag()                                  :", by_call)
    print("dag.executor()() created after config  :", by_new_executor)
    print("executor created before config         :", by_early_executor)
    print("priority of node a as seen by the early executor:", early_executor.xn_dict["a"].priority)
    print("compound priorities used by the early executor   :", dict(early_executor.graph.compound_priority))
    print("compound priorities of the DAG                   :", dict(pipeline.graph_ids.compound_priority))

    assert by_call == expected and by_new_executor == expected
    if by_early_executor != expected:
        print(
            "VIOLATION C07: the executor ran node a (priority 10 according to the ExecNode it executed) "
            "LAST: it scheduled with the compound priorities computed before the reconfiguration"
        )
        sys.exit(1)
    print("ok")
