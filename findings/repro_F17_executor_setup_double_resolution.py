"""C11 - executor(...).setup() runs the WRONG setup nodes when a tag equals the id of another node.

The executor resolves its target_nodes / exclude_nodes aliases to node ids when it is created.
DAGExecution.setup() hands those already-resolved ids to DAG.setup(), which resolves them a
second time as if they were user aliases - and in alias resolution a tag wins over an id.
So a node selected by reference (unambiguous) is silently replaced by whatever node carries a
tag spelled like its id.
"""
import sys

from tawazi import dag, xn

ran = []


@xn(setup=True)
def load_a():
    ran.append("load_a")
    return "A"


# a tag that is spelled like the id of another node of the DAG ("use_a")
@xn(setup=True, tag="use_a")
def load_b():
    ran.append("load_b")
    return "B"


@xn
def use_a(a):
    return a.lower()


@xn
def use_b(b):
    return b.lower()


@dag
def pipe():
    return use_a(load_a()), use_b(load_b())


# select the node *by reference*: this is unambiguous and the executor gets it right
target = pipe.get_node_by_id("use_a")
ex = pipe.executor(target_nodes=[target])
assert sorted(ex.graph.nodes) == ["load_a", "use_a"], sorted(ex.graph.nodes)

ex.setup()  # documented: "Same thing as DAG.setup but target_nodes and exclude_nodes come from the DAGExecution"
print("setup nodes executed by ex.setup():", ran)
after_setup = list(ran)
result = ex()
print("result:", result, "| setup nodes executed in total:", ran)

problems = []
if "load_b" in after_setup:
    problems.append("ex.setup() executed load_b, which the selection {load_a, use_a} does not need")
if "load_a" not in after_setup:
    problems.append("ex.setup() did not execute load_a, the only setup node the selection needs")
if problems:
    print("DEFECT:")
    for p_ in problems:
        print(" -", p_)
    sys.exit(1)
print("ok")
