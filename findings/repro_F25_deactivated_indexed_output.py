"""C10: a deactivated nested DAG whose return value is an unpacked / indexed result crashes the outer DAG.

Property: "a deactivated nested DAG executes none of its non-setup nodes and all its outputs are None".
When the nested DAG returns an element of an `unpack_to` node (or `result[key]`), the outer DAG call
raises AttributeError: 'NoneType' object has no attribute '__getitem__' instead of yielding None.
"""
import sys

from tawazi import dag, xn

executed = []


@xn(unpack_to=2)
def split(x):
    executed.append("split")
    return x // 2, x % 2


@xn
def describe(x):
    executed.append("describe")
    return {"value": x, "double": 2 * x}


@xn
def is_none(v):
    return v is None


# --- nested DAG returning unpacked elements -------------------------------------------------
@dag
def divmod2(x):
    q, r = split(x)
    return q, r


@dag
def outer_unpack(x, flag):
    q, r = divmod2(x, twz_active=flag)
    # dependents of the deactivated nested DAG must still run and receive None
    return q, r, is_none(q)


# --- nested DAG returning an indexed result (single return value) ---------------------------
@dag
def doubled(x):
    d = describe(x)
    return d["double"]


@dag
def outer_index(x, flag):
    return doubled(x, twz_active=flag)


failures = []


def check(label, fn, expected):
    executed.clear()
    try:
        got = fn()
    except BaseException as e:  # tawazi errors derive from BaseException
        cause = e
        while cause.__cause__ is not None:
            cause = cause.__cause__
        print(f"{label}: raised {type(cause).__name__}: {cause} | expected {expected!r}")
        failures.append(f"{label}: raised {type(cause).__name__}: {cause} instead of returning {expected!r}")
        return
    print(f"{label}: -> {got!r} | expected {expected!r} | executed {executed}")
    if got != expected:
        failures.append(f"{label}: got {got!r}, expected {expected!r}")


check("outer_unpack(7, True) ", lambda: outer_unpack(7, True), (3, 1, False))
check("outer_unpack(7, False)", lambda: outer_unpack(7, False), (None, None, True))
check("outer_index(7, True)  ", lambda: outer_index(7, True), 14)
check("outer_index(7, False) ", lambda: outer_index(7, False), None)

if failures:
    print("\nDEFECT (C10): the outputs of a deactivated nested DAG are not None:")
    for f in failures:
        print("  -", f)
    sys.exit(1)
print("no defect observed")
