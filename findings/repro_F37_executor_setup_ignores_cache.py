"""C18: DAGExecution.setup() of an executor created with from_cache re-executes the setup
nodes whose results are in the cache file (the cache is only consulted by __call__).

Run: PYTHONPATH=/tmp/hunt3/wt_D /venv/bin/python demo_1.py
"""
import os
import pickle
import sys
import tempfile
import warnings

from tawazi import dag, xn

warnings.simplefilter("ignore")
LOG = []


def build():
    """Build the pipeline from scratch (stands for 'the same DAG in a restarted process')."""

    @xn(setup=True)
    def load_model():
        LOG.append("load_model")  # the heavy part that caching is supposed to spare
        return {"w": 3}

    @xn
    def prep(x):
        LOG.append("prep")
        return x + 1

    @xn
    def predict(model, v):
        LOG.append("predict")
        return model["w"] * v

    @dag
    def pipe(x):
        return predict(load_model(), prep(x))

    return pipe


path = os.path.join(tempfile.mkdtemp(), "run.pkl")

# 1. caching run
first = build()
value = first.executor(cache_in=path)(2)
assert value == 9 and sorted(LOG) == ["load_model", "predict", "prep"], (value, LOG)
with open(path, "rb") as f:
    cached_ids = set(pickle.load(f))
setup_id = next(i for i in cached_ids if i.endswith("load_model"))
print("cache file holds:", sorted(cached_ids))

# 2. control: a restart that only calls the executor executes nothing
LOG.clear()
restart = build()
assert restart.executor(from_cache=path)(2) == 9
assert LOG == [], LOG

# 3. restart that first prepares its executor with the documented DAGExecution.setup()
LOG.clear()
restart = build()
ex = restart.executor(from_cache=path)
ex.setup()
after_setup = list(LOG)
value2 = ex(2)
print("executed by ex.setup():", after_setup)
print("executed by ex(2):     ", LOG[len(after_setup):], "->", value2)

if "load_model" in LOG:
    print(
        f"FAIL: the execution started with from_cache={os.path.basename(path)} executed "
        f"{setup_id!r} although its result is in the cache file "
        "(and then threw the fresh result away: the call used the cached one)."
    )
    sys.exit(1)
print("OK")
