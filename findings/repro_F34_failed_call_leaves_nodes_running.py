"""C15: a FAILED call leaks running nodes into the next call of the same DAG.

When a node raises, DAG.__call__ re-raises immediately and abandons its thread pool
(executor.__exit__ is only reached on the success path).  The nodes of the failed call
that were already started keep running in the background.  The next call on the same
DAG instance therefore executes together with nodes of the earlier, failed call:

* an `is_sequential=True` node ("all other ExecNodes currently running will stop before
  this one starts") starts while another node of the same DAG instance is still running;
* more than `max_concurrency` nodes of the DAG instance run at the same time.

A freshly built DAG called with the same arguments shows neither.  Single threaded
program, no executors, no setup nodes.
"""
import sys
import threading
import time

from tawazi import dag, xn

lock = threading.Lock()
active = set()  # names of node functions that are currently executing
release_straggler = threading.Event()
report = {}


def enter(name):
    with lock:
        active.add(name)
        report["peak"] = max(report.get("peak", 0), len(active))


def leave(name):
    with lock:
        active.discard(name)


def build():
    @xn(priority=10)
    def load(x):
        # a long running node; for x < 0 it stays busy until the test releases it
        name = f"load({x})"
        enter(name)
        try:
            if x < 0:
                release_straggler.wait(10)
            else:
                time.sleep(0.2)
            return x
        finally:
            leave(name)

    @xn(priority=5)
    def validate(x):
        if x < 0:
            raise ValueError("negative input")
        return x

    @xn(is_sequential=True, priority=1)
    def exclusive(v):
        # must never run together with any other node
        with lock:
            report["others_running_with_exclusive"] = sorted(active)
        return v

    @xn
    def work(v, i):
        name = f"work{i}({v})"
        enter(name)
        try:
            time.sleep(0.2)
            return v + i
        finally:
            leave(name)

    @dag(max_concurrency=2)
    def pipe(x):
        a = load(x)
        v = validate(x)
        e = exclusive(v)
        return a, work(e, 1), work(e, 2)

    return pipe


def observe(pipe, arg):
    report.clear()
    res = pipe(arg)
    return res, report.get("others_running_with_exclusive"), report.get("peak")


problems = []

# control: a freshly built DAG
fresh = build()
res, others, peak = observe(fresh, 1)
print(f"fresh DAG      : pipe(1) = {res}, running together with `exclusive`: {others}, peak concurrency: {peak}")
assert res == (1, 2, 3) and others == [] and peak <= 2, "control run is wrong"

# same DAG description, but an earlier call failed
used = build()
t0 = time.time()
try:
    used(-1)
    problems.append("pipe(-1) did not fail")
except BaseException as e:  # TawaziBaseException derives from BaseException
    print(f"failing call   : pipe(-1) raised {type(e).__name__} after {time.time() - t0:.2f}s")
with lock:
    still = sorted(active)
print(f"after the failed call returned, still executing: {still}")

res, others, peak = observe(used, 1)
print(f"after a failure: pipe(1) = {res}, running together with `exclusive`: {others}, peak concurrency: {peak}")
release_straggler.set()

if still:
    problems.append(f"nodes of the failed call were still running after the call returned: {still}")
if others:
    problems.append(
        f"is_sequential node `exclusive` of the 2nd call ran together with {others} (a node of the earlier FAILED call)"
    )
if peak is not None and peak > 2:
    problems.append(f"{peak} nodes of the DAG instance ran at the same time although max_concurrency=2")

if problems:
    print("\nDEFECT (C15: the 2nd call depends on an earlier call that failed):")
    for p in problems:
        print("  -", p)
    sys.exit(1)
print("no defect observed")
