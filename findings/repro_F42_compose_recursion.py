"""C19: compose() fails with RecursionError on a deep (but perfectly legal) DAG.

A pipeline that is a chain of 1500 nodes is built, called and run as a sub-graph without any problem,
but composing a sub-DAG out of it raises RecursionError: BaseDAG.compose collects the dependencies of the
outputs with the recursive helper _add_missing_deps (one Python frame per node on a dependency path).
"""
import sys

from tawazi import dag, xn

N = 1500


@xn
def inc(v):
    return v + 1


@dag
def chain(x):
    v = x
    for _ in range(N):
        v = inc(v)
    return v


last = f"inc<<{N - 1}>>"
assert chain(0) == N, "the original DAG works"
assert chain.executor(target_nodes=[last])(5) == N + 5, "running it as a sub-graph works"

try:
    # "what would the pipeline return if x were 10": inputs = the DAG's argument, outputs = the last node
    composed = chain.compose("composed", inputs="chain>!>x", outputs=last)
    got = composed(10)
except RecursionError as e:
    print(f"VIOLATION (C19): compose raised RecursionError on a {N}-node chain: {e}")
    sys.exit(1)

if got != N + 10:
    print(f"VIOLATION (C19): composed DAG returned {got}, expected {N + 10}")
    sys.exit(1)
print("ok")
