"""C12: a node *reference* used as alias is resolved through its function's __qualname__,
so it can select a node that was made from a different function (wrong node executes, silently).

Two distinct @xn objects made by the same factory (or two lambdas, two functools.partial of
one function, ...) share a __qualname__.  Inside the DAG they get distinct ids
(`make.<locals>.scale` and `make.<locals>.scale<<1>>`), but `alias_to_ids` turns the reference
`triple` into `triple.id` == 'make.<locals>.scale', which is the id of the node built from
`double`.
"""
import sys

from tawazi import dag, xn

ran = []


def make(k):
    @xn
    def scale(v):
        ran.append(k)
        return v * k

    return scale


double, triple = make(2), make(3)
assert double is not triple


@dag
def pipe(x):
    return double(x), triple(x)


assert pipe(5) == (10, 15)
failures = []

ran.clear()
res = pipe.executor(target_nodes=[triple])(5)
print(f"target_nodes=[triple]  -> result {res}, functions that ran: x{ran}")
if res != (None, 15) or ran != [3]:
    failures.append(
        f"target_nodes=[triple] ran the multiplier(s) {ran} and returned {res}; "
        f"expected only `triple` to run and (None, 15)"
    )

ran.clear()
res = pipe.executor(exclude_nodes=[triple])(5)
print(f"exclude_nodes=[triple] -> result {res}, functions that ran: x{ran}")
if res != (10, None) or ran != [2]:
    failures.append(
        f"exclude_nodes=[triple] ran the multiplier(s) {ran} and returned {res}; "
        f"expected only `double` to run and (10, None)"
    )

if failures:
    print("\nDEFECT:")
    for f in failures:
        print("  -", f)
    sys.exit(1)
print("ok")
