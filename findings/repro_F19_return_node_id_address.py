"""C18: a cache file written with cache_in cannot be reused by another instance of the same DAG
(in particular by a later run of the same program) when the DAG returns a constant.

A constant in the return value of a DAG (`return value, "v1"`, `return {"status": "ok", "value": v}` ...) is
stored in a ReturnExecNode whose id is built from repr(function): "<function pipeline at 0x7f...><!<1st argument".
This id contains the memory address of the describing function, so it differs between two constructions of the
same DAG.  cache_in pickles *every* entry of the results, including this one; from_cache injects every entry of
the file into the results, and DAG.run_subgraph then looks every result id up in exec_nodes -> KeyError.

expected: the restarted execution returns the same value and executes nothing that is in the file.
observed: KeyError: '<function ...pipeline at 0x...><!<1st argument'
"""
import os
import subprocess
import sys
import tempfile

from tawazi import dag, xn


@xn
def expensive(x):
    print("   expensive() is running")
    return x * 2


def build():
    """The program's DAG.  Every interpreter run (or every call of this factory) constructs it anew."""

    @dag
    def pipeline(x):
        return expensive(x), "v1"  # a constant in the returned tuple

    return pipeline


if len(sys.argv) == 3 and sys.argv[1] == "--write":
    # first run of the program: execute and cache
    print("  [child] caching run returned", build().executor(cache_in=sys.argv[2])(21))
    sys.exit(0)

tmp = tempfile.mkdtemp()
problems = []

# 1. the realistic scenario: one interpreter writes the cache, a later interpreter restarts from it
path = os.path.join(tmp, "run1.pkl")
env = dict(os.environ, PYTHONHASHSEED="1")
subprocess.run([sys.executable, os.path.abspath(__file__), "--write", path], check=True, env=env)
print("[parent] restart from the cache written by the previous run of this program")
try:
    print("  restart returned", build().executor(from_cache=path)(21), "- expected (42, 'v1')")
except KeyError as e:
    problems.append(f"restart in a new interpreter failed with KeyError: {e}")
    print("  KeyError:", e)

# 2. deterministic variant inside one interpreter: two constructions of the same DAG
path = os.path.join(tmp, "run2.pkl")
first, second = build(), build()
print("[in-process] caching run returned", first.executor(cache_in=path)(21))
print("[in-process] restart with the DAG instance that wrote the file:", first.executor(from_cache=path)(21))
try:
    print("[in-process] restart with a second construction of the DAG:", second.executor(from_cache=path)(21))
except KeyError as e:
    problems.append(f"restart with another instance of the same DAG failed with KeyError: {e}")
    print("  KeyError:", e)

if problems:
    print("DEFECT:")
    for p in problems:
        print("  -", p)
    sys.exit(1)
print("no defect")
