"""F-18 (C11): DAG.setup(exclude_nodes=...) / DAG.setup(root_nodes=...) without target_nodes raised ValueError.

_pre_setup used *every* setup node of the DAG as the target list when none was given; as soon as the exclusion
or the root selection removed one of them, make_subgraph refused the list ("The provided nodes are not in the graph").
Exit 1 when the defect is present, 0 when setup() runs exactly the setup nodes the selection leaves.
"""
import sys

from tawazi import dag, xn

ran = []


@xn(setup=True)
def load_small():
    ran.append("load_small")
    return "small"


@xn(setup=True)
def load_huge():
    ran.append("load_huge")
    return "huge"


@xn
def use_small(m):
    return m.upper()


@xn
def use_huge(m):
    return m.upper()


def build():
    @dag
    def pipe():
        return use_small(load_small()), use_huge(load_huge())

    return pipe


problems = []
for how, kwargs in (("dag", {"exclude_nodes": ["load_huge"]}), ("dag", {"root_nodes": ["load_small"]}), ("executor", {"exclude_nodes": ["load_huge"]})):
    ran.clear()
    pipe = build()
    try:
        if how == "dag":
            pipe.setup(**kwargs)
        else:
            pipe.executor(**kwargs).setup()
    except ValueError as e:
        problems.append(f"{how}.setup({kwargs}) raised ValueError: {str(e)[:80]}")
        continue
    if ran != ["load_small"]:
        problems.append(f"{how}.setup({kwargs}) executed {ran}, expected ['load_small']")
if problems:
    print("reproduced:")
    for p in problems:
        print(" -", p)
    sys.exit(1)
print("not reproduced")
