"""00e2679 incomplete: compose() still copies the callable of every node it keeps.

"The callable of a node is never copied" was fixed for LazyExecNode.__call__, _conf_to_values and
the sub-DAG splice, but BaseDAG.compose does deepcopy(self.exec_nodes[id]) for every node of the
composed DAG.  A bound method is re-bound to a clone of its object (a functools.partial to clones
of its arguments): the composed DAG never enters the user's callable, it works on a private
snapshot of the object taken when compose() was called.
"""
import sys

from tawazi import dag, xn


class Counter:
    def __init__(self):
        self.n = 0

    def next(self, _x):
        self.n += 1
        return self.n


counter = Counter()
nxt = xn(counter.next)


@xn
def src():
    return 10


@xn
def inc(x):
    return x + 1


@dag
def pipe():
    return nxt(inc(src()))


r0 = pipe()
print("pipe() ->", r0, "| counter.n =", counter.n)  # 1, 1 on HEAD (fixed part of the commit)

composed = pipe.compose("composed", [inc], [nxt])
r1 = composed(5)
print("composed(5) ->", r1, "| counter.n =", counter.n)
r2 = pipe()
print("pipe() ->", r2, "| counter.n =", counter.n)

# plain python: counter.next is entered three times on the same object: results 1, 2, 3 and n == 3
expected = (1, (2,), 3, 3)
got = (r0, r1, r2, counter.n)
if got != expected:
    print(f"FAIL: got {got}, expected {expected}: the composed DAG ran a clone of the user's object")
    sys.exit(1)
print("ok")
