"""C19: compose() with a node that is both an input and an output silently returns None for it.

A composed DAG must return, for every requested output node, what the original pipeline would
compute "if the input nodes had produced the supplied values".  When an output node is itself one
of the inputs, the only consistent answers are the supplied value (or a ValueError at compose time).
The library returns None, silently, and keeps the wrong value on every call.
"""
import sys
import warnings

from tawazi import dag, xn

warnings.simplefilter("ignore")  # "input not used to produce outputs" warnings are irrelevant here


@xn
def load(path):
    return [1, 2, 3]


@xn
def total(values):
    return sum(values)


@dag
def pipe():
    values = load("data.csv")
    return values, total(values)


failures = []

# sanity: the original pipeline
if pipe() != ([1, 2, 3], 6):
    failures.append(f"original pipeline is broken: {pipe()!r}")

# 1. feed `load`, ask for `load` and `total`
composed = pipe.compose("composed", inputs=[load], outputs=[load, total])
got = composed([10, 20])
expected = ([10, 20], 30)
print("compose(inputs=[load], outputs=[load, total])([10, 20]) ->", got, "| expected", expected)
if got != expected:
    failures.append(f"outputs=[load, total]: got {got!r}, expected {expected!r}")

# 2. identity composition: feed `load`, ask for `load` only
try:
    identity = pipe.compose("identity", inputs=load, outputs=load)
    got = identity([10, 20])
    print("compose(inputs=load, outputs=load)([10, 20]) ->", got, "| expected [10, 20] (or a ValueError)")
    if got != [10, 20]:
        failures.append(f"outputs=load: got {got!r}, expected [10, 20]")
except ValueError as e:  # would be an acceptable answer
    print("compose raised ValueError (acceptable):", e)

# 3. same with an argument of the DAG used as input and as output
@dag
def pipe2(a):
    return total(a)


composed2 = pipe2.compose("composed2", inputs=["pipe2>!>a"], outputs=["pipe2>!>a", total])
got = composed2([1, 1])
print('compose(inputs=["pipe2>!>a"], outputs=["pipe2>!>a", total])([1, 1]) ->', got, "| expected ([1, 1], 2)")
if got != ([1, 1], 2):
    failures.append(f"DAG argument as input and output: got {got!r}, expected ([1, 1], 2)")

# 4. the ancestors of such an output are executed although nothing needs them
ran = []


@xn
def first():
    ran.append("first")
    return 1


@xn
def second(x):
    ran.append("second")
    return x + 1


@xn
def third(x):
    ran.append("third")
    return x * 2


@dag
def chain():
    return third(second(first()))


composed3 = chain.compose("composed3", inputs=[second], outputs=[second, third])
got = composed3(10)
print("compose(inputs=[second], outputs=[second, third])(10) ->", got, "| expected (10, 20) | executed", ran, "| expected ['third']")
if got != (10, 20):
    failures.append(f"chain: got {got!r}, expected (10, 20)")
if sorted(ran) != ["third"]:
    failures.append(f"chain: executed {ran}, only ['third'] is needed once `second` is supplied")

if failures:
    print("\nDEFECT (C19): composed DAG does not return the supplied value for an output that is also an input:")
    for f in failures:
        print("  -", f)
    sys.exit(1)
print("no defect observed")
