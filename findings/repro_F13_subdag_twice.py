"""F-13 (known): calling the same DAG twice inside one outer DAG collides on the prefixed ids (KeyError at build time).

Run: /venv/bin/python findings/repro_F13_subdag_twice.py"""
from tawazi import dag, xn


@xn
def a(x):
    return x + 1


@dag
def inner(x):
    return a(x)


try:
    @dag
    def outer(x):
        return inner(x), inner(x)

    print(outer(1), "-> not reproduced")
except BaseException as e:  # noqa: BLE001
    print("DEFECT PRESENT:", type(e).__name__, str(e)[:120])
