"""Keyword arguments whose name contains a '.' reach the node under a truncated name (and collide).

Plain Python:  report(**{"train.loss": 0.5, "val.loss": 0.9}) -> {"train.loss": 0.5, "val.loss": 0.9}
tawazi      :  the node `report` is entered with {"loss": 0.9}: both names are cut at the last '.',
               the two values collide and one of them is lost - silently.
"""
import sys

from tawazi import dag, xn


@xn
def loss(kind):
    return {"train": 0.5, "val": 0.9}[kind]


received = {}


@xn
def report(**metrics):
    # a typical "log these metrics" node: arbitrary metric names are passed as keywords
    received.update(metrics)
    return metrics


@dag
def pipe():
    return report(**{"train.loss": loss("train"), "val.loss": loss("val")})


expected = {"train.loss": 0.5, "val.loss": 0.9}
got = pipe()
print("expected keyword arguments :", expected)
print("node was entered with      :", received)
print("DAG returned               :", got)

# same thing with a constant and a single dotted name
received.clear()


@dag
def pipe2():
    return report(**{"model.name": "resnet"})


got2 = pipe2()
print("pipe2: expected {'model.name': 'resnet'} got", got2)

if got != expected or got2 != {"model.name": "resnet"}:
    print("DEFECT: the node did not receive the keyword arguments that were written in the DAG")
    sys.exit(1)
print("ok")
