"""F-10 / F-12 (known): with a thread node and an async-thread node in flight the scheduler waits for one of EACH kind.

Run: /venv/bin/python findings/repro_F10_mixwait.py   (documentation only - no check ever runs this)
Expected on today's tree: 'after_fast' starts ~0.6 s after the call although its only dependency finished after 0.05 s."""
import time

from tawazi import Resource, dag, xn

ev = []


@xn(resource=Resource.async_thread)
def slow_async():
    time.sleep(0.6)
    return "sa"


@xn(resource=Resource.thread)
def fast_thread():
    time.sleep(0.05)
    return "ft"


@xn(resource=Resource.thread)
def after_fast(x):
    ev.append(round(time.time() - t0, 2))
    return x


@dag(max_concurrency=2)
def mix():
    a = slow_async()
    b = fast_thread()
    return a, after_fast(b)


t0 = time.time()
print(mix(), "after_fast started at", ev, "s; total", round(time.time() - t0, 2), "s")
print("DEFECT PRESENT" if ev[0] > 0.4 else "not reproduced")
