"""C01: a bound method (or a functools.partial binding a mutable object) used as node function is
deep-copied at every call site, so the nodes of one DAG work on DIFFERENT private copies of the object.

Plain Python:  a = bump(); b = bump(a); c = bump(b)  ->  (1, 2, 3) and counter.n == 3
tawazi DAG:                                          ->  (1, 1, 1) and counter.n == 0
"""
import sys
from functools import partial

from tawazi import dag, xn


class Counter:
    def __init__(self) -> None:
        self.n = 0

    def bump(self, *_after):  # *_after only orders the calls
        self.n += 1
        return self.n


# ---------------------------------------------------------------- plain python reference
ref_counter = Counter()
bump = ref_counter.bump


def describe():
    a = bump()
    b = bump(a)
    c = bump(b)
    return a, b, c


expected = describe()  # (1, 2, 3)

# ---------------------------------------------------------------- the same body as a DAG
counter = Counter()
bump = xn(counter.bump)  # every decorated function replaced by ... the very same callable

pipe = dag(describe)
got = pipe()

failures = []
if got != expected:
    failures.append(f"bound method: DAG returned {got!r}, plain python returns {expected!r}")
if counter.n != 3:
    failures.append(
        f"bound method: the object whose method was decorated saw {counter.n} calls instead of 3 "
        "(the nodes ran on private deep copies)"
    )


# ---------------------------------------------------------------- same defect with functools.partial (used by upstream tests)
def record(log, value):
    log.append(value)
    return list(log)


ref_log = []
rec = partial(record, ref_log)


def describe2():
    first = rec(1)
    second = rec(2)
    return first, second


expected2 = describe2()  # ([1], [1, 2])

log = []
rec = xn(partial(record, log))
pipe2 = dag(describe2)
got2 = pipe2()
# whatever the order of the two independent nodes, the second one to run must see the first value
if sorted(map(len, got2)) != [1, 2] or len(log) != 2:
    failures.append(
        f"partial: DAG returned {got2!r} and the bound list is {log!r}; plain python returns {expected2!r} "
        f"and leaves the list as {ref_log!r}"
    )

if failures:
    print("DEFECT (C01):")
    for f in failures:
        print(" -", f)
    sys.exit(1)
print("ok")
