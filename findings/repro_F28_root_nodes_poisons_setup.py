"""C15: a subgraph run selected with root_nodes poisons the DAG instance for all later calls.

`executor(root_nodes=[...])` (and `DAG.setup(target_nodes=..., root_nodes=[...])`) run a setup node although one of its
dependencies is not part of the selection: the missing dependency is silently read as None.
The result of that setup node - computed from a partial graph - is then stored in DAG.results as THE
setup result, so every later, complete call `pipe(x)` returns a value computed with the None
dependency; the excluded setup node is even executed later on, but nothing recomputes its consumer.
A DAG built from the same function without that history returns the right value.
"""
import sys

from tawazi import dag, xn


@xn(setup=True)
def load_vocab():
    return {"a": 1}


@xn(setup=True)
def load_weights():
    return [10, 20]


@xn(setup=True)
def build_model(vocab, weights):
    return ("model", vocab, weights)


@xn
def predict(model, x):
    return (model, x)


def describe(x=0):
    return predict(build_model(load_vocab(), load_weights()), x)


fresh = dag(describe)
expected = fresh(1)  # (('model', {'a': 1}, [10, 20]), 1)

failures = []

# history 1: one executor restricted to the paths that start at load_vocab, then a plain call
used = dag(describe)
ex = used.executor(root_nodes=["load_vocab"])
ex(1)
got = used(1)
print("fresh DAG              :", expected)
print("after root_nodes run   :", got)
print("stored setup results   :", {k: v for k, v in used.results.items() if k in ("load_weights", "build_model")})
if got != expected:
    failures.append("call after executor(root_nodes=['load_vocab']) run differs from a freshly built DAG")

# history 2: the same through DAG.setup(root_nodes=...)
used2 = dag(describe)
used2.setup(target_nodes=["predict"], root_nodes=["load_vocab"])
got2 = used2(1)
print("after setup(root_nodes):", got2)
if got2 != expected:
    failures.append("call after DAG.setup(target_nodes=['predict'], root_nodes=['load_vocab']) differs from a freshly built DAG")

if failures:
    print("DEFECT (C15): the outcome of a complete call depends on an earlier subgraph run:")
    for f in failures:
        print("  -", f)
    print("  build_model was executed with weights=None (load_weights was outside the selection) and that")
    print("  partial result was recorded as the DAG's setup result for all future calls.")
    sys.exit(1)
print("no defect observed")
