"""C10: a deactivated nested DAG still outputs the result of its setup nodes.

`sub(x, twz_active=False)` must yield None for ALL its outputs (setup nodes may run, but the outputs of the
deactivated call are None, so that dependents receive None). An output of the nested DAG that is the result
(or an indexed / unpacked part of the result) of a setup node keeps its value, and the dependents of the
deactivated call compute with it.
"""
import sys

from tawazi import dag, xn


def _load_model():
    return {"name": "model-v1", "threshold": 3}


def _predict(model, x):
    return x > model["threshold"]


def _report(model, prediction):
    return f"model={model} prediction={prediction}"


load_model = xn(setup=True)(_load_model)
predict = xn(_predict)
report = xn(_report)


@dag
def scoring(x):
    model = load_model()
    return model["name"], predict(model, x)


@dag
def pipe(x, enabled):
    name, prediction = scoring(x, twz_active=enabled)
    return name, prediction, report(name, prediction)


def plain(x, enabled):
    # documented meaning of twz_active on a nested DAG: `v = scoring(x) if enabled else None`
    if enabled:
        model = _load_model()
        name, prediction = model["name"], _predict(model, x)
    else:
        name, prediction = None, None
    return name, prediction, _report(name, prediction)


ok = True
for args in [(5, True), (5, False)]:
    got, expected = pipe(*args), plain(*args)
    print(f"pipe{args}: got {got!r}\n{' ' * 14}expected {expected!r}")
    ok &= got == expected
if not ok:
    print("VIOLATION (C10): the deactivated nested DAG returned a non-None output (the part of its setup "
          "node's result) and its dependent `report` received it instead of None")
    sys.exit(1)
print("ok")
