"""Id-taint abstract interpretation of the nested-DAG splice (the branch of DAG.__call__ taken while describing).

Abstract values (tuples):
  ("id", t)      an identifier string; t in inner | pref | double | outer
  ("kw", t)      a keyword-argument name of an inner node (prefixed like ids, stripped again by execute)
  ("uxn", t)     a UsageExecNode whose id has taint t
  ("xn", t)      an ExecNode whose id has taint t
  ("seq", e)     homogeneous sequence
  ("map", k, v)  mapping
  ("pair", (a, b, ...))
  ("ret", t)     the return references of a DAG (a reference, or a tuple/list/dict of references)
  ("str",) ("key",) ("any",) ("int",) ("bool",) ("values",) ("graph", t) ("outer_nodes",) ("outer_results",)
  None           unknown
"""
from __future__ import annotations

import ast
from dataclasses import dataclass, field
from typing import Dict, List, Optional, Tuple

from .ctx import Ctx, const_str, dotted
from .loader import FuncInfo, iter_own_nodes
from .report import Undecided, norm_src

AV = Optional[tuple]


@dataclass
class Sink:
    kind: str
    node: ast.AST
    value: AV
    ok: Optional[bool]  # None = unknown
    why: str = ""


@dataclass
class Cmp:
    node: ast.AST
    left: AV
    right: AV
    negated: bool


class SpliceInterp:
    def __init__(self, ctx: Ctx):
        self.ctx = ctx
        call = ctx.own_method("DAG", "__call__")
        if call is None:
            raise Undecided("DAG.__call__ not found")
        self.fn = call
        # the splice block: the if-statement whose body pushes the prefix
        self.block = None
        for n in iter_own_nodes(call.node):
            if isinstance(n, ast.If) and any(
                isinstance(x, ast.Call) and isinstance(x.func, ast.Attribute) and x.func.attr == "append"
                and (dotted(x.func.value) or "").endswith("DAG_PREFIX") for s in n.body for x in ast.walk(s)
            ):
                self.block = n
                break
        if self.block is None:
            raise Undecided("splice block (push of the id prefix) not found in DAG.__call__")
        # the prefixer: nested function joining the prefix stack
        self.prefixers = set()
        for g in ctx.P.funcs.values():
            if g.parent is call and any(
                isinstance(x, ast.Attribute) and x.attr == "DAG_PREFIX" for x in ast.walk(g.node)
            ) and len(g.node.args.args) == 1:
                self.prefixers.add(g.name)
        if not self.prefixers:
            # the same function hoisted to module level (it captured nothing): one parameter, reads the prefix stack, called in the block
            called = {dotted(x.func) for x in ast.walk(self.block) if isinstance(x, ast.Call)}
            for g in ctx.P.funcs.values():
                if g.parent is None and g.cls is None and g.module is call.module and len(g.node.args.args) == 1 and g.name in called and any(
                        isinstance(x, ast.Attribute) and x.attr == "DAG_PREFIX" for x in ast.walk(g.node)):
                    self.prefixers.add(g.name)
        if len(self.prefixers) != 1:
            raise Undecided(f"prefixer function: expected one nested function reading the prefix stack, found {sorted(self.prefixers)}")
        self.nested = {g.name: g for g in ctx.P.funcs.values() if g.parent is call and g.name not in self.prefixers}
        self.sinks: List[Sink] = []
        self.cmps: List[Cmp] = []
        self.appends: Dict[str, List[ast.AST]] = {}
        self.bulk_copies: List[dict] = []
        self._loops: List[ast.AST] = []
        self.env: Dict[str, AV] = {}
        self.kwargs_name = call.node.args.kwarg.arg if call.node.args.kwarg else None
        self.args_name = call.node.args.vararg.arg if call.node.args.vararg else None
        if self.args_name:
            self.env[self.args_name] = ("seq", ("uxn", "outer"))
        if self.kwargs_name:
            self.env[self.kwargs_name] = ("map", ("str",), ("any",))
        self.run(self.block.body)

    # ------------------------------------------------------------------ evaluation
    def pref(self, v: AV) -> AV:
        if v is None:
            return None
        if v[0] in ("id", "kw"):
            return (v[0], {"inner": "pref", "pref": "double", "double": "double", "outer": "pref"}.get(v[1], v[1]))
        if v[0] == "str":
            return ("id", "pref")
        return None

    def elem(self, v: AV) -> AV:
        if v is None:
            return None
        if v[0] == "seq":
            return v[1]
        if v[0] == "map":
            return v[1]
        if v[0] == "ret":
            return ("uxn", v[1])
        if v[0] == "graph":
            return ("id", v[1])
        return None

    def ev(self, e: ast.AST, env: Dict[str, AV]) -> AV:
        if isinstance(e, ast.Name):
            if e.id in env:
                return env[e.id]
            return None
        if isinstance(e, ast.Constant):
            if isinstance(e.value, str):
                return ("str",)
            if isinstance(e.value, bool):
                return ("bool",)
            if isinstance(e.value, int):
                return ("int",)
            return ("any",)
        if isinstance(e, ast.JoinedStr):
            return ("str",)
        if isinstance(e, ast.Attribute):
            d = dotted(e)
            if d == "self.input_uxns":
                return ("seq", ("uxn", "inner"))
            if d == "self.return_uxns":
                return ("ret", "inner")
            if d == "self.exec_nodes":
                return ("map", ("id", "inner"), ("xn", "inner"))
            if d == "self.results":
                return ("map", ("id", "inner"), ("any",))
            if d == "self.qualname":
                return ("str",)
            if d and d.endswith(".exec_nodes") and d.split(".")[0] != "self":
                return ("outer_nodes",)
            if d and d.endswith(".results") and d.split(".")[0] != "self":
                return ("outer_results",)
            b = self.ev(e.value, env)
            if b is None:
                return None
            if b[0] in ("uxn", "ret"):
                if e.attr == "id":
                    return ("id", b[1])
                if e.attr == "key":
                    return ("key",)
            if b[0] == "xn":
                if e.attr in ("id", "id_"):
                    return ("id", b[1])
                if e.attr == "args":
                    return ("seq", ("uxn", b[1]))
                if e.attr == "kwargs":
                    return ("map", ("kw", b[1]), ("uxn", b[1]))
                if e.attr == "active":
                    return ("uxn", b[1])
                return ("any",)
            return None
        if isinstance(e, ast.Subscript):
            b = self.ev(e.value, env)
            if b is None:
                return None
            if b[0] == "map":
                return b[2]
            if b[0] == "seq":
                return b if isinstance(e.slice, ast.Slice) else b[1]
            if b[0] == "outer_results" or b[0] == "outer_nodes":
                return ("any",)
            return None
        if isinstance(e, ast.Call):
            return self.call(e, env)
        if isinstance(e, (ast.ListComp, ast.GeneratorExp, ast.SetComp)):
            env2 = self.comp_env(e.generators, env)
            return ("seq", self.ev(e.elt, env2))
        if isinstance(e, ast.DictComp):
            env2 = self.comp_env(e.generators, env)
            return ("map", self.ev(e.key, env2), self.ev(e.value, env2))
        if isinstance(e, ast.Tuple):
            return ("pair", tuple(self.ev(x, env) for x in e.elts))
        if isinstance(e, ast.List):
            vs = [self.ev(x, env) for x in e.elts]
            if not vs:
                return ("seq", ("empty",))
            return ("seq", vs[0] if all(v == vs[0] for v in vs) else None)
        if isinstance(e, ast.Dict):
            return ("map", None, None) if e.keys else ("map", ("empty",), ("empty",))
        if isinstance(e, ast.Compare):
            self.compare(e, env)
            return ("bool",)
        if isinstance(e, ast.BoolOp):
            for v in e.values:
                self.ev(v, env)
            return ("bool",)
        if isinstance(e, ast.UnaryOp):
            self.ev(e.operand, env)
            return ("bool",) if isinstance(e.op, ast.Not) else None
        if isinstance(e, ast.IfExp):
            self.ev(e.test, env)
            a, b = self.ev(e.body, env), self.ev(e.orelse, env)
            return a if a == b else (a if b in (None, ("bool",), ("any",)) else None)
        if isinstance(e, ast.BinOp):
            a, b = self.ev(e.left, env), self.ev(e.right, env)
            if isinstance(e.op, ast.Add) and a and a[0] == "seq":
                return a
            return None
        if isinstance(e, ast.Lambda):
            return ("any",)
        if isinstance(e, ast.Starred):
            return self.ev(e.value, env)
        return None

    def comp_env(self, gens, env) -> Dict[str, AV]:
        env2 = dict(env)
        for g in gens:
            it = self.ev(g.iter, env2)
            self.bind(g.target, self.elem(it), env2)
            for c in g.ifs:
                self.ev(c, env2)
        return env2

    def bind(self, tg: ast.AST, v: AV, env: Dict[str, AV]) -> None:
        if isinstance(tg, ast.Name):
            env[tg.id] = v
        elif isinstance(tg, (ast.Tuple, ast.List)):
            if v is not None and v[0] == "pair" and len(v[1]) == len(tg.elts):
                for t, x in zip(tg.elts, v[1]):
                    self.bind(t, x, env)
            else:
                for t in tg.elts:
                    self.bind(t, None, env)

    def compare(self, e: ast.Compare, env) -> None:
        if len(e.ops) != 1:
            return
        op = e.ops[0]
        l, r = self.ev(e.left, env), self.ev(e.comparators[0], env)
        if isinstance(op, (ast.In, ast.NotIn)):
            self.cmps.append(Cmp(e, l, self.elem(r) if r is not None else None, isinstance(op, ast.NotIn)))
        elif isinstance(op, (ast.Eq, ast.NotEq)):
            self.cmps.append(Cmp(e, l, r, isinstance(op, ast.NotEq)))

    def sink(self, kind: str, node: ast.AST, v: AV, want: str = "pref") -> None:
        """want: taint required of the id carried by v."""
        ok: Optional[bool]
        why = ""
        t = None
        if v is None:
            ok = None
            why = "origin of the id is not tracked"
        else:
            if v[0] in ("id", "kw", "uxn", "xn"):
                t = v[1]
            elif v[0] == "seq" and v[1] is not None and v[1][0] in ("uxn", "id", "empty"):
                t = v[1][1] if v[1][0] != "empty" else want
            elif v[0] == "map":
                ks = [x for x in (v[1], v[2]) if x is not None and x[0] in ("id", "kw", "uxn")]
                ts = {x[1] for x in ks}
                if v[1] is not None and v[1][0] == "empty":
                    ts = {want}
                t = want if ts == {want} else (next(iter(ts - {want})) if ts else None)
            if t is None:
                ok = None
                why = f"abstract value {v} carries no id"
            else:
                ok = t == want or t == "ok"
                why = {"inner": "an id of the inner DAG reaches an outer table without the prefix",
                       "double": "the prefix is applied twice",
                       "outer": "an outer id where a prefixed inner id is expected"}.get(t, "")
        self.sinks.append(Sink(kind, node, v, ok, why))

    def call(self, e: ast.Call, env) -> AV:
        f = e.func
        d = dotted(f) or ""
        last = d.split(".")[-1]
        if isinstance(f, ast.Name) and f.id in self.prefixers and len(e.args) == 1:
            return self.pref(self.ev(e.args[0], env))
        if isinstance(f, ast.Name) and f.id in self.nested and not e.keywords:
            # a nested one-expression helper: evaluated in place, its parameters bound to the abstract arguments
            g = self.nested[f.id]
            body = [st for st in g.node.body if not (isinstance(st, ast.Expr) and isinstance(st.value, ast.Constant))]
            ps = [a.arg for a in g.node.args.args]
            if len(body) == 1 and isinstance(body[0], ast.Return) and body[0].value is not None and len(ps) == len(e.args):
                env2 = dict(env)
                for p_, a_ in zip(ps, e.args):
                    env2[p_] = self.ev(a_, env)
                return self.ev(body[0].value, env2)
        if last == "UsageExecNode":
            a = self.ev(e.args[0], env) if e.args else None
            self.sink("UsageExecNode(id)", e, a)
            return ("uxn", a[1]) if a is not None and a[0] == "id" else None
        if last == "construct_subdag_arg_uxns":
            return ("seq", ("uxn", "outer"))
        if last == "make_axn_id" and e.args:
            a = self.ev(e.args[0], env)
            return a if a is not None and a[0] == "id" else None
        if last in ("ArgExecNode", "ReturnExecNode") and e.args:
            # a constant holder created in place (the body of construct_subdag_arg_uxns written in the splice)
            idv = self.ev(e.args[0], env)
            self.sink("argument holder id", e, idv)
            return ("xn", idv[1]) if idv is not None and idv[0] == "id" else None
        if last == "LazyExecNode":
            idv = next((self.ev(k.value, env) for k in e.keywords if k.arg == "id_"), None)
            self.sink("stub id", e, idv)
            return ("xn", idv[1]) if idv else None
        if last == "make_active" and e.args:
            a = self.ev(e.args[0], env)
            self.sink("make_active(owner id)", e, a)
            return ("uxn", "ok")
        if last == "asdict":
            return ("values",)
        if last in ("zip",):
            return ("seq", ("pair", tuple(self.elem(self.ev(a, env)) for a in e.args)))
        if last == "enumerate" and e.args:
            return ("seq", ("pair", (("int",), self.elem(self.ev(e.args[0], env)))))
        if last in ("StrictDict", "dict") and e.args:
            a = self.ev(e.args[0], env)
            if a is not None and a[0] == "seq" and a[1] is not None and a[1][0] == "pair" and len(a[1][1]) == 2:
                return ("map", a[1][1][0], a[1][1][1])
            if a is not None and a[0] == "map":
                return a
            return None
        if last in ("list", "tuple", "set", "sorted", "iter", "reversed") and e.args:
            a = self.ev(e.args[0], env)
            return ("seq", self.elem(a)) if a is not None else None
        if last == "DiGraphEx" and not e.args:
            return ("graph", "empty")
        if last in ("len", "isinstance", "bool"):
            for a in e.args:
                self.ev(a, env)
            return ("int",) if last == "len" else ("bool",)
        if isinstance(f, ast.Call) and dotted(f.func) == "type" and len(f.args) == 1:
            # type(x)(**values)
            return ("xn", "rebuilt")
        if isinstance(f, ast.Attribute):
            b = self.ev(f.value, env)
            if b is not None:
                if b[0] == "map":
                    if f.attr == "values":
                        return ("seq", b[2])
                    if f.attr == "keys":
                        return ("seq", b[1])
                    if f.attr == "items":
                        return ("seq", ("pair", (b[1], b[2])))
                    if f.attr == "get":
                        return b[2]
                if b[0] == "ret":
                    if f.attr == "items":
                        return ("seq", ("pair", (("str",), ("uxn", b[1]))))
                    if f.attr == "values":
                        return ("seq", ("uxn", b[1]))
                if b[0] == "graph":
                    if f.attr == "add_exec_node" and e.args:
                        x = self.ev(e.args[0], env)
                        if isinstance(f.value, ast.Name) and x is not None and x[0] == "xn":
                            env[f.value.id] = ("graph", x[1])
                        return ("any",)
                    if f.attr == "remove_any_root_node":
                        return ("id", b[1]) if b[1] != "empty" else None
                if b[0] == "seq" and f.attr == "append" and e.args and isinstance(f.value, ast.Name):
                    x = self.ev(e.args[0], env)
                    self.appends.setdefault(f.value.id, []).append(e)
                    cur = b[1]
                    env[f.value.id] = ("seq", x if cur is None or cur[0] == "empty" or cur == x else None)
                    return ("any",)
                if b[0] == "outer_results" and f.attr in ("force_set", "__setitem__") and len(e.args) == 2:
                    # the copy written as an explicit loop: one entry per iteration of the enclosing loop
                    k = self.ev(e.args[0], env)
                    self.sink("outer results keys", e, k)
                    self.bulk_copies.append({"node": self._loops[-1] if self._loops else e, "value": ("map", k, ("any",))})
                    return ("any",)
                if b[0] == "outer_results" and f.attr == "update" and e.args:
                    m = self.ev(e.args[0], env)
                    self.sink("outer results keys", e, ("id", m[1][1]) if m is not None and m[0] == "map" and m[1] is not None
                              and m[1][0] == "id" else None)
                    self.bulk_copies.append({"node": e, "value": m})
                    return ("any",)
                if b[0] == "xn" and True:
                    # calling a stub node: stub(axn, **kwargs) -> reference to it
                    return None
            if isinstance(f.value, ast.Name) and env.get(f.value.id, (None,))[0] == "xn":
                return ("uxn", env[f.value.id][1])
        if isinstance(f, ast.Name) and env.get(f.id, (None,))[0] == "xn":
            return ("uxn", env[f.id][1])
        for a in e.args:
            self.ev(a, env)
        return None

    # ------------------------------------------------------------------ statements
    def run(self, stmts: List[ast.stmt]) -> None:
        env = self.env
        for s in stmts:
            if isinstance(s, (ast.FunctionDef, ast.AsyncFunctionDef)):
                continue
            if isinstance(s, ast.Assign) and len(s.targets) == 1 or isinstance(s, ast.AnnAssign) and s.value is not None:
                tg = s.targets[0] if isinstance(s, ast.Assign) else s.target
                v = self.ev(s.value, env)
                if isinstance(tg, ast.Name):
                    if isinstance(s, ast.AnnAssign) and isinstance(s.value, ast.List) and not s.value.elts:
                        v = ("seq", ("empty",))
                    env[tg.id] = v
                    # a collection of prefixed ids built in one go (instead of appended one by one) is a stub-id list too
                    if v is not None and v[0] == "seq" and v[1] is not None and v[1] == ("id", "pref") \
                            and isinstance(s.value, (ast.SetComp, ast.ListComp, ast.Call)):
                        self.appends.setdefault(tg.id, []).append(s.value)
                elif isinstance(tg, (ast.Tuple, ast.List)):
                    self.bind(tg, v, env)
                elif isinstance(tg, ast.Subscript):
                    base = self.ev(tg.value, env)
                    if base is not None and base[0] == "values":
                        k = const_str(tg.slice)
                        if k == "id_":
                            self.sink("rebuilt node id", s, v)
                        elif k == "args":
                            self.sink("rebuilt node args", s, v)
                        elif k == "kwargs":
                            # the keys of a node's kwargs are parameter names, not ids (REF-KWNAME): only the references are judged
                            if v is not None and v[0] == "map" and not (v[1] is not None and v[1][0] == "empty"):
                                v = ("map", None, v[2])
                            self.sink("rebuilt node kwargs", s, v)
                        elif k == "active":
                            self.sink("rebuilt node active", s, v)
                    elif base is not None and base[0] == "outer_nodes":
                        self.sink("outer node table key", s, self.ev(tg.slice, env))
                    elif base is not None and base[0] == "outer_results":
                        self.sink("outer results key", s, self.ev(tg.slice, env))
            elif isinstance(s, ast.Expr):
                self.ev(s.value, env)
            elif isinstance(s, ast.If):
                self.ev(s.test, env)
                self.run(s.body)
                self.run(s.orelse)
            elif isinstance(s, (ast.For, ast.AsyncFor)):
                it = self.ev(s.iter, env)
                self.bind(s.target, self.elem(it), env)
                self._loops.append(s)
                self.run(s.body)
                self._loops.pop()
            elif isinstance(s, ast.While):
                self.ev(s.test, env)
                self.run(s.body)
            elif isinstance(s, ast.Try):
                self.run(s.body)
                for h in s.handlers:
                    self.run(h.body)
                self.run(s.orelse)
                self.run(s.finalbody)
            elif isinstance(s, (ast.With, ast.AsyncWith)):
                self.run(s.body)
            elif isinstance(s, ast.Return) and s.value is not None:
                v = self.ev(s.value, env)
                self.sink("returned reference(s)", s, v)
            elif isinstance(s, (ast.Raise, ast.Continue, ast.Break, ast.Pass)):
                pass
