"""Statement-level control-flow graph of one function, dominators, and loop-path enumeration."""
from __future__ import annotations

import ast
from typing import Dict, Iterable, List, Optional, Set, Tuple


class CFG:
    """Nodes are ints.  kind[n] in ENTRY EXIT RAISE STMT COND LOOP FOR WITH TRY EXCEPT DEF; node[n] is the ast node
    (the test expression for COND/LOOP, the statement otherwise).  succ[n] is a list of (m, label) with label
    True/False for the two outcomes of COND/LOOP/FOR, "exc" for handler entry, None otherwise."""

    def __init__(self, fn: ast.AST):
        self.fn = fn
        self.kind: Dict[int, str] = {}
        self.node: Dict[int, Optional[ast.AST]] = {}
        self.succ: Dict[int, List[Tuple[int, object]]] = {}
        self.pred: Dict[int, List[Tuple[int, object]]] = {}
        self.stmt_of: Dict[int, int] = {}  # id(ast stmt) -> cfg node
        self._n = 0
        self.entry = self._new("ENTRY", None)
        self.exit = self._new("EXIT", None)
        self.raise_exit = self._new("RAISE", None)
        self._loops: List[Tuple[int, list]] = []
        self._finally: List[List[ast.stmt]] = []
        last = self._block(fn.body, [(self.entry, None)])  # type: ignore[attr-defined]
        for p, lab in last:
            self._edge(p, self.exit, lab)

    # ------------------------------------------------------------------ construction
    def _new(self, kind: str, node) -> int:
        i = self._n
        self._n += 1
        self.kind[i] = kind
        self.node[i] = node
        self.succ[i] = []
        self.pred[i] = []
        if node is not None and isinstance(node, ast.stmt):
            self.stmt_of[id(node)] = i
        return i

    def _edge(self, a: int, b: int, lab=None) -> None:
        if (b, lab) not in self.succ[a]:
            self.succ[a].append((b, lab))
            self.pred[b].append((a, lab))

    def _connect(self, preds, n: int) -> None:
        for p, lab in preds:
            self._edge(p, n, lab)

    def _block(self, stmts: Iterable[ast.stmt], preds):
        for s in stmts:
            preds = self._stmt(s, preds)
        return preds

    def _stmt(self, s: ast.stmt, preds):
        if isinstance(s, ast.If):
            c = self._new("COND", s.test)
            self.stmt_of[id(s)] = c
            self._connect(preds, c)
            t = self._block(s.body, [(c, True)])
            f = self._block(s.orelse, [(c, False)]) if s.orelse else [(c, False)]
            return t + f
        if isinstance(s, ast.While):
            c = self._new("LOOP", s.test)
            self.stmt_of[id(s)] = c
            self._connect(preds, c)
            after: list = []
            self._loops.append((c, after))
            body_end = self._block(s.body, [(c, True)])
            self._loops.pop()
            self._connect(body_end, c)
            out = [(c, False)]
            if s.orelse:
                out = self._block(s.orelse, out)
            return out + after
        if isinstance(s, (ast.For, ast.AsyncFor)):
            c = self._new("FOR", s)
            self._connect(preds, c)
            after = []
            self._loops.append((c, after))
            body_end = self._block(s.body, [(c, True)])
            self._loops.pop()
            self._connect(body_end, c)
            out = [(c, False)]
            if s.orelse:
                out = self._block(s.orelse, out)
            return out + after
        if isinstance(s, ast.Continue):
            n = self._new("STMT", s)
            self._connect(preds, n)
            if self._loops:
                self._edge(n, self._loops[-1][0])
            return []
        if isinstance(s, ast.Break):
            n = self._new("STMT", s)
            self._connect(preds, n)
            if self._loops:
                self._loops[-1][1].append((n, None))
            return []
        if isinstance(s, ast.Return):
            n = self._new("STMT", s)
            self._connect(preds, n)
            outs = [(n, None)]
            for fb in reversed(self._finally):
                outs = self._block(fb, outs)
            for p, lab in outs:
                self._edge(p, self.exit, lab)
            return []
        if isinstance(s, ast.Raise):
            n = self._new("STMT", s)
            self._connect(preds, n)
            self._edge(n, self.raise_exit)
            return []
        if isinstance(s, (ast.With, ast.AsyncWith)):
            n = self._new("WITH", s)
            self._connect(preds, n)
            return self._block(s.body, [(n, None)])
        if isinstance(s, ast.Try):
            n = self._new("TRY", s)
            self._connect(preds, n)
            if s.finalbody:
                self._finally.append(s.finalbody)
            body_end = self._block(s.body, [(n, None)])
            if s.orelse:
                body_end = self._block(s.orelse, body_end)
            outs = list(body_end)
            for h in s.handlers:
                hn = self._new("EXCEPT", h)
                self._edge(n, hn, "exc")
                outs += self._block(h.body, [(hn, None)])
            if s.finalbody:
                self._finally.pop()
                outs = self._block(s.finalbody, outs)
            return outs
        if isinstance(s, (ast.FunctionDef, ast.AsyncFunctionDef, ast.ClassDef)):
            n = self._new("DEF", s)
            self._connect(preds, n)
            return [(n, None)]
        n = self._new("STMT", s)
        self._connect(preds, n)
        return [(n, None)]

    # ------------------------------------------------------------------ queries
    def nodes(self) -> List[int]:
        return list(self.kind)

    def reachable(self, start: Optional[int] = None) -> Set[int]:
        start = self.entry if start is None else start
        seen = {start}
        st = [start]
        while st:
            n = st.pop()
            for m, _ in self.succ[n]:
                if m not in seen:
                    seen.add(m)
                    st.append(m)
        return seen

    def dominators(self) -> Dict[int, Set[int]]:
        nodes = sorted(self.reachable())
        dom = {n: set(nodes) for n in nodes}
        dom[self.entry] = {self.entry}
        changed = True
        while changed:
            changed = False
            for n in nodes:
                if n == self.entry:
                    continue
                ps = [p for p, _ in self.pred[n] if p in dom]
                new = set(nodes)
                for p in ps:
                    new &= dom[p]
                new = new | {n}
                if new != dom[n]:
                    dom[n] = new
                    changed = True
        return dom

    def node_of_stmt(self, s: ast.AST) -> Optional[int]:
        return self.stmt_of.get(id(s))

    def loops(self) -> List[int]:
        return [n for n, k in self.kind.items() if k == "LOOP"]

    def loop_body_nodes(self, loop: int) -> Set[int]:
        """Nodes from which the loop head is reachable without leaving through the False edge (natural loop)."""
        body = {loop}
        st = [p for p, _ in self.pred[loop]]
        # only back-edges: predecessors reachable from loop's True edge
        fwd = set()
        s2 = [m for m, lab in self.succ[loop] if lab is True]
        while s2:
            n = s2.pop()
            if n in fwd or n == loop:
                continue
            fwd.add(n)
            s2.extend(m for m, _ in self.succ[n])
        st = [p for p in st if p in fwd]
        while st:
            n = st.pop()
            if n in body:
                continue
            body.add(n)
            st.extend(p for p, _ in self.pred[n] if p in fwd or p == loop)
        return body

    def loop_paths(self, loop: int, limit: int = 5000) -> List[List[Tuple[int, object]]]:
        """All acyclic head-to-head paths through the loop body.

        A path is a list of (node, label_taken_out_of_node); the first element is (loop, True).  Inner FOR loops
        are traversed at most once per node (the acyclicity bound); paths that leave the loop (exit / raise /
        break) are returned by ``loop_exits`` instead."""
        out: List[List[Tuple[int, object]]] = []
        body = self.loop_body_nodes(loop)
        inner_heads = {n for n in body if n != loop and self.kind[n] in ("LOOP", "FOR")}

        def dfs(n: int, path: List[Tuple[int, object]], seen: Dict[int, int]) -> None:
            if len(out) >= limit:
                return
            for m, lab in self.succ[n]:
                # an inner loop head that is re-entered (after one iteration of its body) may only be left
                if n in inner_heads and seen.get(n, 0) >= 2 and lab is True:
                    continue
                if m == loop:
                    out.append(path + [(n, lab)])
                    continue
                if m not in body:
                    continue
                cnt = seen.get(m, 0)
                if cnt >= (2 if m in inner_heads else 1):
                    continue
                s2 = dict(seen)
                s2[m] = cnt + 1
                dfs(m, path + [(n, lab)], s2)

        for m, lab in self.succ[loop]:
            if lab is True:
                if m == loop:
                    out.append([(loop, True)])
                else:
                    dfs(m, [(loop, True)], {m: 1})
        return out
