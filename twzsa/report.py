"""Findings, rule results, known-findings file, evidence and the verdict protocol."""
from __future__ import annotations

import json
import os
import re
from dataclasses import dataclass, field
from typing import Any, Dict, List, Optional

PASS, VIOLATION, UNDECIDED = "PASS", "VIOLATION", "UNDECIDED"

VERIF_DIR = os.path.dirname(os.path.dirname(os.path.abspath(__file__)))
KNOWN_FILE = os.path.join(VERIF_DIR, "known_findings.json")


class Undecided(Exception):
    """An anchor vanished or an idiom is not modelled in a position that matters: the rule cannot decide."""


@dataclass
class Finding:
    rule: str
    construct: str  # stable key: function + normalised construct, never a line number
    where: str  # file:line for the human reader
    message: str
    witness: Any = None  # path / flow / excerpt

    @property
    def key(self) -> str:
        return f"{self.rule} @ {self.construct}"

    def to_json(self) -> dict:
        return {"rule": self.rule, "construct": self.construct, "where": self.where,
                "message": self.message, "witness": self.witness}


@dataclass
class RuleResult:
    rule: str
    status: str = PASS
    findings: List[Finding] = field(default_factory=list)
    instances: List[Any] = field(default_factory=list)  # what was examined, written to the evidence
    obligations: int = 0
    discharged: int = 0
    note: str = ""
    reason: str = ""  # for UNDECIDED

    def ob(self, ok: bool, instance: Any = None) -> bool:
        """Record one obligation."""
        self.obligations += 1
        if ok:
            self.discharged += 1
        if instance is not None:
            self.instances.append(instance)
        return ok

    def violate(self, construct: str, where: str, message: str, witness: Any = None) -> None:
        self.findings.append(Finding(self.rule, construct, where, message, witness))
        self.status = VIOLATION

    def require(self, cond: bool, why: str) -> None:
        if not cond:
            raise Undecided(why)


def load_known() -> List[dict]:
    if not os.path.exists(KNOWN_FILE):
        return []
    with open(KNOWN_FILE) as f:
        return json.load(f)["findings"]


def norm_src(node_or_text) -> str:
    """Normalised statement text used in construct keys (whitespace-insensitive, no positions)."""
    import ast

    s = node_or_text if isinstance(node_or_text, str) else ast.unparse(node_or_text)
    s = re.sub(r"\s+", " ", s).strip()
    return s if len(s) <= 160 else s[:157] + "..."
