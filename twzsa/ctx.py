"""Analysis context: the parsed program, the typer, cached CFGs and small AST utilities shared by the rules."""
from __future__ import annotations

import ast
import os
import sys
from typing import Dict, Iterator, List, Optional, Tuple

from .cfg import CFG
from .loader import FuncInfo, Program, iter_own_nodes, own_walk
from .report import Undecided
from .typer import Typer

REPO = os.environ.get("TWZSA_REPO", "/repo")
PKG = "tawazi"


class Ctx:
    def __init__(self, root: str = REPO, overrides: Optional[Dict[str, str]] = None):
        self.root = root
        from .control import CONTROL_REL, CONTROL_SRC

        overrides = dict(overrides or {})
        overrides.setdefault(CONTROL_REL, CONTROL_SRC)
        self.P = Program(root, PKG, overrides)
        self.T = Typer(self.P)
        self._cfg: Dict[str, CFG] = {}
        self._memo: Dict[str, object] = {}
        self.stats: Dict[str, int] = {"calls_total": 0, "calls_resolved": 0}

    # ------------------------------------------------------------------ lookups by role
    def cls_q(self, simple: str) -> str:
        """Qualified name of the unique package class with this simple name."""
        qs = [q for q in self.P.classes if q.rsplit(".", 1)[1] == simple]
        if len(qs) != 1:
            raise Undecided(f"class {simple}: expected exactly one in the package, found {len(qs)}")
        return qs[0]

    def cfg(self, f: FuncInfo) -> CFG:
        if f.qualname not in self._cfg:
            self._cfg[f.qualname] = CFG(f.node)
        return self._cfg[f.qualname]

    def memo(self, key: str, fn):
        if key not in self._memo:
            self._memo[key] = fn()
        return self._memo[key]

    def funcs(self) -> Iterator[FuncInfo]:
        return iter(self.P.funcs.values())

    def method(self, cls_simple: str, name: str) -> FuncInfo:
        c = self.P.classes[self.cls_q(cls_simple)]
        m = self.P.find_method(c, name)
        if m is None:
            raise Undecided(f"method {cls_simple}.{name} not found")
        return m

    def own_method(self, cls_simple: str, name: str) -> Optional[FuncInfo]:
        c = self.P.classes[self.cls_q(cls_simple)]
        return c.methods.get(name)

    # ------------------------------------------------------------------ calls
    def calls_in(self, f: FuncInfo, root: Optional[ast.AST] = None) -> List[Tuple[ast.Call, Optional[str]]]:
        """(call node, resolved callee) for every call in f's own body (or below ``root``)."""
        out = []
        it = iter_own_nodes(f.node) if root is None else own_walk(root)
        for n in it:
            if isinstance(n, ast.Call):
                q = self.T.resolve_callee(f, n, self.env_at(f, n))
                out.append((n, q))
        return out

    def env_at(self, f: FuncInfo, node: ast.AST) -> dict:
        """Typing environment valid at ``node`` (adds comprehension variables of enclosing comprehensions)."""
        env = self.T.env(f)
        comps = self._comp_parents(f).get(id(node))
        if comps:
            env = dict(env)
            for c in comps:
                env = self.T._comp_env(f, c.generators, env)  # noqa: SLF001
        return env

    def _comp_parents(self, f: FuncInfo) -> Dict[int, list]:
        key = "comp_parents:" + f.qualname

        def build():
            out: Dict[int, list] = {}

            def go(n: ast.AST, stack: list) -> None:
                if stack:
                    out[id(n)] = stack
                inner = stack + [n] if isinstance(n, (ast.ListComp, ast.SetComp, ast.GeneratorExp, ast.DictComp)) \
                    else stack
                for c in ast.iter_child_nodes(n):
                    if isinstance(c, (ast.FunctionDef, ast.AsyncFunctionDef, ast.ClassDef)):
                        continue
                    go(c, inner)

            go(f.node, [])
            return out

        return self.memo(key, build)

    def stmt_containing(self, f: FuncInfo, node: ast.AST) -> Optional[ast.AST]:
        """The CFG-level statement of f that contains ``node``."""
        cfg = self.cfg(f)
        key = "stmt_index:" + f.qualname

        def build():
            idx: Dict[int, int] = {}
            for n, a in cfg.node.items():
                if a is None:
                    continue
                root = a.iter if cfg.kind[n] == "FOR" else a  # type: ignore[attr-defined]
                if cfg.kind[n] in ("WITH",):
                    idx.setdefault(id(a), n)
                    for it in a.items:  # type: ignore[attr-defined]
                        for x in ast.walk(it):
                            idx.setdefault(id(x), n)
                    continue
                if cfg.kind[n] in ("TRY", "EXCEPT", "DEF"):
                    continue
                for x in own_walk(root):
                    idx.setdefault(id(x), n)
            return idx

        idx = self.memo(key, build)
        n = idx.get(id(node))
        return n

    def entry_reaches(self, f: FuncInfo, name: str, at: ast.AST) -> bool:
        """True if the function entry reaches the statement containing ``at`` on a path without any assignment to ``name``
        (i.e. the parameter's / closure's initial value may still be the current one there)."""
        self.reaching_defs(f, name, at)
        return self._entry_flag.get((f.qualname, name, self.stmt_containing(f, at)), True)

    def reaching_defs(self, f: FuncInfo, name: str, at: ast.AST) -> List[ast.AST]:
        """Assignments to local ``name`` that may reach the statement containing ``at`` (CFG-backward search)."""
        cfg = self.cfg(f)
        start = self.stmt_containing(f, at)
        if not hasattr(self, "_entry_flag"):
            self._entry_flag = {}
        if start is None:
            return []
        self._entry_flag[(f.qualname, name, start)] = False
        out: List[ast.AST] = []
        seen = set()
        st = [p for p, _ in cfg.pred[start]]
        while st:
            n = st.pop()
            if n in seen:
                continue
            seen.add(n)
            a = cfg.node[n]
            hit = False
            if a is not None and cfg.kind[n] == "STMT":
                if isinstance(a, ast.Assign) and any(self._binds(t, name) for t in a.targets):
                    hit = True
                elif isinstance(a, (ast.AnnAssign, ast.AugAssign)) and self._binds(a.target, name):
                    hit = True
            elif a is not None and cfg.kind[n] == "FOR" and self._binds(a.target, name):  # type: ignore[attr-defined]
                hit = True
            if hit:
                out.append(a)
                continue
            if n == cfg.entry:
                self._entry_flag[(f.qualname, name, start)] = True
            st.extend(p for p, _ in cfg.pred[n])
        return out

    @staticmethod
    def _binds(t: ast.AST, name: str) -> bool:
        if isinstance(t, ast.Name):
            return t.id == name
        if isinstance(t, (ast.Tuple, ast.List)):
            return any(Ctx._binds(x, name) for x in t.elts)
        if isinstance(t, ast.Starred):
            return Ctx._binds(t.value, name)
        return False

    def type_of(self, f: FuncInfo, e: ast.AST) -> tuple:
        return self.T.expr(f, e, self.env_at(f, e))

    def callers_of(self, qualname: str) -> List[Tuple[FuncInfo, ast.Call]]:
        index = self.memo("call_index", self._build_call_index)
        return index.get(qualname, [])

    def _build_call_index(self):
        idx: Dict[str, List[Tuple[FuncInfo, ast.Call]]] = {}
        for f in self.P.funcs.values():
            for call, q in self.calls_in(f):
                self.stats["calls_total"] += 1
                if q is not None:
                    self.stats["calls_resolved"] += 1
                    idx.setdefault(q, []).append((f, call))
        # functools.singledispatch: an implementation registered with `@generic.register(T)` is entered wherever `generic` is called
        for f in self.P.funcs.values():
            for d in getattr(f.node, "decorator_list", []):
                base = d.func if isinstance(d, ast.Call) else d
                if isinstance(base, ast.Attribute) and base.attr == "register" and isinstance(base.value, ast.Name):
                    gq = next((g.qualname for g in self.P.funcs.values() if g.name == base.value.id and g.module is f.module and g.cls is f.cls
                               and g.parent is f.parent), None)
                    if gq is not None and gq != f.qualname:
                        idx.setdefault(f.qualname, []).extend(idx.get(gq, []))
        return idx

    def call_graph(self) -> Dict[str, set]:
        def build():
            g: Dict[str, set] = {}
            for f in self.P.funcs.values():
                s = g.setdefault(f.qualname, set())
                for call, q in self.calls_in(f):
                    if q in self.P.funcs:
                        s.add(q)
                    elif q in self.P.classes:
                        c = self.P.classes[q]
                        for mn in ("__init__", "__post_init__"):
                            m = self.P.find_method(c, mn)
                            if m:
                                s.add(m.qualname)
                # nested defs are part of their parent for reachability
                for g2 in self.P.funcs.values():
                    if g2.parent is f:
                        s.add(g2.qualname)
            return g

        return self.memo("call_graph", build)

    def reachable_from(self, roots: List[str]) -> set:
        g = self.call_graph()
        seen = set()
        st = list(roots)
        while st:
            q = st.pop()
            if q in seen or q not in g:
                continue
            seen.add(q)
            st.extend(g[q])
        return seen


# ---------------------------------------------------------------------- AST helpers
def dotted(e: ast.AST) -> Optional[str]:
    if isinstance(e, ast.Name):
        return e.id
    if isinstance(e, ast.Attribute):
        b = dotted(e.value)
        return f"{b}.{e.attr}" if b else None
    return None


def names_in(e: ast.AST) -> set:
    return {n.id for n in ast.walk(e) if isinstance(n, ast.Name)}


def parents_map(root: ast.AST) -> Dict[int, ast.AST]:
    out: Dict[int, ast.AST] = {}
    for n in ast.walk(root):
        for c in ast.iter_child_nodes(n):
            out[id(c)] = n
    return out


def enclosing_stmt_chain(root: ast.AST, node: ast.AST) -> List[ast.AST]:
    """Ancestors of node inside root (outermost first)."""
    pm = parents_map(root)
    out = []
    cur = node
    while id(cur) in pm:
        cur = pm[id(cur)]
        out.append(cur)
    return list(reversed(out))


def const_str(e: ast.AST) -> Optional[str]:
    return e.value if isinstance(e, ast.Constant) and isinstance(e.value, str) else None


def arg_for_param(callee: ast.AST, call: ast.Call, param: str, skip_self: bool = False) -> Optional[ast.AST]:
    """The argument expression a call passes for ``param`` of ``callee`` (FunctionDef), or None."""
    a = callee.args  # type: ignore[attr-defined]
    pos = [p.arg for p in a.posonlyargs + a.args]
    if skip_self and pos:
        pos = pos[1:]
    for k in call.keywords:
        if k.arg == param:
            return k.value
    if param in pos:
        i = pos.index(param)
        if i < len(call.args) and not any(isinstance(x, ast.Starred) for x in call.args[: i + 1]):
            return call.args[i]
    return None
