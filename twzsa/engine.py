"""Run the rules of a property, form the verdict, print the protocol lines, write evidence and replay files."""
from __future__ import annotations

import json
import os
import sys
import time
import traceback
from typing import Callable, Dict, List, Optional, Tuple

from .ctx import Ctx, REPO
from .loader import LoadError
from .report import (PASS, UNDECIDED, VIOLATION, Finding, RuleResult, Undecided, VERIF_DIR, load_known)

EVIDENCE_DIR = os.path.join(VERIF_DIR, "evidence")
OUT_DIR = os.path.join(VERIF_DIR, "out", "violations")


def all_rules() -> Dict[str, Callable[[Ctx], RuleResult]]:
    from .rules import cache, err, gt, lck, own, ref, sch, sib, val

    out: Dict[str, Callable[[Ctx], RuleResult]] = {}
    for mod in (sch, ref, gt, own, lck, sib, val, err, cache):
        out.update(mod.RULES)
    return out


def run_rule(name: str, fn: Callable[[Ctx], RuleResult], ctx: Ctx) -> RuleResult:
    try:
        res = fn(ctx)
        if res.status != VIOLATION and res.obligations == 0:
            res.status = UNDECIDED
            res.reason = "rule matched no instance (floor: at least one obligation)"
        return res
    except Undecided as e:
        return RuleResult(name, UNDECIDED, reason=str(e))
    except Exception as e:  # an analyser bug is never a verdict
        tb = traceback.format_exc(limit=6)
        return RuleResult(name, UNDECIDED, reason=f"analyser exception {type(e).__name__}: {e}\n{tb}")


def run_property(pid: str, tier: str = "quick", root: str = REPO, overrides: Optional[Dict[str, str]] = None,
                 quiet: bool = False, write: bool = True) -> Tuple[int, dict]:
    """Returns (exit status, summary dict)."""
    from .props import PROPS

    t0 = time.time()
    spec = PROPS[pid]
    seed = int(os.environ.get("VERIF_SEED", "0") or 0)
    out_lines: List[str] = []

    def say(s: str) -> None:
        out_lines.append(s)
        if not quiet:
            print(s, flush=True)

    try:
        ctx = Ctx(root, overrides)
    except LoadError as e:
        say(f"ANALYSIS-ERROR property={pid} the tree does not parse: {e}")
        return 2, {"status": "error", "lines": out_lines}
    rules = all_rules()
    results: Dict[str, RuleResult] = {}
    for name in spec["core"] + spec["aux"]:
        if name not in rules:
            results[name] = RuleResult(name, UNDECIDED, reason="rule not implemented")
            continue
        results[name] = run_rule(name, rules[name], ctx)
    # ---- thorough tier extras (sensitivity matrix, benign variants, package-wide sweeps)
    extra: dict = {}
    if tier == "thorough" and overrides is None:
        from . import selftest

        extra = selftest.thorough_extras(pid, root)
    # ---- verdict
    known = [k for k in load_known() if k.get("status") == "known"]
    known_keys = {(k["rule"], k["construct"]): k for k in known}
    findings: List[Finding] = []
    for res in results.values():
        findings.extend(res.findings)
    new: List[Finding] = []
    known_hit: List[Tuple[Finding, dict]] = []
    for f in findings:
        k = known_keys.get((f.rule, f.construct))
        if k is not None and pid in k.get("properties", [k.get("property")]):
            known_hit.append((f, k))
        else:
            new.append(f)
    core_undecided = [results[n] for n in spec["core"] if results[n].status == UNDECIDED]
    aux_undecided = [results[n] for n in spec["aux"] if results[n].status == UNDECIDED]
    say(f"== {pid} {spec['title']} [{tier}] tree={root}")
    for name in spec["core"] + spec["aux"]:
        res = results[name]
        tag = "core" if name in spec["core"] else "aux "
        shown = res.status
        if shown == VIOLATION and all(any(f is h for h, _ in known_hit) for f in res.findings):
            shown = "KNOWN"  # every finding of this rule is a listed known finding: no alarm word in the table
        say(f"  {tag} {name:16s} {shown:9s} obligations={res.obligations} discharged={res.discharged}"
            + (f"  -- {res.reason.splitlines()[0]}" if res.status == UNDECIDED else ""))
    for f, k in known_hit:
        say(f"KNOWN-FINDING: property={pid} {f.key} ({f.where}) -- {k.get('what', f.message)}")
    status = 0
    if new:
        status = 1
        os.makedirs(OUT_DIR, exist_ok=True)
        replay = os.path.join("out", "violations", f"{pid}.json")
        with open(os.path.join(VERIF_DIR, replay), "w") as fh:
            json.dump({"property": pid, "tier": tier, "root": root,
                       "violations": [f.to_json() for f in new]}, fh, indent=1, default=str)
        for f in new:
            say(f"  !! {f.key}\n     at {f.where}: {f.message}")
        say(f"VIOLATION property={pid} replay={replay}")
    elif core_undecided:
        status = 2
        for res in core_undecided:
            say(f"ANALYSIS-ERROR property={pid} rule={res.rule} {res.reason}")
    for res in aux_undecided:
        say(f"  (auxiliary rule {res.rule} undecided, not counted as discharged: {res.reason.splitlines()[0]})")
    for line in extra.get("lines", []):
        say(line)
    wall = time.time() - t0
    if write and overrides is None and not os.environ.get("TWZSA_NOEVIDENCE"):
        _write_evidence(pid, spec, tier, seed, ctx, results, new, known_hit, extra, wall)
    say(f"== {pid}: {'OK' if status == 0 else ('VIOLATION' if status == 1 else 'ANALYSIS-ERROR')} in {wall:.2f}s")
    return status, {"status": status, "lines": out_lines, "findings": [f.key for f in findings],
                    "new": [f.key for f in new], "results": {k: v.status for k, v in results.items()},
                    "undecided": {k: v.reason for k, v in results.items() if v.status == UNDECIDED}}


def _write_evidence(pid, spec, tier, seed, ctx: Ctx, results: Dict[str, RuleResult], new, known_hit, extra, wall) -> None:
    os.makedirs(EVIDENCE_DIR, exist_ok=True)
    obligations = sum(r.obligations for r in results.values())
    discharged = sum(r.discharged for r in results.values())
    samples = []
    distinct = set()
    for name, r in results.items():
        for inst in r.instances:
            key = json.dumps(inst, sort_keys=True, default=str)
            if key not in distinct:
                distinct.add(key)
                if len(samples) < 60:
                    samples.append({"rule": name, "instance": inst})
    # touch the call index so that the resolution statistics are measured on this run
    try:
        ctx.callers_of("")
    except Exception:
        pass
    cov = {
        "explanation": spec["explanation"],
        "rule": "instances are the constructs each rule enumerates from the current source of /repo (loop paths, call "
                "sites, reference sites, graph-valued expressions ...); one is non-trivial when the rule's precondition "
                "matched it and an obligation was evaluated on it; distinct by (rule, normalised instance)",
        "evaluations": max(1, sum(len(r.instances) for r in results.values())),
        "distinct_nontrivial": len(distinct),
        "obligations": obligations,
        "discharged": discharged,
        "samples": samples or [{"note": "no instance"}],
        "rules": {n: {"status": r.status, "role": "core" if n in spec["core"] else "auxiliary",
                      "obligations": r.obligations, "discharged": r.discharged, "note": r.note,
                      **({"reason": r.reason} if r.status == UNDECIDED else {})} for n, r in results.items()},
        "skipped_rules": [{"rule": n, "reason": r.reason} for n, r in results.items() if r.status == UNDECIDED],
        "known_findings_reported": [f.key for f, _ in known_hit],
        "renamed_helpers_read_under_their_usual_name": dict(getattr(ctx.P, "roles", {})),
        "new_violations": [f.to_json() for f in new],
        "modules_analysed": len(ctx.P.modules),
        "classes_indexed": len(ctx.P.classes),
        "functions_indexed": len(ctx.P.funcs),
        "call_sites_total": ctx.stats["calls_total"],
        "call_sites_resolved": ctx.stats["calls_resolved"],
        "source_digests": ctx.P.digests(),
        "trusted_base": spec.get("trusted_base", []),
        "checker_cmd": f"/venv/bin/python -m twzsa check {pid} --tier {tier}",
        "not_decided": spec.get("not_decided", ""),
        "exhaustive": True,
    }
    try:
        m = ctx._memo.get("sched_model")  # noqa: SLF001
        if m is not None:
            ps = m.paths()
            cov["scheduler_paths_enumerated"] = len(ps)
            cov["scheduler_paths_feasible"] = sum(1 for p in ps if p.feasible)
    except Exception:
        pass
    if extra:
        cov["thorough"] = {k: v for k, v in extra.items() if k != "lines"}
    ev = {
        "property_id": pid,
        "tier": tier,
        "seed": seed,
        "level": "other",
        "coverage": cov,
        "assumptions": spec.get("assumptions", []),
        "wall_s": round(wall, 3),
        "violations": len(new),
    }
    with open(os.path.join(EVIDENCE_DIR, f"{pid}.json"), "w") as fh:
        json.dump(ev, fh, indent=1, default=str)


def run_rules_only(ctx: Ctx, names) -> list:
    """(rule, reason) for every rule of `names` that is UNDECIDED on ctx's tree."""
    table = all_rules()
    out = []
    for n in names:
        fn = table.get(n)
        if fn is None:
            out.append((n, "rule not registered"))
            continue
        res = run_rule(n, fn, ctx)
        if res.status == UNDECIDED:
            out.append((n, (res.reason or "").splitlines()[0] if res.reason else ""))
    return out
