"""CLI: python -m twzsa check <Cxx> [--tier quick|thorough] | explain <replay.json> | list | selftest ..."""
from __future__ import annotations

import argparse
import json
import os
import sys


def main(argv=None) -> int:
    ap = argparse.ArgumentParser(prog="twzsa")
    sub = ap.add_subparsers(dest="cmd", required=True)
    c = sub.add_parser("check")
    c.add_argument("pid")
    c.add_argument("--tier", default=os.environ.get("VERIF_TIER", "quick"), choices=["quick", "thorough"])
    c.add_argument("--root", default=None)
    e = sub.add_parser("explain")
    e.add_argument("path")
    sub.add_parser("list")
    r = sub.add_parser("rule")
    r.add_argument("name")
    r.add_argument("--root", default=None)
    s = sub.add_parser("selftest")
    s.add_argument("--jobs", type=int, default=16)
    s.add_argument("--only", default=None)
    a = ap.parse_args(argv)
    from . import engine
    from .ctx import REPO

    if a.cmd == "check":
        try:
            st, _ = engine.run_property(a.pid, a.tier, a.root or REPO)
            return st
        except Exception as ex:  # never a traceback as a verdict
            import traceback

            print(f"ANALYSIS-ERROR property={a.pid} internal error {type(ex).__name__}: {ex}")
            traceback.print_exc()
            return 2
    if a.cmd == "list":
        from .props import PROPS

        for k, v in PROPS.items():
            print(k, v["title"], "| core:", ",".join(v["core"]), "| aux:", ",".join(v["aux"]))
        return 0
    if a.cmd == "rule":
        from .ctx import Ctx

        res = engine.run_rule(a.name, engine.all_rules()[a.name], Ctx(a.root or REPO))
        print(res.status, res.obligations, res.discharged, res.reason)
        for f in res.findings:
            print(" ", f.key, "|", f.where, "|", f.message)
            print("    witness:", json.dumps(f.witness, default=str)[:2000])
        for i in res.instances:
            print("   -", json.dumps(i, default=str)[:300])
        return 0
    if a.cmd == "explain":
        with open(a.path) as fh:
            d = json.load(fh)
        print(f"property {d['property']} (tier {d['tier']}, tree {d['root']}): {len(d['violations'])} violation(s) recorded")
        from .ctx import Ctx

        ctx = Ctx(d["root"] if os.path.isdir(d["root"]) else REPO)
        rules = engine.all_rules()
        for v in d["violations"]:
            print(f"- {v['rule']} @ {v['construct']}\n    at {v['where']}: {v['message']}")
            print("    witness:", json.dumps(v.get("witness"), default=str)[:3000])
            res = engine.run_rule(v["rule"], rules[v["rule"]], ctx)
            still = [f for f in res.findings if f.construct == v["construct"]]
            print(f"    re-run of {v['rule']} on the current tree: {res.status}; this construct "
                  f"{'is still reported' if still else 'is no longer reported'}")
        return 0
    if a.cmd == "selftest":
        from . import selftest

        return selftest.main(a.jobs, a.only)
    return 2


if __name__ == "__main__":
    sys.exit(main())
