"""Property -> rules table (DESIGN section 5).  Core rules first; an undecided core rule fails the check (exit 2),
an undecided auxiliary rule is reported and not counted as discharged."""

COMMON_TB = [
    "CPython semantics of the statements analysed; ast.parse of /repo's current working tree",
    "the analyser's own rule tables (accepted idioms) - each rule prints the instances it matched",
]
SCHED_TB = COMMON_TB + [
    "concurrent.futures.wait / asyncio.wait block until return_when is satisfied on a non-empty set and return (done, pending)",
    "ThreadPoolExecutor.submit / loop.run_in_executor run the callable on a worker thread, never on the caller",
    "Future.result() re-raises the exception of the callable",
    "networkx in_degree / successors / remove_node / dfs_tree / ancestors / descendants semantics",
]

PROPS = {
    "C01": dict(
        title="A DAG call returns exactly what the plain Python function would return",
        core=["REF-DEREF", "REF-KEY", "REF-FIELDS", "REF-ASDICT"],
        aux=["REF-MAT", "REF-SHAPE", "REF-OPS", "REF-NI", "SCH-ARMS", "OWN-ARGS", "REF-GETITEM", "REF-RESERVED", "REF-TRACE", "VAL-ARGCOUNT", "OWN-STRICT", "REF-SEED", "REF-PREFIX", "REF-ACTIVE-BUILD", "REF-RESULTTRY", "REF-FUNCOPY", "REF-UNWRAP", "REF-KWNAME", "REF-FUNTRANSIENT", "SCH-ACTIVE", "REF-CALLID", "VAL-SENTINEL", "REF-SPLICEALL", "REF-ARGORDER", "VAL-STORED", "OWN-CONSUME", "REF-WRAPDICT", "SCH-TASKDONE", "REF-REBUILDALL"],
        explanation="Necessary structural conditions of value equivalence, re-derived from source on every run: every reference "
                    "(node id + key path) is dereferenced only through the accessor; key paths survive every re-identification; "
                    "every reference field is handled at every reference-handling site and restored after dataclasses.asdict; "
                    "return shapes agree between tracer, runner and splicer; operator table complete; scheduling attributes "
                    "never flow into values. NOT the behaviour: value equality over programs x inputs is a runtime quantity.",
        not_decided="equality of returned values over all programs and inputs; correct ordering of traced arguments; Python evaluation",
        trusted_base=COMMON_TB + ["dataclasses.asdict converts nested dataclass instances to dicts recursively"],
    ),
    "C02": dict(
        title="No node starts before all of its dependencies have finished",
        core=["SCH-ORIGIN", "SCH-RSET", "SCH-DONE", "SCH-PRUNE", "REF-FIELDS"],
        aux=["SCH-ROOTS", "REF-DEREF", "REF-MAT", "ERR-CHECK", "SCH-TASKDONE", "REF-SEED", "SCH-BIDICT", "REF-RESULTTRY", "REF-KWNAME", "REF-NONEKEY", "REF-ARGORDER", "ERR-WRAP", "REF-KEY", "OWN-CONSUME", "GT-SELECT", "REF-GETITEM"],
        explanation="Inductive argument over all loop paths of the scheduler: INV 'every id in the runnable set has in-degree 0 in "
                    "the remaining graph, which holds exactly the unfinished selected nodes' is established by the prune and "
                    "preserved by every event class (selection, removal, dispatch, wait, release of successors); a dispatch only "
                    "takes its node from the runnable set; every dependency (args, kwargs, activation flag) is a graph edge.",
        not_decided="correctness of networkx in_degree/successors (trusted); memory visibility of the shared results dict (CPython)",
        trusted_base=SCHED_TB,
    ),
    "C03": dict(
        title="Each selected active node runs exactly once per execution, nothing else runs",
        core=["SCH-ONCE", "SCH-ORIGIN", "SCH-PRUNE", "SCH-DONE"],
        aux=["OWN-STRICT", "OWN-FORCE", "REF-UNIQ", "GT-CYCLE", "GT-GATE", "GT-CARRY", "REF-KEY", "SCH-DEACT", "GT-POP", "GT-ALIAS", "OWN-LIVERESULTS", "REF-WRAPDICT", "REF-FUNCOPY", "REF-UNWRAP", "OWN-WRITEBACK", "SCH-ACTIVE", "GT-GATEEXACT", "REF-CALLID", "GT-EXECSETUP", "GT-PRESENCE", "GT-DEBUGINC", "REF-ACTIVE-BUILD", "SIB-FWD", "CACHE-FLOW"],
        explanation="Exactly-once event pattern on every loop path: the selected id leaves the runnable set exactly once on every "
                    "path that dispatches or deactivates it and never otherwise; at most one dispatch per iteration; pre-computed "
                    "ids pruned before the runnable set is formed; results map write-once; per-call-site ids.",
        not_decided="counting over histories is reduced to 'the runnable set never regains an id' (SCH-RSET + acyclicity)",
        trusted_base=SCHED_TB,
    ),
    "C04": dict(
        title="At most max_concurrency pooled nodes in flight; resources decide the thread",
        core=["SCH-BOUND", "SCH-COUNT"],
        aux=["SCH-ARMS", "VAL-MAXC", "SIB-FWD-SCHED", "SCH-POOLSIZE", "VAL-CONF", "SCH-TASKDONE", "SCH-ONLYDISPATCH", "VAL-POSTINIT", "ERR-NOSWALLOW", "SIB-OVERLOAD", "SCH-OWNTHREAD", "SCH-POOLOWN", "VAL-CONFKEYS", "OWN-COMPOSE", "SIB-CTORARGS", "REF-WRAPDICT", "REF-REBUILDALL"],
        explanation="On every path reaching a pooled dispatch either a live guard literal implies in-flight < max or every in-flight "
                    "set was waited on since the last submission; the count covers every set that receives futures; sets shrink "
                    "only through waits; resource -> dispatch-kind mapping exhaustive and correct; max_concurrency >= 1 validated "
                    "and forwarded unchanged to the pool.",
        not_decided="that a pool worker is not the invoking thread (ThreadPoolExecutor, trusted)",
        trusted_base=SCHED_TB,
    ),
    "C05": dict(
        title="A sequential node never overlaps any other node of its execution",
        core=["SCH-SEQ-PRE", "SCH-SEQ-POST"],
        aux=["SCH-COUNT", "SCH-ARMS", "VAL-CONF", "VAL-EXPAND", "SCH-ONLYDISPATCH", "VAL-POSTINIT", "REF-UNWRAP", "REF-WRAPDICT", "VAL-SYNTHSEQ", "SIB-OVERLOAD", "OWN-RUN", "GT-ALIAS", "REF-REBUILDALL"],
        explanation="Pre-guard fact 'not sequential or nothing in flight' is live at every dispatch of every loop path; after a "
                    "pooled dispatch of a possibly sequential node its in-flight set is drained before the loop head.",
        not_decided="nothing structural; wait primitives trusted",
        trusted_base=SCHED_TB,
    ),
    "C06": dict(
        title="The node that starts is always a highest-compound-priority ready node",
        core=["SCH-PRIO", "GT-CARRY", "SCH-FRESHPICK"],
        aux=["GT-PRIO-SINK", "SCH-RSET", "GT-FORMULA", "GT-POP", "SCH-EAGER", "SCH-STALEPICK", "GT-RECONF", "SCH-GUARD", "OWN-RUN", "GT-GATE", "VAL-CONF"],
        explanation="The choice is max over the whole runnable set keyed by the executed graph's own compound-priority table; "
                    "nothing can enlarge the runnable set between choice and dispatch; the table is populated on every path by "
                    "which a graph reaches the scheduler (typestate over graph values).",
        not_decided="tie-breaking (free); that the runnable set equals the ready set (C02/C03's invariant, reused)",
        trusted_base=SCHED_TB + ["networkx Graph.copy/subgraph/induced_subgraph build their result with G.__class__() (re-verified "
                                 "from the installed networkx source by GT-MODEL on every run)"],
    ),
    "C07": dict(
        title="Compound priority is a deterministic, documented function of the DAG",
        core=["GT-CARRY", "GT-FORMULA"],
        aux=["GT-RECONF", "GT-POP", "GT-MODEL", "VAL-CONF", "VAL-EXPAND", "GT-STALEEXEC", "REF-WRAPDICT", "SCH-COUNT"],
        explanation="Typestate: tables carried through every sub-graph derivation; the computation has no order-dependent "
                    "iteration with loop-carried dependence and no accumulation of a child's compound value (path counting) and "
                    "matches the accepted shape 'own priority + fold over a reachability closure of own priorities'; recomputed "
                    "on every normal exit of re-configuration.",
        not_decided="numerical equality for every DAG beyond the accepted shape",
        trusted_base=COMMON_TB + ["nx.descendants returns the set of distinct descendants"],
    ),
    "C08": dict(
        title="The scheduler never idles while a ready node and a free slot both exist",
        core=["SCH-WAITSITES", "SCH-WAITMODE"],
        aux=["SCH-GUARD", "SCH-MIXWAIT", "SCH-POOLSIZE", "SIB-FWD-SCHED", "SCH-TASKDONE", "SCH-ARMS", "VAL-SYNTHSEQ", "SCH-EAGER", "SCH-STALEPICK", "VAL-CONF", "VAL-POSTINIT", "REF-UNWRAP", "REF-WRAPDICT", "GT-FORMULA", "SIB-OVERLOAD", "SCH-POOLOWN", "VAL-CONFKEYS", "SIB-CTORARGS", "LCK-RUNFREE"],
        explanation="Every blocking wait site of the loop is under exactly one of three licences (full or nothing runnable; "
                    "sequential candidate with something in flight; sequential node just dispatched); the first two wait "
                    "FIRST_COMPLETED; the pool has max_concurrency workers. SCH-MIXWAIT reports the exception the property names.",
        not_decided="wall-clock parallelism; GIL/OS scheduling",
        trusted_base=SCHED_TB,
    ),
    "C09": dict(
        title="Every execution terminates, whatever order nodes finish in",
        core=["SCH-PROGRESS", "SCH-EXIT", "SCH-RSET"],
        aux=["SCH-EMPTYWAIT", "SCH-DEACT", "GT-CYCLE", "ERR-CHECK", "SCH-COUNT", "GT-DEBUGINC", "SCH-DONE", "GT-NORECURSE", "SCH-ACTIVE", "REF-NONEKEY", "LCK-PRED", "LCK-RUNFREE", "OWN-SETUP"],
        explanation="Ranking argument (|graph|, |runnable|) per loop path: every feasible path shrinks the graph, moves a node "
                    "from runnable to in flight, or passes a wait that provably blocks on a non-empty set; no exit but 'graph "
                    "empty'; released roots are never dropped; cycles rejected at construction.",
        not_decided="termination of user functions; liveness of asyncio and the thread pool; fairness",
        trusted_base=SCHED_TB,
    ),
    "C10": dict(
        title="twz_active runs a node iff the supplied value is truthy; otherwise None",
        core=["REF-DEREF", "SCH-DEACT", "REF-FIELDS"],
        aux=["SCH-ACTIVE", "REF-FLAGPRED", "REF-KEY", "REF-ASDICT", "REF-ACTIVE-BUILD", "REF-GETITEM", "REF-REWIRE", "REF-NONEKEY", "REF-SEEDACT", "REF-SETUPOUT", "REF-CALLID", "OWN-ARGS", "REF-SEED", "REF-MAT", "REF-SAMENODE"],
        explanation="The flag is decided by the truthiness of the reference dereferenced through the accessor (key path applied); "
                    "deactivated arm = no dispatch + graph removal + release of successors; the flag is a dependency edge; the "
                    "nested-DAG flag is attached to stubs and inner nodes under one presence predicate.",
        not_decided="'all outputs of a deactivated nested DAG are None' beyond 'every non-setup inner node and stub carries the flag'",
        trusted_base=SCHED_TB,
    ),
    "C11": dict(
        title="A setup node runs at most once per DAG instance and its value is reused",
        core=["OWN-WRITEBACK", "OWN-SETUP", "SCH-PRUNE"],
        aux=["OWN-DEEPCOPY", "VAL-SETUPDEP", "VAL-SETUPARG", "SIB-DAG", "SIB-FWD", "GT-PRESENCE", "OWN-SCHEDCOPY", "VAL-GENREUSE", "GT-ALIASNORM", "GT-DEFAULTSEL", "OWN-LIVERESULTS", "REF-WRAPDICT", "OWN-NODEEPVAL", "GT-GATEEXACT", "VAL-EMPTYFOLD", "GT-EXECSETUP", "VAL-DEBUGDEP", "REF-FIELDS", "OWN-ARGS", "GT-POP", "REF-REBUILDALL"],
        explanation="Who-may-write: the only element write into a DAG's results on a run path is the guarded setup write-back and "
                    "the only re-binding is setup() on a setup-only graph; pruning by membership precedes scheduling; build-time "
                    "refusals present; selection forwarded.",
        not_decided="interleaving of concurrent first calls (excluded by the property); exact set of setup nodes a selection needs",
        trusted_base=COMMON_TB,
    ),
    "C12": dict(
        title="target / exclude / root selection executes exactly the documented closure",
        core=["GT-SELECT"],
        aux=["GT-ALIAS", "REF-MAT", "SIB-FWD", "GT-PRESENCE", "GT-POP", "REF-DEREF", "GT-ALIASNORM", "GT-DEFAULTSEL", "REF-STUBEXEC", "GT-REFALIAS", "GT-ROOTCONST", "OWN-WRITEBACK", "GT-GATEEXACT", "VAL-EMPTYFOLD", "GT-EXECSETUP", "OWN-CONSUME"],
        explanation="Three guarded steps in dominance order roots -> exclude -> targets, each with the right closure primitive "
                    "(descendants incl. self / ancestors incl. self); alias order node, tag, id; the ValueErrors are reachable and "
                    "unconditional under their tests; unexecuted ids read as None.",
        not_decided="set-exactness of the closure for every (R, X, T): semantics of the networkx primitives (trusted)",
        trusted_base=COMMON_TB + ["nx.dfs_tree(G, n).nodes = n and its descendants; nx.ancestors = proper ancestors"],
    ),
    "C13": dict(
        title="Debug nodes run only when enabled and never influence production results",
        core=["GT-GATE", "GT-CARRY"],
        aux=["VAL-DEBUGDEP", "SIB-DAG", "VAL-DEBUGSETUP", "GT-DEBUGINC", "REF-WRAPDICT", "GT-STALEGATE", "GT-GATEEXACT", "REF-REBUILDALL", "GT-ALIASNORM"],
        explanation="Every graph reaching the scheduler passed the debug gate or the setup-only filter; the gate subtracts using a "
                    "table that actually carries the markers (typestate); flag-on inclusion requires all predecessors selected; "
                    "build-time refusal of non-debug depending on debug.",
        not_decided="equality of non-debug values with the flag on and off (reduced to the build-time refusal)",
        trusted_base=COMMON_TB,
    ),
    "C14": dict(
        title="A failing node fails the call, names itself, and starts nothing downstream",
        core=["ERR-WRAP", "ERR-CHECK", "ERR-NOSWALLOW"],
        aux=["SCH-DONE", "SCH-EXIT", "ERR-CTX", "SCH-BIDICT", "ERR-FAILSTOP", "REF-NONEKEY", "ERR-LOGFMT", "ERR-FRAME", "REF-RESULTTRY", "SCH-POOLSIZE", "ERR-LOCFRESH", "SCH-GUARD", "SIB-WAIT", "VAL-CONF", "SCH-TASKDONE", "REF-REBUILDALL", "SCH-WAITMODE"],
        explanation="The node call is wrapped with id + call location 'from e'; every newly done future is checked before the "
                    "wait helper returns and before the node is removed from the graph; no handler between the check and the API "
                    "boundary; context managers around the node call do not suppress.",
        not_decided="absence of every internal scheduler error; nodes already submitted keep running after the failure is observed",
        trusted_base=SCHED_TB,
    ),
    "C15": dict(
        title="Calls do not leak state: a DAG (and an executor) behaves as if freshly built",
        core=["OWN-RUN", "OWN-ARGS", "OWN-CONSUME"],
        aux=["OWN-WRITEBACK", "VAL-EXECUTED", "OWN-COMPOSE", "OWN-SCHEDCOPY", "VAL-SETUPARG", "VAL-ARGCOUNT", "VAL-GENREUSE", "OWN-SETUP", "OWN-WBCOMPLETE", "OWN-LIVERESULTS", "VAL-CONFATOMIC", "SCH-POOLEXIT", "OWN-NODEEPVAL", "REF-FUNCOPY", "OWN-EXECFLAG", "SCH-POOLOWN", "OWN-GRAPHFROZEN", "GT-POP"],
        explanation="Ownership: run paths mutate only objects they created, executor fields, or the licensed setup write-back; "
                    "arguments are written into a copy; a consumed graph is fresh per call.",
        not_decided="equality of outcomes over histories (implied by non-interference, which is what is checked)",
        trusted_base=COMMON_TB + ["copy.copy of a dict subclass is a new container; copy.deepcopy of a graph is independent"],
    ),
    "C16": dict(
        title="Tawazi is thread-safe: concurrent runs and builds do not interfere",
        core=["LCK-SET", "LCK-PRED", "OWN-RUN", "OWN-GLOBAL"],
        aux=["LCK-RESET", "OWN-CONSUME", "LCK-PAIR", "LCK-GLOBALS", "LCK-REBIND", "OWN-GRAPHFROZEN", "LCK-RUNFREE"],
        explanation="Lockset: build state is touched only under the build lock or behind a thread-exclusive description predicate; "
                    "the predicate's owner identity is written only inside the locked region; run paths touch no module-level "
                    "mutable state.",
        not_decided="atomicity inside CPython containers; concurrent first calls with pending setup nodes (documented exclusion)",
        trusted_base=COMMON_TB + ["threading.Lock mutual exclusion; threading.get_ident unique among live threads"],
    ),
    "C17": dict(
        title="AsyncDAG equals DAG, concurrent awaits are isolated, the loop stays free",
        core=["SIB-DAG", "SIB-EXEC", "SIB-DRIVE"],
        aux=["SIB-WAIT", "SIB-BLOCK", "OWN-RUN", "SCH-ARMS", "SCH-TASKDONE", "OWN-WRITEBACK", "GT-GATE", "OWN-EXECFLAG", "SCH-OWNTHREAD", "SIB-CTORARGS", "LCK-RUNFREE", "SCH-WAITORDER"],
        explanation="Sibling agreement: DAG/AsyncDAG (and executor, wait-helper) pairs have equal effect summaries; the sync "
                    "flavour drives the same coroutine with all four arguments; no blocking primitive reachable in the coroutine "
                    "while async futures may be in flight (reports the known exception).",
        not_decided="value equality (as C01); actual responsiveness of the loop",
        trusted_base=SCHED_TB,
    ),
    "C18": dict(
        title="An execution restarted from a cache file reuses, not recomputes, cached results",
        core=["CACHE-FLOW"],
        aux=["CACHE-SHAPE", "CACHE-EXCL", "SCH-PRUNE", "CACHE-PRIORITY", "GT-ALIAS", "GT-POP", "GT-ALIASNORM", "REF-STABLEID", "CACHE-ENTRY"],
        explanation="Flow: the unpickled mapping reaches, entry by entry and overriding existing entries, the results handed to "
                    "the scheduler; writer and reader agree on the shape; the cache_deps_of ids are all excluded on write; cached "
                    "ids are pruned before scheduling.",
        not_decided="picklability of user values; equality of the returned value",
        trusted_base=COMMON_TB + ["pickle round-trips a dict of picklable values"],
    ),
    "C19": dict(
        title="A composed DAG computes the outputs from the supplied intermediate values",
        core=["REF-FIELDS", "REF-KEY", "OWN-COMPOSE"],
        aux=["VAL-COMPOSE", "VAL-COMPOSE-ANC", "VAL-COMPOSE-OVERLAP", "REF-REWIRE", "GT-ALIAS", "GT-POP", "REF-FUNCOPY", "OWN-NODEEPVAL", "GT-NORECURSE", "VAL-STORED"],
        explanation="Rewiring covers every reference field and keeps key paths; in-place edits touch deep copies only; the three "
                    "ValueErrors are reachable with tests not weaker than stated (input-depends-on-input uses the ancestor "
                    "closure).",
        not_decided="exactness of the dependency closure collected for the outputs; value equality",
        trusted_base=COMMON_TB,
    ),
    "C20": dict(
        title="Calling a DAG inside a DAG is equivalent to inlining it",
        core=["REF-PREFIX", "REF-ASDICT", "REF-KEY", "REF-SEED"],
        aux=["LCK-PAIR", "REF-SHAPE", "REF-UNIQ", "REF-FLAGPRED", "REF-GETITEM", "REF-TRACE", "SIB-CTOR", "REF-STABLEID", "REF-SAMENODE", "REF-STUBEXEC", "REF-FUNCOPY", "REF-KWNAME", "VAL-SENTINEL", "REF-SPLICEALL", "REF-ARGORDER", "VAL-STORED", "REF-CALLID", "REF-REBUILDALL"],
        explanation="Every inner id reaching an outer table passes the prefixer exactly once; stub ids are not seeded with "
                    "defaults; asdict restoration of every reference field; return-shape agreement; prefix push/pop paired; "
                    "registration ids call-site unique (reports the known collision).",
        not_decided="equivalence with textual inlining as a behaviour",
        trusted_base=COMMON_TB,
    ),
}
for _p in PROPS.values():
    _p.setdefault("assumptions", _p.get("trusted_base", []))
