"""Role discovery and event model of the scheduler loop.

Everything here is found by *role* (types, API anchors, data flow between statements), never by local names or
positions.  The result is a ``SchedModel`` whose ``paths`` are all feasible head-to-head paths of the scheduler
loop, each a list of events annotated with the branch facts live at that point.
"""
from __future__ import annotations

import ast
from dataclasses import dataclass, field
from typing import Dict, FrozenSet, List, Optional, Set, Tuple

from .cfg import CFG
from .ctx import Ctx, arg_for_param, dotted, names_in
from .loader import FuncInfo, iter_own_nodes, own_walk
from .report import Undecided, norm_src

Clause = FrozenSet[Tuple[str, bool]]

FIRST, ALL = "FIRST_COMPLETED", "ALL_COMPLETED"


@dataclass
class WaitHelper:
    fn: FuncInfo
    kind: str  # 'conc' (concurrent.futures.wait) | 'async' (asyncio.wait)
    p_running: str
    p_mode: Optional[str]
    const_mode: Optional[str]
    p_graph: Optional[str]
    p_runnable: Optional[str]
    ret_index: Dict[str, int]  # role -> index in returned tuple: 'running','runnable','done'
    early_return_on_empty: bool
    wait_call: ast.Call
    awaited: bool
    done_loop: Optional[ast.For]
    checks_result: bool
    check_before_remove: bool
    removes_done: bool
    unions_roots: bool
    notes: List[str] = field(default_factory=list)


@dataclass
class Event:
    kind: str
    data: dict
    node: ast.AST
    facts: Tuple[Clause, ...] = ()
    guards: Tuple[Clause, ...] = ()  # clauses of the enclosing if-chain (structural licence)

    def __repr__(self) -> str:
        d = {k: v for k, v in self.data.items() if k != "call"}
        return f"{self.kind}{d}@{getattr(self.node, 'lineno', '?')}"


@dataclass
class Path:
    nodes: List[Tuple[int, object]]
    events: List[Event]
    feasible: bool
    branches: List[Tuple[str, object]]

    def kinds(self) -> List[str]:
        return [e.kind for e in self.events]

    def index(self, kind: str) -> int:
        ks = self.kinds()
        return ks.index(kind) if kind in ks else -1

    def describe(self) -> List[str]:
        return [f"L{getattr(e.node, 'lineno', '?')}:{e.kind}" + (f"({e.data.get('what', '')})" if e.data.get("what") else "")
                for e in self.events if e.kind != "BRANCH"]


class SchedModel:
    def __init__(self, ctx: Ctx):
        self.ctx = ctx
        self.T = ctx.T
        self.P = ctx.P
        self.EXECNODE = ctx.cls_q("ExecNode")
        self.GRAPH = ctx.cls_q("DiGraphEx")
        self._discover()
        self._paths: Optional[List[Path]] = None

    # ------------------------------------------------------------------ discovery
    def _is_execute_ref(self, f: FuncInfo, e: ast.AST) -> bool:
        if not (isinstance(e, ast.Attribute) and e.attr == "execute"):
            return False
        t = self.ctx.type_of(f, e.value)
        return self.T.is_instance(t, self.EXECNODE)

    def _dispatch_sites_in(self, f: FuncInfo, root: ast.AST) -> List[ast.Call]:
        out = []
        for n in own_walk(root):
            if isinstance(n, ast.Call):
                if self._is_execute_ref(f, n.func):
                    out.append(n)
                elif any(self._is_execute_ref(f, a) for a in n.args) or any(
                    self._is_execute_ref(f, k.value) for k in n.keywords
                ):
                    out.append(n)
        return out

    def _discover(self) -> None:
        cands = []
        for f in self.ctx.funcs():
            for n in iter_own_nodes(f.node):
                if isinstance(n, ast.While):
                    sites = self._dispatch_sites_in(f, n)
                    if sites:
                        cands.append((f, n, sites))
        if len(cands) != 1:
            raise Undecided(f"scheduler loop: expected exactly one loop containing ExecNode.execute dispatches, "
                            f"found {len(cands)}")
        self.fn, self.loop_stmt, self.sites = cands[0]
        f = self.fn
        self.cfg: CFG = self.ctx.cfg(f)
        self.loop = self.cfg.node_of_stmt(self.loop_stmt)
        if self.loop is None:
            raise Undecided("scheduler loop not in CFG")
        # --- selected node variable
        recv = set()
        for s in self.sites:
            refs = [s.func] if self._is_execute_ref(f, s.func) else \
                [a for a in list(s.args) + [k.value for k in s.keywords] if self._is_execute_ref(f, a)]
            for r in refs:
                recv.add(dotted(r.value))
        if len(recv) != 1 or None in recv or "." in next(iter(recv)):
            raise Undecided(f"dispatch receivers are not one local variable: {recv}")
        self.xn = next(iter(recv))
        # --- remaining graph: the graph-typed local whose finished nodes are removed in the loop; the loop test must be on it
        self.G = self._discover_graph()
        self.loop_test_graph: Optional[str] = None
        try:
            self.loop_test_graph = self._graph_from_test(self.loop_stmt.test)
        except Undecided:
            self.loop_test_graph = None
        # --- selection
        self._discover_selection()
        # --- pool, bound
        self._discover_pool()
        # --- dispatch kinds and in-flight sets
        self._discover_dispatches()
        # --- the bound the guards compare the in-flight count with
        self._discover_bound()
        # --- wait helpers
        self._discover_helpers()
        # --- activation predicate
        self._discover_activation()
        # --- results / profiles objects passed to execute
        self._discover_exec_args()

    def _discover_graph(self) -> str:
        cands = set()
        for n in own_walk(self.loop_stmt):
            if isinstance(n, ast.Call) and isinstance(n.func, ast.Attribute) and isinstance(n.func.value, ast.Name):
                if n.func.attr in ("remove_root_node", "remove_node") or \
                        any(isinstance(a, ast.Name) and self.T.is_instance(self.ctx.type_of(self.fn, a), self.GRAPH, maybe=False) for a in n.args):
                    for x in [n.func.value] + [a for a in n.args if isinstance(a, ast.Name)]:
                        if self.T.is_instance(self.ctx.type_of(self.fn, x), self.GRAPH, maybe=False):
                            cands.add(x.id)
        if len(cands) != 1:
            # fall back on the loop test
            return self._graph_from_test(self.loop_stmt.test)
        return next(iter(cands))

    def _graph_from_test(self, test: ast.AST) -> str:
        t = test
        if isinstance(t, ast.Compare) and len(t.ops) == 1 and isinstance(t.comparators[0], ast.Constant):
            if (isinstance(t.ops[0], (ast.Gt, ast.NotEq)) and t.comparators[0].value == 0) or \
                    (isinstance(t.ops[0], ast.GtE) and t.comparators[0].value == 1):
                t = t.left
        if isinstance(t, ast.Call) and dotted(t.func) == "len" and len(t.args) == 1:
            t = t.args[0]
        elif isinstance(t, ast.Call) and isinstance(t.func, ast.Attribute) and t.func.attr in ("number_of_nodes", "order"):
            t = t.func.value
        if not isinstance(t, ast.Name):
            raise Undecided(f"loop test not of the form 'graph non-empty': {norm_src(test)}")
        ty = self.ctx.type_of(self.fn, t)
        if not self.T.is_instance(ty, self.GRAPH):
            raise Undecided(f"loop test variable {t.id} is not a {self.GRAPH}: {ty}")
        return t.id

    def _assignments_in_loop(self, name: str) -> List[ast.AST]:
        out = []
        for n in own_walk(self.loop_stmt):
            if isinstance(n, ast.Assign) and any(isinstance(t, ast.Name) and t.id == name for t in n.targets):
                out.append(n)
            elif isinstance(n, (ast.AnnAssign, ast.AugAssign)) and isinstance(n.target, ast.Name) and n.target.id == name:
                out.append(n)
            elif isinstance(n, ast.NamedExpr) and n.target.id == name:
                out.append(n)
        return out

    def _discover_selection(self) -> None:
        self.sel_subset: Optional[Tuple[str, str]] = None
        asg = self._assignments_in_loop(self.xn)
        self.reselect: Optional[ast.AST] = None
        if len(asg) == 2 and all(isinstance(a_, ast.Assign) for a_ in asg):
            # a second binding of the selected node under a test on the first one: the node that is dispatched is not the node the guards
            # of the iteration were evaluated for (recorded; SCH-SEQ-PRE / SCH-PRIO report it)
            asg.sort(key=lambda a_: getattr(a_, "lineno", 0))
            from .ctx import enclosing_stmt_chain

            under = [x for x in enclosing_stmt_chain(self.loop_stmt, asg[1]) if isinstance(x, ast.If)
                     and any(isinstance(y, ast.Name) and y.id == self.xn for y in ast.walk(x.test))]
            if under and not any(asg[0] is y for x in under for y in ast.walk(x)):
                self.reselect = asg[1]
                asg = asg[:1]
        if len(asg) != 1 or not isinstance(asg[0], ast.Assign):
            raise Undecided(f"selected node variable {self.xn}: expected one plain assignment in the loop, found {len(asg)}")
        self.xn_assign = asg[0]
        v = asg[0].value
        if not (isinstance(v, ast.Subscript) and isinstance(v.value, ast.Name)):
            raise Undecided(f"selected node is not looked up in a node table: {norm_src(asg[0])}")
        self.node_table = v.value.id
        key = v.slice
        if isinstance(key, ast.Name):
            kasg = self._assignments_in_loop(key.id)
            if len(kasg) != 1 or not isinstance(kasg[0], ast.Assign):
                raise Undecided(f"selection key {key.id}: expected one assignment in the loop")
            self.sel_stmt = kasg[0]
            sel = kasg[0].value
            self.sel_var = key.id
        else:
            self.sel_stmt = asg[0]
            sel = key
            self.sel_var = None
        self.sel_expr = sel
        self.sel_form, self.R, self.sel_key = self._selection_form(sel)

    def _selection_form(self, sel: ast.AST):
        """(form, R, key-expression) where form in max|min|sorted_last|sorted_first|any."""
        # max(<nested zero-argument helper>(), key=..): the helper hands back the runnable set itself, or (recorded) a part of it
        if isinstance(sel, ast.Call) and dotted(sel.func) in ("max", "min") and len(sel.args) == 1 and isinstance(sel.args[0], ast.Call) \
                and isinstance(sel.args[0].func, ast.Name) and not sel.args[0].args and not sel.args[0].keywords:
            h = next((g for g in self.P.funcs.values() if g.parent is self.fn and g.name == sel.args[0].func.id), None)
            if h is not None:
                rets = [n.value for n in iter_own_nodes(h.node) if isinstance(n, ast.Return) and n.value is not None]
                whole = {x.id for x in rets if isinstance(x, ast.Name)}
                parts = [x for x in rets if isinstance(x, (ast.SetComp, ast.ListComp, ast.GeneratorExp)) and isinstance(x.generators[0].iter, ast.Name)]
                srcs = whole | {x.generators[0].iter.id for x in parts}
                if rets and len(srcs) == 1 and len(whole) + len(parts) >= 1 and len([x for x in rets if isinstance(x, ast.Name)]) + len(parts) == len(rets):
                    if parts:
                        self.sel_subset = (h.name, norm_src(parts[0])[:100])
                    key = next((k.value for k in sel.keywords if k.arg == "key"), None)
                    return dotted(sel.func), srcs.pop(), key
        if isinstance(sel, ast.Call) and dotted(sel.func) in ("max", "min") and sel.args and isinstance(sel.args[0], ast.Name):
            key = next((k.value for k in sel.keywords if k.arg == "key"), None)
            if len(sel.args) != 1:
                raise Undecided(f"selection with several positional arguments: {norm_src(sel)}")
            return dotted(sel.func), sel.args[0].id, key
        if isinstance(sel, ast.Subscript) and isinstance(sel.value, ast.Call) and dotted(sel.value.func) == "sorted" \
                and sel.value.args and isinstance(sel.value.args[0], ast.Name):
            c = sel.value
            key = next((k.value for k in c.keywords if k.arg == "key"), None)
            rev = next((k.value for k in c.keywords if k.arg == "reverse"), None)
            revv = isinstance(rev, ast.Constant) and rev.value is True
            idx = sel.slice
            iv = None
            if isinstance(idx, ast.Constant):
                iv = idx.value
            elif isinstance(idx, ast.UnaryOp) and isinstance(idx.op, ast.USub) and isinstance(idx.operand, ast.Constant):
                iv = -idx.operand.value
            if iv == -1:
                return ("min" if revv else "max"), c.args[0].id, key
            if iv == 0:
                return ("max" if revv else "min"), c.args[0].id, key
            raise Undecided(f"selection index not first/last: {norm_src(sel)}")
        if isinstance(sel, ast.Call) and dotted(sel.func) == "next" and sel.args and isinstance(sel.args[0], ast.Call) \
                and dotted(sel.args[0].func) == "iter" and isinstance(sel.args[0].args[0], ast.Name):
            return "any", sel.args[0].args[0].id, None
        if isinstance(sel, ast.Call) and isinstance(sel.func, ast.Attribute) and sel.func.attr == "pop" \
                and isinstance(sel.func.value, ast.Name) and not sel.args:
            return "any", sel.func.value.id, None
        raise Undecided(f"unrecognised selection expression: {norm_src(sel)}")

    def _discover_pool(self) -> None:
        f = self.fn
        self.pool_var = None
        self.max_expr = None
        self.pool_ctor = None
        for n in iter_own_nodes(f.node):
            if isinstance(n, ast.Call):
                q = self.T.resolve_callee(f, n)
                sub_ = self.P.classes.get(q) if q else None
                is_sub = sub_ is not None and any((b or "").split(".")[-1] == "ThreadPoolExecutor" for b in sub_.bases) \
                    and "__init__" not in sub_.methods and "submit" not in sub_.methods
                # (a subclass that adds methods but neither its own constructor nor its own submit is the same pool)
                if (q and q.startswith("ext:") and q.endswith("ThreadPoolExecutor")) or is_sub:
                    if self.pool_ctor is not None:
                        raise Undecided("more than one ThreadPoolExecutor constructed in the scheduler")
                    self.pool_ctor = n
        if self.pool_ctor is None:
            raise Undecided("no ThreadPoolExecutor constructed in the scheduler")
        mw = next((k.value for k in self.pool_ctor.keywords if k.arg == "max_workers"), None)
        if mw is None and self.pool_ctor.args:
            mw = self.pool_ctor.args[0]
        self.max_expr = mw
        # variable bound to the pool
        for n in iter_own_nodes(f.node):
            if isinstance(n, ast.Assign) and n.value is self.pool_ctor and isinstance(n.targets[0], ast.Name):
                self.pool_var = n.targets[0].id
            if isinstance(n, (ast.With, ast.AsyncWith)):
                for it in n.items:
                    if it.context_expr is self.pool_ctor and isinstance(it.optional_vars, ast.Name):
                        self.pool_var = it.optional_vars.id
        self.pool_kept_in = None
        if self.pool_var is None:
            # the new pool is stored into a container / an attribute (a cache of pools) and read back from it
            for n in iter_own_nodes(f.node):
                if isinstance(n, ast.Assign) and n.value is self.pool_ctor and isinstance(n.targets[0], (ast.Subscript, ast.Attribute)):
                    self.pool_kept_in = n.targets[0]
            if self.pool_kept_in is not None:
                holder = norm_src(self.pool_kept_in.value)
                for n in iter_own_nodes(f.node):
                    if isinstance(n, ast.Assign) and isinstance(n.targets[0], ast.Name) and isinstance(n.value, (ast.Subscript, ast.Attribute)) \
                            and norm_src(n.value.value) == holder:
                        self.pool_var = n.targets[0].id
        if self.pool_var is None:
            raise Undecided("the pool is not bound to a local variable")

    def _reaches_run_in_executor(self, q: str) -> bool:
        fi = self.P.funcs.get(q)
        if fi is None:
            return False
        for n in iter_own_nodes(fi.node):
            if isinstance(n, ast.Call) and isinstance(n.func, ast.Attribute) and n.func.attr == "run_in_executor":
                return True
        return False

    def _foreign_wrapper(self, q: str) -> Optional[str]:
        """q passes its first parameter (the node function) to an external callable and never uses a pool parameter: the callee's name."""
        fi = self.P.funcs[q]
        a = fi.node.args
        params = [x.arg for x in a.posonlyargs + a.args]
        if not params:
            return None
        fn_param = params[0]
        pool_params = [x.arg for x in a.posonlyargs + a.args + a.kwonlyargs
                       if "Executor" in ast.unparse(x.annotation or ast.Constant(value=""))]
        used_pool = any(isinstance(n, ast.Name) and n.id in pool_params for n in iter_own_nodes(fi.node))
        if used_pool:
            return None
        for n in iter_own_nodes(fi.node):
            if isinstance(n, ast.Call) and any(isinstance(x, ast.Name) and x.id == fn_param for x in n.args):
                cq = self.T.resolve_callee(fi, n)
                if cq is not None and cq.startswith("ext:"):
                    return cq
        return None

    def _discover_dispatches(self) -> None:
        f = self.fn
        self.dispatch: Dict[int, dict] = {}  # id(call) -> {kind, call, stmt, future_var}
        pm = {}
        for n in own_walk(self.loop_stmt):
            for c in ast.iter_child_nodes(n):
                pm[id(c)] = n
        for s in self.sites:
            info = {"call": s, "kind": None, "future_var": None, "awaited": False, "wrapped": None}
            if self._is_execute_ref(f, s.func):
                info["kind"] = "inline"
            else:
                q = self.T.resolve_callee(f, s)
                if isinstance(s.func, ast.Attribute) and s.func.attr == "submit" and dotted(s.func.value) == self.pool_var:
                    info["kind"] = "pool"
                    if not (s.args and self._is_execute_ref(f, s.args[0])):
                        raise Undecided(f"submit() whose first argument is not the node's execute: {norm_src(s)}")
                elif q in self.P.funcs and (self._reaches_run_in_executor(q) or self.P.funcs[q].is_async):
                    # a package wrapper (coroutine) around the submission; SCH-TASKDONE checks that it really uses the pool it is given
                    info["kind"] = "async"
                    info["callee"] = q
                    info["pool_passed"] = any(dotted(a) == self.pool_var for a in list(s.args) + [k.value for k in s.keywords]) or (
                        isinstance(s.func, ast.Attribute) and dotted(s.func.value) == self.pool_var)  # a method of the pool itself
                elif q in self.P.funcs and self._foreign_wrapper(q) is not None:
                    # a package wrapper that hands the node function to an external callable without using the pool it is given
                    info["kind"] = "foreign"
                    info["callee"] = self._foreign_wrapper(q)
                elif q == "ext:functools.partial" and self._direct_submission(s, pm) is not None:
                    # the wrapper written in place:  loop.run_in_executor(<the scheduler's pool>, partial(ctx.run, xn.execute, ..))
                    info["kind"] = "async"
                    info["callee"] = None
                    info["pool_passed"] = True
                    info["direct"] = self._direct_submission(s, pm)
                elif q is not None and q.startswith("ext:") and not any(dotted(a) == self.pool_var for a in list(s.args) + [k.value for k in s.keywords]):
                    # the node function is handed to an external callable that does not involve the scheduler's pool
                    info["kind"] = "foreign"
                    info["callee"] = q
                else:
                    raise Undecided(f"unrecognised dispatch form: {norm_src(s)}")
            # climb to the statement, noting wrappers
            cur: ast.AST = s
            while id(cur) in pm and not isinstance(cur, ast.stmt):
                par = pm[id(cur)]
                if isinstance(par, ast.Await) and info["wrapped"] is None:
                    info["awaited"] = True
                if isinstance(par, ast.Call) and par is not s:
                    d = dotted(par.func) or ""
                    if d.split(".")[-1] in ("ensure_future", "create_task"):
                        info["wrapped"] = d
                    else:
                        info.setdefault("other_wrappers", []).append(d)
                cur = par
            if info.get("direct") is not None:
                cur = info["direct"]
                while id(cur) in pm and not isinstance(cur, ast.stmt):
                    if isinstance(pm[id(cur)], ast.Await):
                        info["awaited"] = True
                    cur = pm[id(cur)]
                info.pop("other_wrappers", None)
            info["stmt"] = cur
            if isinstance(cur, ast.Assign) and len(cur.targets) == 1 and isinstance(cur.targets[0], ast.Name):
                info["future_var"] = cur.targets[0].id
            self.dispatch[id(s)] = info
        # in-flight sets: X.add(v) with v the future var of a pooled dispatch
        self.F: Dict[str, str] = {}
        self.F_add_of: Dict[int, str] = {}  # id(dispatch call) -> F name
        for info in self.dispatch.values():
            if info["kind"] in ("pool", "async", "foreign") and info["future_var"]:
                fv = info["future_var"]
                for n in own_walk(self.loop_stmt):
                    if isinstance(n, ast.Call) and isinstance(n.func, ast.Attribute) and n.func.attr == "add" \
                            and isinstance(n.func.value, ast.Name) and len(n.args) == 1 and dotted(n.args[0]) == fv:
                        self.F[n.func.value.id] = info["kind"]
                        self.F_add_of[id(info["call"])] = n.func.value.id
        # nested zero-argument functions returning a count expression
        self.count_funcs: Dict[str, FrozenSet[str]] = {}
        for g in self.P.funcs.values():
            if g.parent is self.fn and not g.node.args.args and len(g.node.body) >= 1:  # type: ignore[attr-defined]
                body = [b for b in g.node.body if not (isinstance(b, ast.Expr) and isinstance(b.value, ast.Constant))]  # type: ignore[attr-defined]
                if len(body) == 1 and isinstance(body[0], ast.Return) and body[0].value is not None:
                    c = self.count_of(body[0].value, allow_funcs=False)
                    if c is not None:
                        self.count_funcs[g.name] = c

    def _direct_submission(self, part: ast.Call, pm: Dict[int, ast.AST]) -> Optional[ast.Call]:
        """The `X.run_in_executor(<pool>, P)` call that submits the partial `part` (given in place or through a local bound once)."""
        par = pm.get(id(part))
        cands: List[ast.Call] = []
        if isinstance(par, ast.Call):
            cands = [par]
        elif isinstance(par, ast.Assign) and len(par.targets) == 1 and isinstance(par.targets[0], ast.Name):
            v = par.targets[0].id
            if sum(1 for n in own_walk(self.loop_stmt) if isinstance(n, ast.Assign) and dotted(n.targets[0]) == v) == 1:
                cands = [n for n in own_walk(self.loop_stmt) if isinstance(n, ast.Call) and len(n.args) == 2 and dotted(n.args[1]) == v]
        for c in cands:
            if isinstance(c.func, ast.Attribute) and c.func.attr == "run_in_executor" and len(c.args) == 2 \
                    and dotted(c.args[0]) == self.pool_var and (c.args[1] is part or dotted(c.args[1]) is not None):
                return c
        return None

    def _discover_bound(self) -> None:
        """The parameter the in-flight count is compared with (falls back to the pool's max_workers when it is a name)."""
        params = {a.arg for a in self.fn.node.args.args + self.fn.node.args.kwonlyargs + self.fn.node.args.posonlyargs}  # type: ignore[attr-defined]
        cands = []
        for n in own_walk(self.loop_stmt):
            if isinstance(n, ast.Compare) and len(n.ops) == 1:
                for a, b in ((n.left, n.comparators[0]), (n.comparators[0], n.left)):
                    if self.count_of(a) is not None and isinstance(b, ast.Name) and b.id in params:
                        cands.append(b.id)
        self.bound_name: Optional[str] = None
        if cands:
            if len(set(cands)) != 1:
                raise Undecided(f"the in-flight count is compared with several parameters: {sorted(set(cands))}")
            self.bound_name = cands[0]
        elif isinstance(self.max_expr, ast.Name):
            self.bound_name = self.max_expr.id

    def count_of(self, e: ast.AST, allow_funcs: bool = True) -> Optional[FrozenSet[str]]:
        """If e is a sum of len(<set name>) terms (or a call of a nested function returning one): the set names."""
        if isinstance(e, ast.BinOp) and isinstance(e.op, ast.Add):
            a, b = self.count_of(e.left, allow_funcs), self.count_of(e.right, allow_funcs)
            if a is None or b is None or (a & b):
                return None
            return a | b
        if isinstance(e, ast.Call) and dotted(e.func) == "len" and len(e.args) == 1 and isinstance(e.args[0], ast.Name):
            nm = e.args[0].id
            if nm in self.F:
                return frozenset([nm])
            return None
        if isinstance(e, ast.Name) and hasattr(self, "F"):
            d = self._local_def(e.id)
            if d is not None and not isinstance(d, ast.Name):
                return self.count_of(d, allow_funcs)
        if allow_funcs and isinstance(e, ast.Call) and isinstance(e.func, ast.Name) and not e.args and not e.keywords \
                and e.func.id in self.count_funcs:
            return self.count_funcs[e.func.id]
        return None

    def _discover_helpers(self) -> None:
        self.helpers: Dict[str, WaitHelper] = {}
        for n in own_walk(self.loop_stmt):
            if isinstance(n, ast.Call):
                q = self.T.resolve_callee(self.fn, n)
                if q in self.P.funcs and q not in self.helpers:
                    h = analyse_wait_helper(self.ctx, self.P.funcs[q])
                    if h is not None:
                        self.helpers[q] = h
        # direct waits in the loop are not modelled
        for n in own_walk(self.loop_stmt):
            if isinstance(n, ast.Call):
                q = self.T.resolve_callee(self.fn, n) or ""
                if q in ("ext:concurrent.futures.wait", "ext:asyncio.wait"):
                    raise Undecided("the scheduler loop calls a futures wait primitive directly (not through a helper); "
                                    "this form is not modelled")

    def _discover_activation(self) -> None:
        self.activation_funcs: Set[str] = activation_functions(self.ctx)

    def _unused_discover_activation(self) -> None:
        self.activation_funcs = set()
        for q, g in self.P.funcs.items():
            a = g.node.args  # type: ignore[attr-defined]
            ps = a.posonlyargs + a.args
            if g.cls is None and g.parent is None and len(ps) == 2:
                t0 = self.T.env(g).get(ps[0].arg, ("any",))
                if self.T.is_instance(t0, self.EXECNODE, maybe=False):
                    reads_active = any(
                        isinstance(n, ast.Attribute) and n.attr == "active" and dotted(n.value) == ps[0].arg
                        for n in iter_own_nodes(g.node)
                    )
                    rt = self.T.ann(g.module, g.node.returns)  # type: ignore[attr-defined]
                    if reads_active and rt == ("bool",):
                        self.activation_funcs.add(q)

    def _discover_exec_args(self) -> None:
        self.exec_kwargs: List[Dict[str, str]] = []
        for s in self.sites:
            kw = {k.arg: norm_src(k.value) for k in s.keywords if k.arg}
            self.exec_kwargs.append(kw)

    # ------------------------------------------------------------------ atoms and clauses
    def _local_def(self, name: str) -> Optional[ast.AST]:
        """The expression a scheduler-local name stands for, when it is assigned exactly once in the function (an explaining
        variable such as `pool_is_full = n_running() == max_concurrency`)."""
        if name in (self.R, self.G, self.xn) or name in self.F:
            return None
        defs = [n for n in iter_own_nodes(self.fn.node) if isinstance(n, (ast.Assign, ast.AnnAssign))
                and any(isinstance(t, ast.Name) and t.id == name for t in (n.targets if isinstance(n, ast.Assign) else [n.target]))]
        others = [n for n in iter_own_nodes(self.fn.node) if isinstance(n, ast.Name) and n.id == name and isinstance(n.ctx, ast.Store)]
        if len(defs) == 1 and len(others) == 1 and defs[0].value is not None and not isinstance(defs[0].value, ast.Await):
            return defs[0].value
        return None

    def _activation_expr(self, e: ast.AST) -> Optional[bool]:
        """`X.active is None or <truth of X.active.result(..)>` written in place of the activation predicate: ACTIVE."""
        if isinstance(e, ast.BoolOp) and isinstance(e.op, ast.Or) and len(e.values) == 2:
            a, b = e.values
            none_t = isinstance(a, ast.Compare) and len(a.ops) == 1 and isinstance(a.ops[0], ast.Is) and isinstance(a.left, ast.Attribute) \
                and a.left.attr == "active" and dotted(a.left.value) == self.xn and isinstance(a.comparators[0], ast.Constant) \
                and a.comparators[0].value is None
            if isinstance(b, ast.Call) and dotted(b.func) == "bool" and len(b.args) == 1:
                b = b.args[0]
            res_t = isinstance(b, ast.Call) and isinstance(b.func, ast.Attribute) and b.func.attr == "result" \
                and isinstance(b.func.value, ast.Attribute) and b.func.value.attr == "active" and dotted(b.func.value.value) == self.xn
            if none_t and res_t:
                return True
        return None

    def atom(self, e: ast.AST, _depth: int = 0) -> Tuple[str, bool]:
        R, xn = self.R, self.xn
        # unwrap bool(...)
        if isinstance(e, ast.Call) and dotted(e.func) == "bool" and len(e.args) == 1:
            return self.atom(e.args[0], _depth)
        if isinstance(e, ast.Name) and _depth < 3:
            d = self._local_def(e.id)
            if d is not None and not isinstance(d, ast.BoolOp):
                return self.atom(d, _depth + 1)
        if isinstance(e, ast.Name) and e.id == R:
            return ("R_EMPTY", False)
        if isinstance(e, ast.Call) and dotted(e.func) == "len" and e.args and dotted(e.args[0]) == R:
            return ("R_EMPTY", False)
        cnt = self.count_of(e)
        if cnt is not None:
            return (self._n_atom("ZERO", cnt), False)
        if isinstance(e, ast.Attribute) and dotted(e.value) == xn and e.attr == "is_sequential":
            return ("SEQ", True)
        if isinstance(e, ast.Call):
            q = self.T.resolve_callee(self.fn, e)
            if q in self.activation_funcs and e.args and dotted(e.args[0]) == xn:
                return ("ACTIVE", True)
            if q in self.activation_funcs and isinstance(e.func, ast.Attribute) and dotted(e.func.value) == xn:
                return ("ACTIVE", True)
        if isinstance(e, ast.Compare) and len(e.ops) == 1:
            l, op, r = e.left, e.ops[0], e.comparators[0]
            # normalise constant on the right
            if isinstance(l, ast.Constant) and not isinstance(r, ast.Constant):
                l, r = r, l
                op = {ast.Lt: ast.Gt, ast.Gt: ast.Lt, ast.LtE: ast.GtE, ast.GtE: ast.LtE}.get(type(op), type(op))()
            lenR = isinstance(l, ast.Call) and dotted(l.func) == "len" and l.args and dotted(l.args[0]) == R
            if lenR and isinstance(r, ast.Constant) and isinstance(r.value, int):
                return self._cmp_zero("R_EMPTY", op, r.value, ("?" + norm_src(e), True))
            cl = self.count_of(l)
            if cl is not None:
                if isinstance(r, ast.Constant) and isinstance(r.value, int):
                    return self._cmp_zero(self._n_atom("ZERO", cl), op, r.value, ("?" + norm_src(e), True))
                if self.bound_name is not None and dotted(r) == self.bound_name:
                    full = self._n_atom("FULL", cl)
                    if isinstance(op, (ast.Eq, ast.GtE)):
                        return (full, True)
                    if isinstance(op, (ast.Lt, ast.NotEq)):
                        return (full, False)
                    return ("?" + norm_src(e), True)
            cr = self.count_of(r)
            if cr is not None and self.bound_name is not None and dotted(l) == self.bound_name:
                full = self._n_atom("FULL", cr)
                if isinstance(op, (ast.Eq, ast.LtE)):
                    return (full, True)
                if isinstance(op, (ast.Gt, ast.NotEq)):
                    return (full, False)
                return ("?" + norm_src(e), True)
            # resource tests
            res = self._resource_test(l, r)
            if res is not None and isinstance(op, (ast.Eq, ast.Is)):
                return ("RES:" + res, True)
            if res is not None and isinstance(op, (ast.NotEq, ast.IsNot)):
                return ("RES:" + res, False)
        return ("?" + norm_src(e), True)

    def _n_atom(self, what: str, sets: FrozenSet[str]) -> str:
        if sets == frozenset(self.F):
            return f"N_{what}"
        return f"N_{what}[{'+'.join(sorted(sets))}]"

    @staticmethod
    def _cmp_zero(atom: str, op: ast.cmpop, c: int, unknown):
        # (atom, True) means "count == 0"
        if (isinstance(op, ast.Eq) and c == 0) or (isinstance(op, ast.Lt) and c == 1) or (isinstance(op, ast.LtE) and c == 0):
            return (atom, True)
        if (isinstance(op, ast.NotEq) and c == 0) or (isinstance(op, ast.Gt) and c == 0) or (isinstance(op, ast.GtE) and c == 1):
            return (atom, False)
        return unknown

    def _resource_test(self, a: ast.AST, b: ast.AST) -> Optional[str]:
        for x, y in ((a, b), (b, a)):
            if isinstance(x, ast.Attribute) and x.attr == "resource" and dotted(x.value) == self.xn:
                d = dotted(y)
                if d and "Resource" in d.split("."):
                    return d.split(".")[-1]
        return None

    def clauses(self, test: ast.AST, val: bool, _depth: int = 0) -> List[Clause]:
        if isinstance(test, ast.UnaryOp) and isinstance(test.op, ast.Not):
            return self.clauses(test.operand, not val, _depth)
        if isinstance(test, ast.Name) and _depth < 3:
            d = self._local_def(test.id)
            if d is not None:
                return self.clauses(d, val, _depth + 1)
        if self._activation_expr(test):
            return [frozenset([("ACTIVE", val)])]
        # the negation normal form of the same expression: X.active is not None and not <truth>
        if isinstance(test, ast.BoolOp) and isinstance(test.op, ast.And) and len(test.values) == 2:
            from .loader import _neg

            if self._activation_expr(_neg(test)):
                return [frozenset([("ACTIVE", not val)])]
        if isinstance(test, ast.BoolOp):
            parts = [self.clauses(v, val) for v in test.values]
            conj = (isinstance(test.op, ast.And) and val) or (isinstance(test.op, ast.Or) and not val)
            if conj:
                return [c for p in parts for c in p]
            lits: List[Tuple[str, bool]] = []
            for p in parts:
                if len(p) == 1:
                    lits += list(p[0])
                else:
                    return [frozenset([("?" + norm_src(test), val)])]
            return [frozenset(lits)]
        a, pol = self.atom(test)
        return [frozenset([(a, pol == val)])]

    # ------------------------------------------------------------------ events
    def _xn_id(self, e: ast.AST) -> bool:
        """e denotes the id of the selected node."""
        d = dotted(e)
        if d in (f"{self.xn}.id", f"{self.xn}.id_"):
            return True
        return self.sel_var is not None and d == self.sel_var

    def _stmt_events(self, s: ast.AST) -> List[Event]:
        ev: List[Event] = []
        f = self.fn
        G, R = self.G, self.R
        # --- selection
        if s is self.sel_stmt:
            ev.append(Event("SELECT", {"form": self.sel_form, "what": self.sel_form}, s))
        if s is self.xn_assign and s is not self.sel_stmt:
            ev.append(Event("LOOKUP", {}, s))
        handled_calls: Set[int] = set()
        # --- statement-level forms
        if isinstance(s, ast.AugAssign) and isinstance(s.target, ast.Name) and s.target.id == R:
            if isinstance(s.op, ast.BitOr):
                ev += self._r_add(s, s.value, handled_calls)
            elif isinstance(s.op, ast.Sub):
                rm = isinstance(s.value, ast.Set) and len(s.value.elts) == 1 and self._xn_id(s.value.elts[0])
                ev.append(Event("R_REMOVE", {"selected": bool(rm), "what": norm_src(s.value)}, s))
            else:
                ev.append(Event("R_WRITE", {"what": norm_src(s)}, s))
        elif isinstance(s, ast.Assign) and len(s.targets) == 1:
            tg = s.targets[0]
            v = s.value
            inner = v.value if isinstance(v, ast.Await) else v
            if isinstance(inner, ast.Call) and (self.T.resolve_callee(f, inner) in self.helpers):
                ev.append(self._wait_event(s, inner, tg, isinstance(v, ast.Await)))
                handled_calls.add(id(inner))
            elif isinstance(tg, ast.Name) and tg.id == R:
                if isinstance(v, ast.BinOp) and isinstance(v.op, ast.BitOr) and dotted(v.left) == R:
                    ev += self._r_add(s, v.right, handled_calls)
                elif isinstance(v, ast.Call) and isinstance(v.func, ast.Attribute) and v.func.attr == "union" \
                        and dotted(v.func.value) == R and len(v.args) == 1:
                    ev += self._r_add(s, v.args[0], handled_calls)
                else:
                    ev.append(Event("R_WRITE", {"what": norm_src(s)}, s))
            elif isinstance(tg, ast.Name) and tg.id in self.F:
                ev.append(Event("F_WRITE", {"set": tg.id, "what": norm_src(s)}, s))
            elif isinstance(tg, ast.Name) and tg.id == G:
                ev.append(Event("G_WRITE", {"what": norm_src(s)}, s))
            elif isinstance(tg, ast.Subscript) and isinstance(tg.value, ast.Name):
                ev.append(Event("ITEM_WRITE", {"container": tg.value.id, "selected": self._xn_id(tg.slice),
                                               "value": norm_src(v)}, s))
            elif isinstance(tg, ast.Tuple) and any(isinstance(t, ast.Name) and t.id in (R, G) or
                                                   (isinstance(t, ast.Name) and t.id in self.F) for t in tg.elts):
                ev.append(Event("STATE_WRITE", {"what": norm_src(s)}, s))
        elif isinstance(s, ast.Continue):
            ev.append(Event("CONTINUE", {}, s))
        elif isinstance(s, ast.Break):
            ev.append(Event("BREAK", {}, s))
        elif isinstance(s, ast.Return):
            ev.append(Event("RETURN", {}, s))
        elif isinstance(s, ast.Delete):
            ev.append(Event("STATE_WRITE", {"what": norm_src(s)}, s))
        # --- calls inside the statement
        for c in own_walk(s):
            if not isinstance(c, ast.Call) or id(c) in handled_calls:
                continue
            if id(c) in self.dispatch:
                info = self.dispatch[id(c)]
                ev.append(Event("DISPATCH", {"kind": info["kind"], "what": info["kind"], "info": info}, c))
                continue
            q = self.T.resolve_callee(f, c)
            if q in self.helpers:
                # a helper call whose result is not bound by a plain tuple assignment
                ev.append(self._wait_event(s, c, None, False))
                continue
            if isinstance(c.func, ast.Attribute) and isinstance(c.func.value, ast.Name):
                recv, meth = c.func.value.id, c.func.attr
                if recv == R:
                    if meth in ("remove", "discard") and len(c.args) == 1:
                        ev.append(Event("R_REMOVE", {"selected": self._xn_id(c.args[0]), "what": norm_src(c.args[0])}, c))
                    elif meth in ("update",) and len(c.args) == 1:
                        ev += self._r_add(s, c.args[0], handled_calls)
                    elif meth in ("add", "clear", "pop", "difference_update", "intersection_update",
                                  "symmetric_difference_update"):
                        ev.append(Event("R_WRITE", {"what": norm_src(c)}, c))
                elif recv in self.F:
                    if meth == "add":
                        ev.append(Event("ADD", {"set": recv, "what": recv, "arg": dotted(c.args[0]) if c.args else None}, c))
                    elif meth in ("remove", "discard", "clear", "pop", "update", "difference_update"):
                        ev.append(Event("F_WRITE", {"set": recv, "what": norm_src(c)}, c))
                elif recv == G:
                    if meth == "remove_root_node":
                        ev.append(Event("G_REMOVE", {"how": meth, "selected": bool(c.args) and self._xn_id(c.args[0]),
                                                     "united": False, "what": "DROPPED"}, c))
                    elif meth in ("remove_node", "remove_nodes_from", "remove_recursively", "remove_any_root_node",
                                  "clear", "remove_edge", "remove_edges_from", "add_node", "add_edge", "add_edges_from",
                                  "add_nodes_from", "add_exec_node"):
                        ev.append(Event("G_MUTATE", {"how": meth, "what": norm_src(c)}, c))
            elif q in self.P.funcs:
                # a package function receiving scheduler state: not modelled
                passed = {dotted(a) for a in list(c.args) + [k.value for k in c.keywords]}
                if passed & ({G, R} | set(self.F)) and q not in self.activation_funcs:
                    ev.append(Event("UNMODELLED", {"what": norm_src(c)}, c))
        return ev

    def _r_add(self, s: ast.AST, rhs: ast.AST, handled: Set[int]) -> List[Event]:
        G = self.G
        if isinstance(rhs, ast.Call) and isinstance(rhs.func, ast.Attribute) and rhs.func.attr == "remove_root_node" \
                and dotted(rhs.func.value) == G and len(rhs.args) == 1:
            handled.add(id(rhs))
            return [Event("G_REMOVE", {"how": "remove_root_node", "selected": self._xn_id(rhs.args[0]), "united": True,
                                       "what": "united"}, rhs),
                    Event("R_ADD", {"origin": "released", "what": "released"}, s)]
        return [Event("R_ADD", {"origin": "other", "what": norm_src(rhs)}, s)]

    def _wait_event(self, s: ast.AST, call: ast.Call, target: Optional[ast.AST], awaited: bool) -> Event:
        q = self.T.resolve_callee(self.fn, call)
        h = self.helpers[q]
        fdef = h.fn.node

        def arg(p: Optional[str]) -> Optional[ast.AST]:
            return arg_for_param(fdef, call, p) if p else None

        a_run, a_mode, a_graph, a_R = arg(h.p_running), arg(h.p_mode), arg(h.p_graph), arg(h.p_runnable)
        mode = h.const_mode
        if a_mode is not None:
            d = dotted(a_mode) or ""
            last = d.split(".")[-1]
            mode = last if last in (FIRST, ALL, "FIRST_EXCEPTION") else ("?" + norm_src(a_mode))
        fset = dotted(a_run) if a_run is not None else None
        data = {"helper": q, "kind": h.kind, "set": fset, "mode": mode, "what": f"{fset},{mode}",
                "graph_ok": a_graph is not None and dotted(a_graph) == self.G,
                "runnable_in_ok": a_R is not None and dotted(a_R) == self.R,
                "awaited": awaited, "needs_await": h.fn.is_async}
        # rebinding of the returned tuple
        rebind_run = rebind_R = False
        if isinstance(target, ast.Tuple):
            names = [dotted(t) for t in target.elts]
            if "running" in h.ret_index and h.ret_index["running"] < len(names):
                rebind_run = names[h.ret_index["running"]] == fset
            if "runnable" in h.ret_index and h.ret_index["runnable"] < len(names):
                rebind_R = names[h.ret_index["runnable"]] == self.R
        data["rebind_running"] = rebind_run
        data["rebind_runnable"] = rebind_R
        return Event("WAIT", data, call)

    # ------------------------------------------------------------------ paths
    def paths(self) -> List[Path]:
        if self._paths is None:
            self._paths = self._enumerate()
        return self._paths

    def _guard_clauses(self, stmt_node: ast.AST) -> Tuple[Clause, ...]:
        """Clauses of the chain of enclosing ifs (inside the loop) of a statement."""
        chain = self._if_chain.get(id(stmt_node), ())
        out: List[Clause] = []
        for test, val in chain:
            out += self.clauses(test, val)
        return tuple(out)

    def _build_if_chain(self) -> None:
        self._if_chain: Dict[int, Tuple[Tuple[ast.AST, bool], ...]] = {}

        # innermost chain wins: process so that nested statements overwrite
        def go2(stmts, chain):
            for s in stmts:
                for n in own_walk(s):
                    self._if_chain[id(n)] = chain
                if isinstance(s, ast.If):
                    go2(s.body, chain + ((s.test, True),))
                    go2(s.orelse, chain + ((s.test, False),))
                elif isinstance(s, ast.While):
                    go2(s.body, chain + ((s.test, True),))
                elif isinstance(s, (ast.For, ast.AsyncFor, ast.With, ast.AsyncWith)):
                    go2(s.body, chain)
                elif isinstance(s, ast.Try):
                    go2(s.body, chain)
                    for h in s.handlers:
                        go2(h.body, chain)
                    go2(s.finalbody, chain)

        go2(self.loop_stmt.body, ())

    def _kill(self, facts: List[Clause], atoms_prefix: Tuple[str, ...]) -> List[Clause]:
        return [c for c in facts if not any(a.startswith(atoms_prefix) for a, _ in c)]

    def _enumerate(self) -> List[Path]:
        self._build_if_chain()
        cfg = self.cfg
        raw = cfg.loop_paths(self.loop)
        if not raw:
            raise Undecided("no path through the scheduler loop")
        out: List[Path] = []
        for p in raw:
            facts: List[Clause] = []
            events: List[Event] = []
            feasible = True
            branches: List[Tuple[str, object]] = []
            for (n, lab) in p:
                k = cfg.kind[n]
                a = cfg.node[n]
                if n == self.loop:
                    continue
                if k == "COND" or (k == "LOOP" and lab in (True, False)):
                    cl = self.clauses(a, bool(lab))
                    for c in cl:
                        if len(c) == 1:
                            (atom, v), = c
                            if frozenset([(atom, not v)]) in facts:
                                feasible = False
                        else:
                            # a disjunction all of whose literals are contradicted
                            if all(frozenset([(at, not v)]) in facts for at, v in c):
                                feasible = False
                    facts = facts + cl
                    events.append(Event("BRANCH", {"test": norm_src(a), "taken": lab, "clauses": cl}, a, tuple(facts)))
                    branches.append((norm_src(a), lab))
                elif k in ("STMT", "WITH", "TRY", "FOR", "EXCEPT"):
                    if a is None:
                        continue
                    node = a
                    if k in ("WITH", "TRY", "EXCEPT"):
                        continue
                    if k == "FOR":
                        node = a.iter  # type: ignore[attr-defined]
                    for e in self._stmt_events(node):
                        e.facts = tuple(facts)
                        e.guards = self._guard_clauses(e.node)
                        events.append(e)
                        if e.kind in ("WAIT", "ADD", "F_WRITE", "STATE_WRITE", "UNMODELLED"):
                            facts = self._kill(facts, ("N_",))
                        if e.kind in ("WAIT", "G_REMOVE", "R_REMOVE", "R_ADD", "R_WRITE", "STATE_WRITE", "UNMODELLED"):
                            facts = self._kill(facts, ("R_EMPTY",))
                        if e.kind in ("SELECT", "LOOKUP"):
                            facts = self._kill(facts, ("SEQ", "ACTIVE", "RES:"))
            out.append(Path(p, events, feasible, branches))
        return out

    # ------------------------------------------------------------------ pre-loop statements
    def _around_loop(self) -> Tuple[List[ast.stmt], List[ast.stmt]]:
        """Statements executed before / after the loop on the normal path. The loop may sit inside `with` blocks or the body of a
        `try` at the top level of the function (a pool managed by `with`, a release in `finally`): those are read through."""
        def split(stmts: List[ast.stmt]) -> Optional[Tuple[List[ast.stmt], List[ast.stmt]]]:
            for i, s in enumerate(stmts):
                if s is self.loop_stmt:
                    return list(stmts[:i]), list(stmts[i + 1:])
                inner = None
                if isinstance(s, (ast.With, ast.AsyncWith)):
                    inner = split(s.body)
                    tail: List[ast.stmt] = []
                elif isinstance(s, ast.Try):
                    inner = split(s.body)
                    tail = list(s.orelse) + list(s.finalbody)
                if inner is not None:
                    return list(stmts[:i]) + inner[0], inner[1] + tail + list(stmts[i + 1:])
            return None

        res = split(self.fn.node.body)  # type: ignore[attr-defined]
        if res is None:
            raise Undecided("scheduler loop is not a top-level statement of the scheduler function")
        return res

    def preloop_statements(self) -> List[ast.stmt]:
        return self._around_loop()[0]

    def postloop_statements(self) -> List[ast.stmt]:
        return self._around_loop()[1]


def activation_functions(ctx: Ctx) -> Set[str]:
    """Package functions taking (node, results) and deciding from the node's activation reference whether it runs."""
    def build():
        EX = ctx.cls_q("ExecNode")
        out: Set[str] = set()
        for q, g in ctx.P.funcs.items():
            a = g.node.args  # type: ignore[attr-defined]
            ps = a.posonlyargs + a.args
            if g.cls is None and g.parent is None and len(ps) == 2:
                t0 = ctx.T.env(g).get(ps[0].arg, ("any",))
                if ctx.T.is_instance(t0, EX, maybe=False):
                    reads_active = any(isinstance(n, ast.Attribute) and n.attr == "active" and dotted(n.value) == ps[0].arg
                                       for n in iter_own_nodes(g.node))
                    rt = ctx.T.ann(g.module, g.node.returns)  # type: ignore[attr-defined]
                    if reads_active and rt == ("bool",):
                        out.add(q)
            # the same predicate written as a method of the node class: (self, results) -> bool reading self.active
            if g.cls is not None and g.parent is None and len(ps) == 2 and any(c_.qualname == EX for c_ in ctx.P.mro(g.cls)) \
                    and not g.node.decorator_list:  # type: ignore[attr-defined]
                reads_active = any(isinstance(n, ast.Attribute) and n.attr == "active" and dotted(n.value) == ps[0].arg
                                   for n in iter_own_nodes(g.node))
                rt = ctx.T.ann(g.module, g.node.returns)  # type: ignore[attr-defined]
                derefs = any(isinstance(n, ast.Call) and isinstance(n.func, ast.Attribute) and n.func.attr == "result" for n in iter_own_nodes(g.node))
                if reads_active and derefs and rt == ("bool",):
                    out.add(q)
        return out
    return ctx.memo("activation_functions", build)


# ---------------------------------------------------------------------- wait helper summaries
def _inline_simple_calls(ctx: Ctx, h: FuncInfo) -> FuncInfo:
    """A copy of h in which every top-level statement `x = g(a, b, ...)` / `g(a, b, ...)` calling a module-level package function g
    (straight-line or structured body, a single `return <name>` as its last statement, arguments that are plain names) is replaced
    by g's body: the helper is then summarised as if the shared part had been written in place."""
    import copy as _copy

    changed = False
    new_body: List[ast.stmt] = []
    for st in h.node.body:  # type: ignore[attr-defined]
        call = None
        if isinstance(st, (ast.Assign, ast.Expr)):
            v = st.value
            if isinstance(v, ast.Await):
                v = v.value
            if isinstance(v, ast.Call) and not isinstance(st.value, ast.Await):
                call = v
        g = None
        if call is not None:
            q = ctx.T.resolve_callee(h, call)
            cand = ctx.P.funcs.get(q) if q else None
            if cand is not None and cand.cls is None and cand.parent is None and cand.qualname != h.qualname and not cand.is_async:
                g = cand
        if g is None:
            new_body.append(st)
            continue
        gb = [x for x in g.node.body if not (isinstance(x, ast.Expr) and isinstance(x.value, ast.Constant))]  # type: ignore[attr-defined]
        rets = [x for x in ast.walk(g.node) if isinstance(x, ast.Return)]
        last_ret = gb[-1] if gb and isinstance(gb[-1], ast.Return) else None
        if len(rets) > 1 or (rets and rets[0] is not last_ret) or any(isinstance(x, (ast.Yield, ast.YieldFrom, ast.Await)) for x in ast.walk(g.node)):
            new_body.append(st)
            continue
        ga = g.node.args  # type: ignore[attr-defined]
        gparams = [x.arg for x in ga.posonlyargs + ga.args + ga.kwonlyargs]
        actual: Dict[str, str] = {}
        ok = not ga.vararg and not ga.kwarg and len(call.args) <= len(gparams)
        for p_, a_ in zip(gparams, call.args):
            if isinstance(a_, ast.Name):
                actual[p_] = a_.id
            else:
                ok = False
        for k in call.keywords:
            if k.arg in gparams and isinstance(k.value, ast.Name):
                actual[k.arg] = k.value.id
            else:
                ok = False
        if not ok or set(actual) != set(gparams):
            new_body.append(st)
            continue
        locals_g = {x.id for x in ast.walk(g.node) if isinstance(x, ast.Name) and isinstance(x.ctx, ast.Store)} - set(gparams)

        class _Ren(ast.NodeTransformer):
            def visit_Name(self, node: ast.Name):
                if node.id in actual:
                    return ast.copy_location(ast.Name(id=actual[node.id], ctx=node.ctx), node)
                if node.id in locals_g:
                    return ast.copy_location(ast.Name(id="_inl_" + node.id, ctx=node.ctx), node)
                return node

        body = [_Ren().visit(_copy.deepcopy(x)) for x in (gb[:-1] if last_ret is not None else gb)]
        if last_ret is not None and last_ret.value is not None and isinstance(st, ast.Assign):
            rv = _Ren().visit(_copy.deepcopy(last_ret.value))
            # `x = x` carries no information
            if not (isinstance(rv, ast.Name) and len(st.targets) == 1 and isinstance(st.targets[0], ast.Name) and st.targets[0].id == rv.id):
                body.append(ast.copy_location(ast.Assign(targets=st.targets, value=rv), st))
        new_body += body
        changed = True
    if not changed:
        return h
    node = _copy.copy(h.node)
    node.body = new_body  # type: ignore[attr-defined]
    ast.fix_missing_locations(node)
    return FuncInfo(h.qualname + "~inlined", h.module, node, h.cls, h.parent)


def analyse_wait_helper(ctx: Ctx, h: FuncInfo) -> Optional[WaitHelper]:
    T = ctx.T
    h = _inline_simple_calls(ctx, h)
    wait_call = None
    kind = None
    awaited = False
    unpacked = {id(a_.value.value if isinstance(a_.value, ast.Await) else a_.value) for a_ in iter_own_nodes(h.node)
                if isinstance(a_, ast.Assign) and isinstance(a_.targets[0], (ast.Tuple, ast.List)) and len(a_.targets[0].elts) == 2}
    for n in iter_own_nodes(h.node):
        if isinstance(n, ast.Call):
            q = T.resolve_callee(h, n) or ""
            if q in ("ext:concurrent.futures.wait", "ext:asyncio.wait"):
                # the wait whose (done, pending) result is used is THE wait of the helper; any other one is reported as a second wait
                if wait_call is None or (id(n) in unpacked and id(wait_call) not in unpacked):
                    wait_call, kind = n, ("conc" if q == "ext:concurrent.futures.wait" else "async")
    if wait_call is None:
        return None
    params = [a.arg for a in h.node.args.posonlyargs + h.node.args.args + h.node.args.kwonlyargs]  # type: ignore[attr-defined]
    for n in iter_own_nodes(h.node):
        if isinstance(n, ast.Await) and n.value is wait_call:
            awaited = True
    a_run = wait_call.args[0] if wait_call.args else next((k.value for k in wait_call.keywords if k.arg in ("fs",)), None)
    if not (isinstance(a_run, ast.Name) and a_run.id in params):
        raise Undecided(f"{h.short}: the waited set is not a parameter: {norm_src(wait_call)}")
    p_running = a_run.id
    a_mode = next((k.value for k in wait_call.keywords if k.arg == "return_when"), None)
    if a_mode is None and len(wait_call.args) >= 3:
        a_mode = wait_call.args[2]
    p_mode = const_mode = None
    if a_mode is None:
        const_mode = ALL  # the library default
    elif isinstance(a_mode, ast.Name) and a_mode.id in params:
        p_mode = a_mode.id
    else:
        d = (dotted(a_mode) or "").split(".")[-1]
        const_mode = d if d in (FIRST, ALL, "FIRST_EXCEPTION") else "?" + norm_src(a_mode)
    # the statement binding (done_new, pending)
    bind = None
    for n in iter_own_nodes(h.node):
        if isinstance(n, ast.Assign):
            v = n.value.value if isinstance(n.value, ast.Await) else n.value
            if v is wait_call:
                bind = n
    notes: List[str] = []
    done_new = None
    if bind is None or not isinstance(bind.targets[0], ast.Tuple) or len(bind.targets[0].elts) != 2:
        raise Undecided(f"{h.short}: result of the wait primitive is not unpacked into (done, pending)")
    d0, d1 = bind.targets[0].elts
    done_new = dotted(d0)
    p_pending = dotted(d1)
    if p_pending is None:
        raise Undecided(f"{h.short}: the pending set is not bound to a name")
    if p_pending != p_running and any(isinstance(x, (ast.Assign, ast.AugAssign)) and x is not bind and any(
            isinstance(y, ast.Name) and y.id == p_pending and isinstance(y.ctx, ast.Store) for y in ast.walk(x)) for x in iter_own_nodes(h.node)):
        raise Undecided(f"{h.short}: the pending set is bound to '{p_pending}' and re-bound afterwards")
    # early return when the set is empty, before the wait
    early = False
    for s in h.node.body:  # type: ignore[attr-defined]
        if any(x is wait_call for x in ast.walk(s)):
            break
        if isinstance(s, ast.If) and _is_empty_test(s.test, p_running) and s.body and isinstance(s.body[-1], ast.Return):
            early = True
    if not early:
        # the same guard as an enclosing condition: the wait is only reached with a non-empty set
        from .ctx import enclosing_stmt_chain
        from .rules.val import reach_conditions

        st_ = next((x for x in reversed(enclosing_stmt_chain(h.node, wait_call)) if isinstance(x, ast.stmt)), None)
        for c_, pol_ in (reach_conditions(h.node, st_) or []) if st_ is not None else []:
            src_ = norm_src(c_)
            if (not pol_ and _is_empty_test(c_, p_running)) or \
                    (pol_ and src_ in (p_running, f"len({p_running})", f"len({p_running}) != 0", f"len({p_running}) > 0", f"len({p_running}) >= 1",
                                       f"0 != len({p_running})", f"0 < len({p_running})")):
                early = True
    # graph / runnable parameters and the done loop
    GRAPH = ctx.cls_q("DiGraphEx")
    p_graph = next((p for p in params if T.is_instance(T.env(h).get(p, ("any",)), GRAPH)), None)
    done_loop = None
    for n in iter_own_nodes(h.node):
        if isinstance(n, ast.For) and dotted(n.iter) == done_new:
            done_loop = n
    checks = before = removes = unions = False
    p_runnable = None
    if done_loop is not None and isinstance(done_loop.target, ast.Name):
        derived = {done_loop.target.id}
        order: List[Tuple[str, ast.AST]] = []
        for s in done_loop.body:
            for n in own_walk(s):
                if isinstance(n, ast.Assign) and len(n.targets) == 1 and isinstance(n.targets[0], ast.Name) \
                        and (names_in(n.value) & derived):
                    derived.add(n.targets[0].id)
            for n in own_walk(s):
                if isinstance(n, ast.Call) and isinstance(n.func, ast.Attribute):
                    if n.func.attr == "result" and not n.args and (names_in(n.func.value) & derived):
                        order.append(("check", n))
                    if n.func.attr in ("remove_root_node", "remove_node") and dotted(n.func.value) == p_graph \
                            and n.args and (names_in(n.args[0]) & derived):
                        order.append(("remove", n))
                if isinstance(n, ast.AugAssign) and isinstance(n.op, ast.BitOr) and isinstance(n.target, ast.Name) \
                        and n.target.id in params and isinstance(n.value, ast.Call) \
                        and isinstance(n.value.func, ast.Attribute) and n.value.func.attr == "remove_root_node":
                    p_runnable = n.target.id
                    unions = True
        if p_runnable is None:
            # accumulate-then-merge: L (local set) collects the released roots in the loop, `param |= L` after it
            acc = None
            for s in done_loop.body:
                for n in own_walk(s):
                    if isinstance(n, ast.AugAssign) and isinstance(n.op, ast.BitOr) and isinstance(n.target, ast.Name) \
                            and n.target.id not in params and isinstance(n.value, ast.Call) and isinstance(n.value.func, ast.Attribute) \
                            and n.value.func.attr == "remove_root_node":
                        acc = n.target.id
                    if isinstance(n, ast.Call) and isinstance(n.func, ast.Attribute) and n.func.attr == "update" and isinstance(n.func.value, ast.Name) \
                            and n.func.value.id not in params and n.args and isinstance(n.args[0], ast.Call) \
                            and isinstance(n.args[0].func, ast.Attribute) and n.args[0].func.attr == "remove_root_node":
                        acc = n.func.value.id
                    if isinstance(n, ast.Assign) and isinstance(n.targets[0], ast.Name) and isinstance(n.value, ast.Call) \
                            and isinstance(n.value.func, ast.Attribute) and n.value.func.attr == "remove_root_node":
                        notes.append(f"released roots are assigned to '{n.targets[0].id}' inside the loop (overwritten on every iteration)")
            if acc is not None:
                after = h.node.body[h.node.body.index(done_loop) + 1:] if done_loop in h.node.body else []
                for s in after:
                    for n in own_walk(s):
                        if isinstance(n, ast.AugAssign) and isinstance(n.op, ast.BitOr) and isinstance(n.target, ast.Name) \
                                and n.target.id in params and dotted(n.value) == acc:
                            p_runnable = n.target.id
                            unions = True
                        if isinstance(n, ast.Call) and isinstance(n.func, ast.Attribute) and n.func.attr == "update" \
                                and dotted(n.func.value) in params and n.args and dotted(n.args[0]) == acc:
                            p_runnable = dotted(n.func.value)
                            unions = True
        kinds = [k for k, _ in order]
        checks = "check" in kinds
        removes = "remove" in kinds
        before = checks and (not removes or kinds.index("check") < kinds.index("remove"))
        # the check must not be inside a try that swallows
        for k, n in order:
            if k == "check":
                for s in done_loop.body:
                    for t in own_walk(s):
                        if isinstance(t, ast.Try) and any(x is n for x in ast.walk(t)) and t.handlers:
                            notes.append("result() is inside a try/except")
                            checks = False
    # returned tuple
    ret_index: Dict[str, int] = {}
    rets = [n for n in iter_own_nodes(h.node) if isinstance(n, ast.Return)]
    final = rets[-1] if rets else None
    if final is not None and isinstance(final.value, ast.Tuple):
        for i, e in enumerate(final.value.elts):
            d = dotted(e)
            if d == p_running or d == p_pending:
                ret_index["running"] = i
            elif p_runnable and d == p_runnable:
                ret_index["runnable"] = i
            else:
                ret_index.setdefault("done", i)
    # the pending set is the one the wait primitive returned: any later re-binding of it (e.g. "those not done()") can drop a
    # future that finished after the wait returned and was therefore not pruned
    for n in iter_own_nodes(h.node):
        if isinstance(n, (ast.Assign, ast.AugAssign)) and n is not bind and getattr(n, "lineno", 0) > getattr(bind, "lineno", 0):
            tgs = n.targets if isinstance(n, ast.Assign) else [n.target]
            flat = []
            for t in tgs:
                flat += list(t.elts) if isinstance(t, (ast.Tuple, ast.List)) else [t]
            if any(isinstance(t, ast.Name) and t.id == p_running for t in flat):
                notes.append("PENDING-REBOUND: " + norm_src(n)[:100])
    # every future of the done set is processed: the loop over it is never left early
    if done_loop is not None:
        for x in own_walk(done_loop):
            if isinstance(x, (ast.Break, ast.Return)):
                notes.append("EARLY-EXIT: " + norm_src(x)[:60])
    # the wait blocks until the return_when condition holds: a timeout turns it into a poll that may return with nothing done
    tmo = next((k.value for k in wait_call.keywords if k.arg == "timeout"), None)
    if tmo is None and kind == "conc" and len(wait_call.args) >= 2:
        tmo = wait_call.args[1]
    if tmo is not None and not (isinstance(tmo, ast.Constant) and tmo.value is None):
        passed = True
        if isinstance(tmo, ast.Name) and tmo.id in params:
            # a parameter that defaults to None and that no caller in the package ever supplies is no timeout
            a_ = h.node.args
            names_ = [x.arg for x in a_.posonlyargs + a_.args]
            dflt = dict(zip(reversed(names_), reversed(a_.defaults)))
            dflt.update({x.arg: d for x, d in zip(a_.kwonlyargs, a_.kw_defaults) if d is not None})
            d0 = dflt.get(tmo.id)
            if isinstance(d0, ast.Constant) and d0.value is None:
                pos = names_.index(tmo.id) if tmo.id in names_ else None
                passed = any((pos is not None and len(c.args) > pos) or any(k.arg == tmo.id or k.arg is None for k in c.keywords)
                             for _, c in ctx.callers_of(h.qualname))
        if passed:
            notes.append("TIMEOUT: " + norm_src(tmo)[:60])
    # the helper waits ONCE and hands back what that wait found: a second wait (a loop around it, a second call of the primitive, a
    # call of the helper itself or of its sibling) keeps the scheduler blocked after a completion it asked to be woken up for
    n_waits = 0
    for n in iter_own_nodes(h.node):
        if isinstance(n, ast.Call):
            q = T.resolve_callee(h, n) or ""
            if q in ("ext:concurrent.futures.wait", "ext:asyncio.wait"):
                n_waits += 1
                from .ctx import enclosing_stmt_chain

                if any(isinstance(x, (ast.While, ast.For, ast.AsyncFor)) for x in enclosing_stmt_chain(h.node, n)):
                    notes.append("REWAIT: the wait primitive is inside a loop")
            elif q == h.qualname:
                notes.append("REWAIT: " + norm_src(n)[:80])
    if n_waits > 1:
        notes.append(f"REWAIT: {n_waits} calls of the wait primitive")
    return WaitHelper(h, kind, p_running, p_mode, const_mode, p_graph, p_runnable, ret_index, early, wait_call,
                      awaited, done_loop, checks, before, removes, unions, notes)


def _is_empty_test(test: ast.AST, name: str) -> bool:
    s = norm_src(test)
    return s in (f"len({name}) == 0", f"not {name}", f"not len({name})", f"len({name}) < 1", f"0 == len({name})",
                 f"len({name}) <= 0")
