"""Role-based canonical names.

The rules refer to a handful of internal helpers and attributes by name (remove_root_node, assign_compound_priority,
run_subgraph, setup_nodes, ...). A refactoring that merely RENAMES one of them must not change a verdict. Before the program is
indexed, every such name that is absent from the package is looked for by structure; when exactly one candidate exists, it is
read under the usual name (FunctionDef, attribute accesses, names, parameters, keywords and imports are rewritten in the
in-memory syntax tree only). Nothing is rewritten when the usual name exists - the unchanged tree is analysed as it is.
The mapping is kept in `Program.roles` and reported in the evidence.

Names that are part of the public interface (dataclass fields and constructor arguments such as max_concurrency, results,
exec_nodes, is_sequential, exec_function; public methods such as compose, executor, setup) are NOT covered: renaming them is an
interface change, and a rule that no longer finds its anchor answers UNDECIDED.
"""
from __future__ import annotations

import ast
from typing import Callable, Dict, List, Optional, Tuple

PARALLEL = ("target_nodes", "exclude_nodes", "root_nodes")


def _params(fn: ast.AST) -> List[str]:
    a = fn.args  # type: ignore[attr-defined]
    return [x.arg for x in a.posonlyargs + a.args + a.kwonlyargs]


def _calls(fn: ast.AST):
    for n in ast.walk(fn):
        if isinstance(n, ast.Call):
            yield n


def _attr_call(n: ast.Call, recv: str, attr: str) -> bool:
    return isinstance(n.func, ast.Attribute) and n.func.attr == attr and isinstance(n.func.value, ast.Name) and n.func.value.id == recv


def _ann(a: Optional[ast.AST]) -> str:
    return ast.unparse(a).replace(" ", "") if a is not None else ""


# ---- structural predicates over a FunctionDef
def _release_root(fn) -> bool:
    ps = _params(fn)
    if len(ps) != 2 or ps[0] != "self":
        return False
    p = ps[1]
    rem = any(_attr_call(c, "self", "remove_node") and c.args and isinstance(c.args[0], ast.Name) and c.args[0].id == p for c in _calls(fn))
    succ = any(_attr_call(c, "self", "successors") and c.args and isinstance(c.args[0], ast.Name) and c.args[0].id == p for c in _calls(fn))
    return rem and succ and any(isinstance(n, ast.Return) and n.value is not None for n in ast.walk(fn))


def _assign_priority(fn) -> bool:
    for n in ast.walk(fn):
        if isinstance(n, (ast.Assign, ast.AugAssign)):
            for t in (n.targets if isinstance(n, ast.Assign) else [n.target]):
                if isinstance(t, ast.Subscript) and isinstance(t.value, ast.Attribute) and isinstance(t.value.value, ast.Name) \
                        and t.value.value.id == "self" and "priority" in t.value.attr:
                    return True
    return False


def _make_subgraph(fn) -> bool:
    return set(PARALLEL) <= set(_params(fn)) and _params(fn)[:1] == ["self"]


def _alias_one(fn) -> bool:
    a = fn.args.args
    return len(a) == 2 and _ann(a[1].annotation) == "Alias" and _ann(fn.returns) == "List[Identifier]"


def _alias_many(fn) -> bool:
    a = fn.args.args
    return len(a) == 2 and _ann(a[1].annotation) == "Sequence[Alias]" and _ann(fn.returns) == "List[Identifier]"


def _run_subgraph(fn) -> bool:
    ps = _params(fn)
    if fn.args.vararg is None or len(ps) < 3 or ps[0] != "self":
        return False
    for c in _calls(fn):
        for k in c.keywords:
            if k.arg == "graph" and isinstance(k.value, ast.Name) and k.value.id in ps:
                return True
    return False


def _scheduler(fn) -> bool:
    if not isinstance(fn, ast.AsyncFunctionDef):
        return False
    pool = any(isinstance(c.func, ast.Name) and c.func.id == "ThreadPoolExecutor" for c in _calls(fn))
    loop = any(isinstance(n, ast.While) for n in ast.walk(fn))
    return pool and loop and "graph" in _params(fn)


def _sync_entry(fn) -> bool:
    if isinstance(fn, ast.AsyncFunctionDef) or len(fn.body) == 0:
        return False
    last = fn.body[-1]
    return isinstance(last, ast.Return) and isinstance(last.value, ast.Call) and ast.unparse(last.value.func) == "asyncio.run"


def _wait_helper(is_async: bool) -> Callable:
    def pred(fn) -> bool:
        if isinstance(fn, ast.AsyncFunctionDef) != is_async:
            return False
        if "return_when" not in _params(fn):
            return False
        return any(any(k.arg == "return_when" for k in c.keywords) for c in _calls(fn))
    return pred


def _pre_setup(fn) -> bool:
    ps = _params(fn)
    return ps[:1] == ["self"] and set(PARALLEL) <= set(ps) and "DiGraphEx" in _ann(fn.returns) and not fn.name.startswith("make")


def _include_debug(fn) -> bool:
    src = ast.unparse(fn)
    return "self.successors(" in src and "self.debug_nodes" in src and "self.predecessors(" in src


def _debug_gate(fn) -> bool:
    return "RUN_DEBUG_NODES" in ast.unparse(fn) and _params(fn)[:1] == ["self"]


def _make_active(fn) -> bool:
    return fn.args.kwarg is not None and "ARG_NAME_ACTIVATE" in ast.unparse(fn) and len(_params(fn)) == 1 \
        and _ann(fn.returns) == "Optional[UsageExecNode]"


def _from_exec_nodes(fn) -> bool:
    deco = any(ast.unparse(d) == "classmethod" for d in fn.decorator_list)
    return deco and _params(fn)[:1] == ["cls"] and len(_params(fn)) == 3 and _ann(fn.returns) in ("Self", "'DiGraphEx'", "DiGraphEx")


def _add_exec_node(fn) -> bool:
    ps = _params(fn)
    return len(ps) == 2 and ps[0] == "self" and _ann(fn.args.args[1].annotation) == "ExecNode" \
        and any(_attr_call(c, "self", "add_node") for c in _calls(fn)) and any(_attr_call(c, "self", "add_edges_from") for c in _calls(fn))


def _min_induced(fn) -> bool:
    return any(isinstance(c.func, ast.Attribute) and c.func.attr == "induced_subgraph" for c in _calls(fn))


def _ancestors_iter(fn) -> bool:
    ps = _params(fn)
    return len(ps) == 2 and ps[0] == "self" and any(isinstance(c.func, ast.Attribute) and c.func.attr == "ancestors" for c in _calls(fn)) \
        and "Set" in _ann(fn.returns)


def _executed(fn) -> bool:
    ps = _params(fn)
    if len(ps) != 2 or ps[0] != "self":
        return False
    rets = [n for n in ast.walk(fn) if isinstance(n, ast.Return) and n.value is not None]
    return len(rets) == 1 and isinstance(rets[0].value, ast.Compare) and isinstance(rets[0].value.ops[0], ast.In) \
        and ast.unparse(rets[0].value.left) in ("self.id", "self.id_") and ast.unparse(rets[0].value.comparators[0]) == ps[1]


def _conf_values(fn) -> bool:
    ps = _params(fn)
    return len(ps) == 2 and ps[0] == "self" and any((ast.unparse(c.func)).endswith("asdict") for c in _calls(fn)) \
        and "Dict" in _ann(fn.returns)


def _activation_pred(fn) -> bool:
    ps = _params(fn)
    return len(ps) == 2 and len(fn.args.args) == 2 and _ann(fn.args.args[0].annotation) == "ExecNode" and _ann(fn.returns) == "bool" \
        and ".active" in ast.unparse(fn)


def _copy_nodes(fn) -> bool:
    ps = _params(fn)
    return len(ps) == 1 and len(fn.args.args) == 1 and "ExecNode" in _ann(fn.args.args[0].annotation) and "ExecNode" in _ann(fn.returns) \
        and any(ast.unparse(c.func) == "copy" for c in _calls(fn)) and ".setup" in ast.unparse(fn)


def _bind_args(fn) -> bool:
    ps = _params(fn)
    return fn.args.vararg is not None and len(ps) == 2 and len(fn.args.args) == 2 and "UsageExecNode" in _ann(fn.args.args[1].annotation) \
        and "StrictDict" in _ann(fn.returns)


# (usual name, class or None for module level, predicate)
ROLES: List[Tuple[str, Optional[str], Callable]] = [
    ("_conf_to_values", "ExecNode", _conf_values),
    ("_xn_active_in_call", None, _activation_pred),
    ("copy_non_setup_xns", None, _copy_nodes),
    ("extend_results_with_args", None, _bind_args),
    ("executed", "ExecNode", _executed),
    ("_pre_setup", "BaseDAG", _pre_setup),
    ("include_debug_nodes", "DiGraphEx", _include_debug),
    ("extend_graph_with_debug_nodes", "DiGraphEx", _debug_gate),
    ("make_active", None, _make_active),
    ("from_exec_nodes", "DiGraphEx", _from_exec_nodes),
    ("add_exec_node", "DiGraphEx", _add_exec_node),
    ("minimal_induced_subgraph", "DiGraphEx", _min_induced),
    ("ancestors_of_iter", "DiGraphEx", _ancestors_iter),
    ("remove_root_node", "DiGraphEx", _release_root),
    ("assign_compound_priority", "DiGraphEx", _assign_priority),
    ("make_subgraph", "DiGraphEx", _make_subgraph),
    ("alias_to_ids", "BaseDAG", _alias_one),
    ("get_multiple_nodes_aliases", "BaseDAG", _alias_many),
    ("run_subgraph", "DAG", _run_subgraph),
    ("run_subgraph", "AsyncDAG", _run_subgraph),
    ("async_execute", None, _scheduler),
    ("sync_execute", None, _sync_entry),
    ("wait_for_finished_nodes", None, _wait_helper(False)),
    ("wait_for_finished_nodes_async", None, _wait_helper(True)),
]


# ---- attributes (tables, fields, module-level state) the rules know by name
def _class(trees: Dict[str, ast.Module], name: str) -> Optional[ast.ClassDef]:
    for t in trees.values():
        for c in t.body:
            if isinstance(c, ast.ClassDef) and c.name == name:
                return c
    return None


def _method(c: Optional[ast.ClassDef], name: str):
    if c is None:
        return None
    return next((n for n in c.body if isinstance(n, (ast.FunctionDef, ast.AsyncFunctionDef)) and n.name == name), None)


def _attr_candidates(trees: Dict[str, ast.Module]) -> Dict[str, List[str]]:
    out: Dict[str, List[str]] = {}
    g = _class(trees, "DiGraphEx")
    if g is not None:
        for n in g.body:
            if isinstance(n, ast.FunctionDef) and any(ast.unparse(d) == "property" for d in n.decorator_list):
                src = ast.unparse(n)
                if "self.setup" in src and "self.debug" not in src:
                    out.setdefault("setup_nodes", []).append(n.name)
                if "self.debug" in src and "self.setup" not in src:
                    out.setdefault("debug_nodes", []).append(n.name)
        init = _method(g, "__init__")
        if init is not None:
            for n in ast.walk(init):
                tgt = n.target if isinstance(n, ast.AnnAssign) else (n.targets[0] if isinstance(n, ast.Assign) else None)
                if isinstance(tgt, ast.Attribute) and isinstance(tgt.value, ast.Name) and tgt.value.id == "self" and n.value is not None \
                        and ast.unparse(n.value).replace(" ", "") in ("defaultdict(int)", "defaultdict(lambda:0)"):
                    out.setdefault("compound_priority", []).append(tgt.attr)
    b = _class(trees, "BaseDAG")
    if b is not None:
        for n in b.body:
            if isinstance(n, ast.AnnAssign) and isinstance(n.target, ast.Name):
                a = _ann(n.annotation)
                if a == "List[UsageExecNode]":
                    out.setdefault("input_uxns", []).append(n.target.id)
                if a == "ReturnUXNsType":
                    out.setdefault("return_uxns", []).append(n.target.id)
        pi = _method(b, "__post_init__")
        if pi is not None:
            for n in ast.walk(pi):
                if isinstance(n, ast.Assign) and isinstance(n.targets[0], ast.Attribute) and isinstance(n.value, ast.Call) \
                        and ast.unparse(n.value.func).endswith("from_exec_nodes"):
                    out.setdefault("graph_ids", []).append(n.targets[0].attr)
    for t in trees.values():
        if any(isinstance(n, (ast.Assign, ast.AnnAssign)) and "exec_nodes_lock" in ast.unparse(n).split("=")[0] for n in t.body):
            for n in t.body:
                if isinstance(n, ast.AnnAssign) and isinstance(n.target, ast.Name) and _ann(n.annotation) == "List[str]" \
                        and n.value is not None and ast.unparse(n.value) == "[]":
                    out.setdefault("DAG_PREFIX", []).append(n.target.id)
    return out


def _defs(trees: Dict[str, ast.Module], cls: Optional[str]):
    for mod, t in trees.items():
        if cls is None:
            for n in t.body:
                if isinstance(n, (ast.FunctionDef, ast.AsyncFunctionDef)):
                    yield mod, n
        else:
            for c in t.body:
                if isinstance(c, ast.ClassDef) and c.name == cls:
                    for n in c.body:
                        if isinstance(n, (ast.FunctionDef, ast.AsyncFunctionDef)):
                            yield mod, n


def fingerprint(fn) -> str:
    import hashlib

    return hashlib.sha1((ast.dump(fn.args) + "|" + "".join(ast.dump(x) for x in fn.body) + "|" + type(fn).__name__).encode()).hexdigest()[:16]


def loose_fingerprint(fn) -> str:
    """Fingerprint of the body up to a consistent renaming of parameters and locals and up to the names of private attributes
    (`self._helper(..)`): what a 'rename the private names of this class' refactoring leaves unchanged."""
    import copy
    import hashlib

    f2 = copy.deepcopy(fn)
    body = list(f2.body)
    if body and isinstance(body[0], ast.Expr) and isinstance(body[0].value, ast.Constant) and isinstance(body[0].value.value, str):
        body = body[1:]
    a = f2.args
    local = [x.arg for x in a.posonlyargs + a.args + a.kwonlyargs] + ([a.vararg.arg] if a.vararg else []) + ([a.kwarg.arg] if a.kwarg else [])
    for st in body:
        for n in ast.walk(st):
            if isinstance(n, ast.Name) and isinstance(n.ctx, ast.Store) and n.id not in local:
                local.append(n.id)
            elif isinstance(n, ast.ExceptHandler) and n.name and n.name not in local:
                local.append(n.name)
    ren = {nm: f"v{i}" for i, nm in enumerate(local)}
    for n in [x for st in body for x in ast.walk(st)] + list(ast.walk(a)):
        if isinstance(n, ast.Name) and n.id in ren:
            n.id = ren[n.id]
        elif isinstance(n, ast.arg) and n.arg in ren:
            n.arg = ren[n.arg]
        elif isinstance(n, ast.Attribute) and n.attr.startswith("_") and not n.attr.startswith("__"):
            n.attr = "_P"
        elif isinstance(n, ast.ExceptHandler) and n.name in ren:
            n.name = ren[n.name]
        elif isinstance(n, ast.keyword) and n.arg in ren:
            pass  # keyword names at call sites belong to the callee
    return hashlib.sha1((ast.dump(a) + "|" + "".join(ast.dump(x) for x in body) + "|" + type(fn).__name__).encode()).hexdigest()[:16]


def _flatten_description_record(trees: Dict[str, ast.Module]) -> None:
    import copy

    for t in trees.values():
        if not any(isinstance(n, (ast.Assign, ast.AnnAssign)) and isinstance(getattr(n, "value", None), ast.Call)
                   and ast.unparse(n.value.func).split(".")[-1] in ("Lock", "RLock") for n in t.body):
            continue
        names_here = {(n.target.id if isinstance(n, ast.AnnAssign) and isinstance(n.target, ast.Name) else None) for n in t.body} | \
            {tg.id for n in t.body if isinstance(n, ast.Assign) for tg in n.targets if isinstance(tg, ast.Name)}
        if {"exec_nodes", "results", "DAG_PREFIX"} & names_here:
            continue
        for c in [x for x in t.body if isinstance(x, ast.ClassDef)]:
            flds = [x for x in c.body if isinstance(x, ast.AnnAssign) and isinstance(x.target, ast.Name)]
            if len(flds) != 3 or any(not isinstance(x, (ast.AnnAssign, ast.Expr)) for x in c.body):
                continue
            role: Dict[str, str] = {}
            init: Dict[str, ast.AST] = {}
            for x in flds:
                an = ast.unparse(x.annotation)
                fac = None
                if isinstance(x.value, ast.Call) and ast.unparse(x.value.func).split(".")[-1] == "field":
                    fac = next((k.value for k in x.value.keywords if k.arg == "default_factory"), None)
                if fac is None:
                    break
                canon = "exec_nodes" if ("StrictDict" in an and "ExecNode" in an) else ("results" if "StrictDict" in an else ("DAG_PREFIX" if an.replace(" ", "") == "List[str]" else None))
                if canon is None or canon in role.values():
                    break
                role[x.target.id] = canon
                init[canon] = ast.Call(func=copy.deepcopy(fac), args=[], keywords=[]) if ast.unparse(fac) != "list" else ast.List(elts=[], ctx=ast.Load())
            if len(role) != 3:
                continue
            inst = [n for n in t.body if isinstance(n, (ast.Assign, ast.AnnAssign)) and isinstance(getattr(n, "value", None), ast.Call)
                    and ast.unparse(n.value.func) == c.name and not n.value.args and not n.value.keywords]
            if len(inst) != 1:
                continue
            tg = inst[0].targets[0] if isinstance(inst[0], ast.Assign) else inst[0].target
            if not isinstance(tg, ast.Name):
                continue
            V = tg.id
            anns = {role[x.target.id]: x.annotation for x in flds}

            def three(prefix: Optional[ast.AST], at: ast.AST) -> List[ast.stmt]:
                out = []
                for canon in ("exec_nodes", "results", "DAG_PREFIX"):
                    target = ast.Name(id=canon, ctx=ast.Store()) if prefix is None else ast.Attribute(value=copy.deepcopy(prefix), attr=canon, ctx=ast.Store())
                    if prefix is None:
                        st = ast.AnnAssign(target=target, annotation=copy.deepcopy(anns[canon]), value=copy.deepcopy(init[canon]), simple=1)
                    else:
                        st = ast.Assign(targets=[target], value=copy.deepcopy(init[canon]))
                    out.append(ast.copy_location(st, at))
                return out

            def is_reset(st: ast.stmt) -> Optional[ast.AST]:
                """`<m>.V = <m>.R()` / `V = R()` -> the prefix expression (None for a bare name); else a sentinel."""
                if isinstance(st, ast.Assign) and len(st.targets) == 1 and isinstance(st.value, ast.Call) and not st.value.args and not st.value.keywords \
                        and ast.unparse(st.value.func).split(".")[-1] == c.name:
                    t0 = st.targets[0]
                    if isinstance(t0, ast.Attribute) and t0.attr == V:
                        return t0.value
                    if isinstance(t0, ast.Name) and t0.id == V:
                        return "bare"  # type: ignore[return-value]
                return "no"  # type: ignore[return-value]

            def rewrite(stmts: List[ast.stmt]) -> List[ast.stmt]:
                out: List[ast.stmt] = []
                for st in stmts:
                    rs = is_reset(st)
                    if rs != "no":
                        out += three(None if rs == "bare" else rs, st)
                        continue
                    for fld in ("body", "orelse", "finalbody"):
                        v = getattr(st, fld, None)
                        if isinstance(v, list) and v and isinstance(v[0], ast.stmt):
                            setattr(st, fld, rewrite(v))
                    if isinstance(st, ast.Try):
                        for h in st.handlers:
                            h.body = rewrite(h.body)
                    out.append(st)
                return out

            class _F(ast.NodeTransformer):
                def visit_Attribute(self, node: ast.Attribute):
                    self.generic_visit(node)
                    if node.attr in role and isinstance(node.value, ast.Attribute) and node.value.attr == V:
                        return ast.copy_location(ast.Attribute(value=node.value.value, attr=role[node.attr], ctx=node.ctx), node)
                    if node.attr in role and isinstance(node.value, ast.Name) and node.value.id == V:
                        return ast.copy_location(ast.Name(id=role[node.attr], ctx=node.ctx), node)
                    return node
            for t2 in trees.values():
                t2.body = rewrite(t2.body)
                _F().visit(t2)
                ast.fix_missing_locations(t2)
            t.body = [x for x in t.body if x is not c]
            ast.fix_missing_locations(t)
            return


def canonical_roles(trees: Dict[str, ast.Module]) -> Dict[str, str]:
    """Rewrites the trees in place; returns {usual name: actual name} for everything that was found under another name."""
    from .known_names import BODY_FINGERPRINT, KNOWN_FUNCTIONS

    mapping: Dict[str, str] = {}
    usual = {c for c, _, _ in ROLES}
    # 0. a function with an unknown name and the literal parameters and body of a known function that is absent: a pure rename
    present = set()
    unknown = []
    for t in trees.values():
        for n in ast.walk(t):
            if isinstance(n, (ast.FunctionDef, ast.AsyncFunctionDef)):
                present.add(n.name)
                if n.name not in KNOWN_FUNCTIONS:
                    unknown.append(n)
    for n in unknown:
        orig = BODY_FINGERPRINT.get(fingerprint(n))
        if orig is not None and orig not in present and orig not in mapping and n.name not in mapping.values():
            mapping[orig] = n.name
    # 0b. the same up to a consistent renaming of parameters / locals / private attribute names
    try:
        from .known_names import LOOSE_FINGERPRINT
    except ImportError:  # table not generated yet
        LOOSE_FINGERPRINT = {}
    loose: Dict[str, list] = {}
    for n in unknown:
        if n.name in mapping.values():
            continue
        orig = LOOSE_FINGERPRINT.get(loose_fingerprint(n))
        if orig is not None and orig not in present and orig not in mapping:
            loose.setdefault(orig, []).append(n)
    for orig, ns in loose.items():
        if len({x.name for x in ns}) == 1:  # one candidate name (the sync and async twins may share it)
            mapping[orig] = ns[0].name
    for canon, cls, pred in ROLES:
        defs = list(_defs(trees, cls))
        if any(fn.name == canon for _, fn in defs) or canon in mapping:
            continue
        def _safe(fn_):
            try:
                return pred(fn_)
            except (IndexError, AttributeError):
                return False
        cands = [fn for _, fn in defs if _safe(fn) and fn.name not in usual]
        if len(cands) != 1:
            continue
        mapping[canon] = cands[0].name
    names_used = set()
    for t in trees.values():
        for n in ast.walk(t):
            if isinstance(n, ast.Attribute):
                names_used.add(n.attr)
            elif isinstance(n, ast.Name):
                names_used.add(n.id)
    for canon, cands_ in _attr_candidates(trees).items():
        if canon in names_used or len(set(cands_)) != 1:
            continue
        mapping[canon] = cands_[0]
    # the description state grouped into one module-level record `V = R()` (R a class of the same module whose fields are the two
    # registries and the prefix stack): read as the three module-level names again
    _flatten_description_record(trees)
    # the two registries of the description in progress (module-level StrictDict()s next to the description lock): found by their
    # annotations when they were renamed; the usual names are ordinary words elsewhere, so the renaming is limited to the new names
    for t in trees.values():
        if not any(isinstance(n, (ast.Assign, ast.AnnAssign)) and isinstance(getattr(n, "value", None), ast.Call)
                   and ast.unparse(n.value.func).split(".")[-1] in ("Lock", "RLock") for n in t.body):
            continue
        regs = [n for n in t.body if isinstance(n, ast.AnnAssign) and isinstance(n.target, ast.Name) and n.value is not None
                and ast.unparse(n.value) == "StrictDict()"]
        have = {n.target.id for n in regs}
        if len(regs) == 2 and not ({"exec_nodes", "results"} & have):
            xn = [n.target.id for n in regs if "ExecNode" in ast.unparse(n.annotation)]
            rs = [n.target.id for n in regs if "ExecNode" not in ast.unparse(n.annotation)]
            if len(xn) == 1 and len(rs) == 1:
                special = {xn[0]: "exec_nodes", rs[0]: "results"}
                for t2 in trees.values():
                    for n in ast.walk(t2):
                        if isinstance(n, ast.Attribute) and n.attr in special:
                            n.attr = special[n.attr]
                        elif isinstance(n, ast.Name) and n.id in special:
                            n.id = special[n.id]
                        elif isinstance(n, ast.alias) and n.name in special:
                            if n.asname is None:
                                n.asname = None
                            n.name = special[n.name]
                        elif isinstance(n, ast.Global):
                            n.names = [special.get(x, x) for x in n.names]
                mapping["node.exec_nodes"] = xn[0]
                mapping["node.results"] = rs[0]
    if not mapping:
        return mapping
    inv = {v: k for k, v in mapping.items() if "." not in k}
    for t in trees.values():
        for n in ast.walk(t):
            if isinstance(n, (ast.FunctionDef, ast.AsyncFunctionDef)) and n.name in inv:
                n.name = inv[n.name]
            elif isinstance(n, ast.Attribute) and n.attr in inv:
                n.attr = inv[n.attr]
            elif isinstance(n, ast.Name) and n.id in inv:
                n.id = inv[n.id]
            elif isinstance(n, ast.alias) and n.name in inv:
                n.name = inv[n.name]
            elif isinstance(n, ast.keyword) and n.arg in inv:
                n.arg = inv[n.arg]
            elif isinstance(n, ast.arg) and n.arg in inv:
                n.arg = inv[n.arg]
    return mapping


ACTIVATION_SRC = '''
def _xn_active_in_call(xn: ExecNode, results: Dict[Identifier, Any]) -> bool:
    if xn.active is None:
        return True
    return bool(xn.active.result(results))
'''


def outline_activation(trees: Dict[str, ast.Module]) -> int:
    """When the activation predicate has been written in place (`X.active is None or bool(X.active.result(R))`, or its
    negation normal form) and no function of that name exists, the expression is read as a call of the predicate, whose usual
    definition is added to the module: the rules meet the form they know."""
    if any(isinstance(n, (ast.FunctionDef, ast.AsyncFunctionDef)) and n.name == "_xn_active_in_call" for t in trees.values() for n in ast.walk(t)):
        return 0

    def match(e: ast.AST):
        if isinstance(e, ast.BoolOp) and isinstance(e.op, ast.Or) and len(e.values) == 2:
            a, b = e.values
            if isinstance(a, ast.Compare) and len(a.ops) == 1 and isinstance(a.ops[0], ast.Is) and isinstance(a.left, ast.Attribute) \
                    and a.left.attr == "active" and isinstance(a.comparators[0], ast.Constant) and a.comparators[0].value is None:
                x = a.left.value
                if isinstance(b, ast.Call) and isinstance(b.func, ast.Name) and b.func.id == "bool" and len(b.args) == 1:
                    b = b.args[0]
                if isinstance(b, ast.Call) and isinstance(b.func, ast.Attribute) and b.func.attr == "result" and len(b.args) == 1 \
                        and isinstance(b.func.value, ast.Attribute) and b.func.value.attr == "active" \
                        and ast.dump(b.func.value.value) == ast.dump(x):
                    return x, b.args[0]
        return None

    count = 0
    for name, t in trees.items():
        hit = False

        class _O(ast.NodeTransformer):
            def visit_BoolOp(self, node: ast.BoolOp):
                nonlocal count, hit
                self.generic_visit(node)
                m = match(node)
                neg = False
                if m is None and isinstance(node.op, ast.And) and len(node.values) == 2:
                    from .loader import _neg

                    m = match(_neg(node))
                    neg = m is not None
                if m is None:
                    return node
                count += 1
                hit = True
                call = ast.Call(func=ast.Name(id="_xn_active_in_call", ctx=ast.Load()), args=[m[0], m[1]], keywords=[])
                out = ast.UnaryOp(op=ast.Not(), operand=call) if neg else call
                return ast.copy_location(out, node)

        _O().visit(t)
        if hit:
            fn = ast.parse(ACTIVATION_SRC).body[0]
            last_import = max([i for i, st in enumerate(t.body) if isinstance(st, (ast.Import, ast.ImportFrom))] + [-1])
            ast.copy_location(fn, t.body[last_import] if last_import >= 0 else t.body[0])
            for sub in ast.walk(fn):
                if hasattr(sub, "lineno") or isinstance(sub, (ast.expr, ast.stmt)):
                    sub.lineno = getattr(t.body[max(last_import, 0)], "lineno", 1)  # type: ignore[attr-defined]
                    sub.end_lineno = sub.lineno  # type: ignore[attr-defined]
                    sub.col_offset = 0  # type: ignore[attr-defined]
                    sub.end_col_offset = 0  # type: ignore[attr-defined]
            t.body.insert(last_import + 1, fn)
            ast.fix_missing_locations(t)
    return count
