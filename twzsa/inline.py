"""Helpers introduced by a refactoring are read as if their body had been written in place.

Extracting a block into a new private function (or a nested closure, a small method, a one-expression helper, a single-yield
generator) is the commonest behaviour-preserving change, and the one a shape-matching rule survives worst. Before the program
is indexed, every function whose name did not exist when the rules were written (twzsa/known_names.py) and whose body is simple
enough is expanded at its call sites in the in-memory syntax tree:

* expression helper   `def h(a): return <expr>`            -> the call is replaced by <expr> wherever it occurs
* procedure           straight / structured body, at most one `return`, as last statement
                                                            -> `x = h(a)` / `h(a)` / `return h(a)` / `await h(a)` statements
* single-yield generator used as `for t in h(a): BODY`     -> h's body with `yield v` replaced by `t = v; BODY`
* `@contextmanager` helper used as `with h(a) [as t]: BODY` -> h's body with the `yield` replaced by `[t = v;] BODY`
* procedure with guard clauses (`if C: return`)             -> first rewritten into the nested conditional it abbreviates

Parameters are substituted by the argument expressions when those are plain (names, attribute chains, constants) and bound to
temporaries otherwise; the helper's own locals are renamed; `self` is the receiver expression. A helper all of whose calls were
expanded is removed. Nothing is touched when every function name is known: the unchanged tree is analysed as it is.
Anything not covered (recursion, several returns, decorators, star-arguments other than a pass-through) is left alone - the rules
then see the call and answer UNDECIDED where they need to look inside.
"""
from __future__ import annotations

import ast
import copy
from typing import Dict, List, Optional, Set, Tuple

FuncDef = (ast.FunctionDef, ast.AsyncFunctionDef)


def _body_wo_doc(fn) -> List[ast.stmt]:
    b = list(fn.body)
    if b and isinstance(b[0], ast.Expr) and isinstance(b[0].value, ast.Constant) and isinstance(b[0].value.value, str):
        b = b[1:]
    return b


def _own_nodes(fn):
    """Nodes of fn's body, not descending into nested function / class definitions."""
    stack = list(fn.body)
    while stack:
        n = stack.pop()
        yield n
        if isinstance(n, FuncDef + (ast.ClassDef, ast.Lambda)):
            continue  # a definition nested directly in the body: its own body is not part of this function's
        for c in ast.iter_child_nodes(n):
            if isinstance(c, FuncDef + (ast.ClassDef, ast.Lambda)):
                continue
            stack.append(c)


def _plain(e: ast.AST) -> bool:
    while isinstance(e, ast.Attribute):
        e = e.value
    return isinstance(e, (ast.Name, ast.Constant))


class Helper:
    def __init__(self, fn, owner_cls: Optional[str], parent_fn, module: str):
        self.fn = fn
        self.name = fn.name
        self.cls = owner_cls
        self.parent = parent_fn
        self.module = module
        self.kind = self._classify()

    def _classify(self) -> Optional[str]:
        fn = self.fn
        is_cm = len(fn.decorator_list) == 1 and ast.unparse(fn.decorator_list[0]) in ("contextmanager", "contextlib.contextmanager")
        if (fn.decorator_list and not is_cm) or fn.args.kwarg is not None or fn.args.posonlyargs:
            return None
        own = list(_own_nodes(fn))
        if any(isinstance(n, ast.Call) and isinstance(n.func, ast.Name) and n.func.id == fn.name for n in own):
            return None  # recursion
        yields = [n for n in own if isinstance(n, (ast.Yield, ast.YieldFrom))]
        rets = [n for n in own if isinstance(n, ast.Return)]
        body = _body_wo_doc(fn)
        if yields:
            if len(yields) != 1 or not isinstance(yields[0], ast.Yield) or any(r.value is not None for r in rets) or isinstance(fn, ast.AsyncFunctionDef):
                return None
            ok = any(isinstance(n, ast.Expr) and n.value is yields[0] for n in own)
            if is_cm:
                # `with h(..) [as v]: BODY` is h's body with BODY in the place of the yield
                return "ctx" if ok and not rets else None
            return "gen" if ok and yields[0].value is not None else None
        if is_cm:
            return None
        if len(body) == 1 and isinstance(body[0], ast.Return) and body[0].value is not None and not isinstance(fn, ast.AsyncFunctionDef):
            return "expr"
        if len(rets) == 0:
            return "proc"
        if len(rets) == 1 and body and rets[0] is body[-1]:
            return "proc"
        if all(r.value is None or (isinstance(r.value, ast.Constant) and r.value.value is None) for r in rets):
            # guard clauses (`if C: return`) in a procedure: read as the nested conditional they abbreviate
            flat = _unguard(copy.deepcopy(body))
            if flat is not None:
                self.flat_body = flat
                return "proc"
        # several value returns, each closing an arm of a conditional: the value goes through a result variable
        # (used where the call is NOT itself returned: `x = h(..)`, `x |= h(..)`, `h(..)`; `return h(..)` keeps the returns, below)
        rv = f"_{fn.name}__ret"
        flat = _unguard(copy.deepcopy(body), rv)
        if flat is not None:
            init = ast.Assign(targets=[ast.Name(id=rv, ctx=ast.Store())], value=ast.Constant(value=None))
            ret = ast.Return(value=ast.Name(id=rv, ctx=ast.Load()))
            for x_ in (init, ret):
                ast.copy_location(x_, body[0])
                ast.fix_missing_locations(x_)
            self.flat_body = [init] + flat + [ret]
        # several returns: where the call itself is returned (`return h(..)`) the body is expanded with its returns
        return "tail"

    def body(self) -> List[ast.stmt]:
        return getattr(self, "flat_body", None) or _body_wo_doc(self.fn)


def _has_return(stmts) -> bool:
    return any(isinstance(n, ast.Return) for st in stmts for n in ast.walk(st) if not isinstance(n, FuncDef + (ast.Lambda,)))


def _unguard(stmts: List[ast.stmt], retvar: Optional[str] = None) -> Optional[List[ast.stmt]]:
    """Statements of a procedure whose only returns are bare and close an `if` arm -> the same statements without returns
    (`if C: A; return` + REST  ==  `if C: A` / `else: REST`). None when a return sits anywhere else (loop, try, with)."""
    out: List[ast.stmt] = []
    for i, st in enumerate(stmts):
        if isinstance(st, ast.Return):
            if retvar is not None:
                asg = ast.copy_location(ast.Assign(targets=[ast.Name(id=retvar, ctx=ast.Store())], value=st.value or ast.Constant(value=None)), st)
                ast.fix_missing_locations(asg)
                return out + [asg]
            return out or [ast.copy_location(ast.Pass(), st)]
        if isinstance(st, ast.If) and _has_return([st]):
            body_ret = bool(st.body) and isinstance(st.body[-1], ast.Return)
            else_ret = bool(st.orelse) and isinstance(st.orelse[-1], ast.Return)
            a = st.body[:-1] if body_ret else st.body
            b = st.orelse[:-1] if else_ret else st.orelse
            tail_a = _unguard([st.body[-1]], retvar) if (body_ret and retvar is not None) else []
            tail_b = _unguard([st.orelse[-1]], retvar) if (else_ret and retvar is not None) else []
            a2, b2 = _unguard(a, retvar), _unguard(b, retvar)
            rest = _unguard(stmts[i + 1:], retvar)
            if a2 is None or b2 is None or rest is None:
                return None
            if (_has_return(a) and not body_ret) or (_has_return(b) and not else_ret):
                return None  # a nested return that does not close the arm: the rest would have to be skipped from inside
            new_body = a2 + (tail_a if body_ret else rest)
            new_else = b2 + (tail_b if else_ret else rest)
            if body_ret and else_ret:
                pass  # REST is dead
            elif not body_ret and not else_ret:
                return None  # unreachable given _has_return, kept for safety
            if not new_body:
                new_body = [ast.copy_location(ast.Pass(), st)]
            out.append(ast.copy_location(ast.If(test=st.test, body=new_body, orelse=new_else), st))
            return out
        if _has_return([st]):
            return None
        out.append(st)
    return out


class _Subst(ast.NodeTransformer):
    def __init__(self, mapping: Dict[str, ast.AST], rename: Dict[str, str]):
        self.mapping = mapping
        self.rename = rename

    def visit_Name(self, node: ast.Name):
        if node.id in self.mapping:
            new = copy.deepcopy(self.mapping[node.id])
            if isinstance(node.ctx, ast.Store) and isinstance(new, ast.Name):
                new.ctx = ast.Store()
            return ast.copy_location(new, node)
        if node.id in self.rename:
            return ast.copy_location(ast.Name(id=self.rename[node.id], ctx=node.ctx), node)
        return node

    def visit_Lambda(self, node: ast.Lambda):
        # the lambda's own parameters shadow the helper's locals / parameters of the same name inside its body
        a = node.args
        own = {x.arg for x in a.posonlyargs + a.args + a.kwonlyargs} | ({a.vararg.arg} if a.vararg else set()) | ({a.kwarg.arg} if a.kwarg else set())
        inner = _Subst({k: v for k, v in self.mapping.items() if k not in own}, {k: v for k, v in self.rename.items() if k not in own})
        node.body = inner.visit(node.body)
        node.args.defaults = [self.visit(d) for d in node.args.defaults]
        node.args.kw_defaults = [self.visit(d) if d is not None else None for d in node.args.kw_defaults]
        return node

    def _nested_def(self, node):
        # a nested function's own parameters (and what it binds itself) shadow the helper's locals / parameters of the same name
        a = node.args
        own = {x.arg for x in a.posonlyargs + a.args + a.kwonlyargs} | ({a.vararg.arg} if a.vararg else set()) | ({a.kwarg.arg} if a.kwarg else set())
        nonloc = {n_ for st in ast.walk(node) if isinstance(st, ast.Nonlocal) for n_ in st.names}
        own |= {x.id for st in node.body for x in ast.walk(st) if isinstance(x, ast.Name) and isinstance(x.ctx, ast.Store)} - nonloc
        inner = _Subst({k: v for k, v in self.mapping.items() if k not in own}, {k: v for k, v in self.rename.items() if k not in own})
        node.body = [inner.visit(st) for st in node.body]
        node.args.defaults = [self.visit(d) for d in node.args.defaults]
        node.args.kw_defaults = [self.visit(d) if d is not None else None for d in node.args.kw_defaults]
        node.decorator_list = [self.visit(d) for d in node.decorator_list]
        if node.name in self.rename:
            node.name = self.rename[node.name]
        return node

    visit_FunctionDef = _nested_def
    visit_AsyncFunctionDef = _nested_def

    def visit_Nonlocal(self, node):
        return None

    def visit_Global(self, node):
        return node

    def visit_ExceptHandler(self, node: ast.ExceptHandler):
        if node.name and node.name in self.rename:
            node.name = self.rename[node.name]
        self.generic_visit(node)
        return node


def _bind(h: Helper, call: ast.Call, recv: Optional[ast.AST]) -> Optional[Tuple[Dict[str, ast.AST], List[ast.stmt], Dict[str, str]]]:
    """(parameter -> expression, temporaries to assign first, local renaming) or None when the call cannot be matched."""
    fn = h.fn
    params = [a.arg for a in fn.args.args]
    defaults = fn.args.defaults
    dmap = {p: d for p, d in zip(params[len(params) - len(defaults):], defaults)}
    kwonly = [a.arg for a in fn.args.kwonlyargs]
    for p, d in zip(kwonly, fn.args.kw_defaults):
        if d is not None:
            dmap[p] = d
    mapping: Dict[str, ast.AST] = {}
    pre: List[ast.stmt] = []
    pos = list(params)
    if h.cls is not None:
        if not pos or recv is None:
            return None
        mapping[pos[0]] = recv
        pos = pos[1:]
    args = list(call.args)
    star = None
    if args and isinstance(args[-1], ast.Starred):
        star, args = args[-1], args[:-1]
    if any(isinstance(a, ast.Starred) for a in args) or len(args) > len(pos):
        return None
    for p, a in zip(pos, args):
        mapping[p] = a
    for k in call.keywords:
        if k.arg is None or k.arg not in pos + kwonly or k.arg in mapping:
            return None
        mapping[k.arg] = k.value
    for p in pos + kwonly:
        if p not in mapping:
            if p in dmap:
                mapping[p] = dmap[p]
            else:
                return None
    if fn.args.vararg is not None:
        if star is None or not isinstance(star.value, ast.Name):
            return None
        mapping[fn.args.vararg.arg] = star.value
    elif star is not None:
        return None
    # parameters that are re-assigned inside the helper, or bound to non-plain expressions, get a temporary
    stored = {n.id for n in _own_nodes(fn) if isinstance(n, ast.Name) and isinstance(n.ctx, ast.Store)}
    for p, e in list(mapping.items()):
        reads = sum(1 for n in _own_nodes(fn) if isinstance(n, ast.Name) and n.id == p)
        if (not _plain(e) and reads != 1) or (p in stored and not isinstance(e, ast.Name)):
            tmp = f"_{h.name}__{p}"
            pre.append(ast.Assign(targets=[ast.Name(id=tmp, ctx=ast.Store())], value=copy.deepcopy(e)))
            mapping[p] = ast.Name(id=tmp, ctx=ast.Load())
    declared = set()
    for n in _own_nodes(fn):
        if isinstance(n, (ast.Nonlocal, ast.Global)):
            declared |= set(n.names)
    locals_ = {n for n in stored if n not in mapping and n not in declared}
    for n in _own_nodes(fn):
        if isinstance(n, ast.ExceptHandler) and n.name:
            locals_.add(n.name)
    rename = {n: f"_{h.name}__{n}" for n in locals_}
    return mapping, pre, rename


def _expand_proc(h: Helper, call: ast.Call, recv, st: ast.stmt) -> Optional[List[ast.stmt]]:
    b = _bind(h, call, recv)
    if b is None:
        return None
    mapping, pre, rename = b
    body = h.body()
    last_ret = body[-1] if body and isinstance(body[-1], ast.Return) else None
    stmts = [_Subst(mapping, rename).visit(copy.deepcopy(x)) for x in (body[:-1] if last_ret is not None else body)]
    stmts = [x for x in stmts if x is not None]
    rv = _Subst(mapping, rename).visit(copy.deepcopy(last_ret.value)) if last_ret is not None and last_ret.value is not None else None
    out = pre + stmts
    if isinstance(st, ast.Assign):
        if rv is None:
            rv = ast.Constant(value=None)
        trivial = isinstance(rv, ast.Name) and len(st.targets) == 1 and isinstance(st.targets[0], ast.Name) and st.targets[0].id == rv.id
        sunk = None
        if not trivial and isinstance(rv, ast.Name) and getattr(h, "flat_body", None) is not None and len(st.targets) == 1 \
                and isinstance(st.targets[0], (ast.Name, ast.Attribute)):
            sunk = _sink_result(out, rv.id, lambda e: ast.Assign(targets=[copy.deepcopy(st.targets[0])], value=e))
        merged = False
        if sunk is None and not trivial and isinstance(rv, ast.Name) and len(st.targets) == 1 and isinstance(st.targets[0], ast.Name) \
                and rv.id in rename.values():
            # `t = h(..)` where h builds its result in a local r: r IS t when t is not read any more once r has been bound
            tname, rname = st.targets[0].id, rv.id
            first = next((i for i, x in enumerate(out) if any(isinstance(y, ast.Name) and y.id == rname and isinstance(y.ctx, ast.Store) for y in ast.walk(x))), None)
            if first is not None:
                later_reads = any(isinstance(y, ast.Name) and y.id == tname and isinstance(y.ctx, ast.Load) for x in out[first + 1:] for y in ast.walk(x))
                # in the binding statement itself the target may be read on the right-hand side (`r = copy(t)`)
                stores_t = any(isinstance(y, ast.Name) and y.id == tname and isinstance(y.ctx, ast.Store) for x in out for y in ast.walk(x))
                if not later_reads and not stores_t:
                    class _Rn(ast.NodeTransformer):
                        def visit_Name(self, n):
                            if n.id == rname:
                                return ast.copy_location(ast.Name(id=tname, ctx=n.ctx), n)
                            return n
                    out = [_Rn().visit(x) for x in out]
                    merged = True
        if sunk is not None:
            out = sunk
        elif merged:
            pass
        elif not trivial:
            out.append(ast.Assign(targets=st.targets, value=rv))
    elif isinstance(st, ast.AnnAssign):
        out.append(ast.AnnAssign(target=st.target, annotation=st.annotation, value=rv or ast.Constant(value=None), simple=st.simple))
    elif isinstance(st, ast.Return):
        out.append(ast.Return(value=rv))
    elif isinstance(st, ast.AugAssign):
        sunk = None
        if isinstance(rv, ast.Name) and getattr(h, "flat_body", None) is not None:
            def use(e: ast.AST) -> ast.stmt:
                empty = (isinstance(e, ast.Call) and isinstance(e.func, ast.Name) and e.func.id in ("set", "frozenset", "list", "dict", "tuple") and not e.args
                         and not e.keywords) or (isinstance(e, (ast.List, ast.Tuple, ast.Set, ast.Dict)) and not getattr(e, "elts", getattr(e, "keys", [])))
                if empty and isinstance(st.op, (ast.BitOr, ast.Add)):
                    return ast.Pass()  # `T |= set()` changes nothing
                return ast.AugAssign(target=copy.deepcopy(st.target), op=st.op, value=e)
            sunk = _sink_result(out, rv.id, use)
        if sunk is not None:
            out = sunk
        else:
            out.append(ast.AugAssign(target=st.target, op=st.op, value=rv or ast.Constant(value=None)))
    elif isinstance(st, ast.Expr):
        if rv is not None and not isinstance(rv, (ast.Name, ast.Constant, ast.Attribute)):
            out.append(ast.Expr(value=rv))
    if not out:
        out = [ast.Pass()]
    _place(out, st)
    return out


def _sink_result(stmts: List[ast.stmt], var: str, use) -> Optional[List[ast.stmt]]:
    """`var = None; if C: ..; var = A  else: ..; var = B` followed by one use of var: the use is moved to where the value is known
    (`use(A)` / `use(B)`), so that what reaches the use is visible at the use. None when some path does not end by assigning var."""
    body = list(stmts)
    if body and isinstance(body[0], ast.Assign) and isinstance(body[0].targets[0], ast.Name) and body[0].targets[0].id == var \
            and isinstance(body[0].value, ast.Constant) and body[0].value.value is None:
        body = body[1:]

    def go(block: List[ast.stmt]) -> Optional[List[ast.stmt]]:
        if not block:
            return None
        last = block[-1]
        head = block[:-1]
        if any(isinstance(x, ast.Name) and x.id == var for st_ in head for x in ast.walk(st_)):
            return None
        if isinstance(last, ast.Assign) and len(last.targets) == 1 and isinstance(last.targets[0], ast.Name) and last.targets[0].id == var:
            if any(isinstance(x, ast.Name) and x.id == var for x in ast.walk(last.value)):
                return None
            return head + [ast.copy_location(use(last.value), last)]
        if isinstance(last, ast.If) and last.orelse:
            if any(isinstance(x, ast.Name) and x.id == var for x in ast.walk(last.test)):
                return None
            a, b = go(last.body), go(last.orelse)
            if a is None or b is None:
                return None
            return head + [ast.copy_location(ast.If(test=last.test, body=a, orelse=b), last)]
        return None

    res = go(body)
    if res is not None:
        for x in res:
            ast.fix_missing_locations(x)
    return res


def _expand_tail(h: Helper, call: ast.Call, recv, st: ast.stmt) -> Optional[List[ast.stmt]]:
    """`return h(..)`: the body of h with its own returns kept; a path that falls off the end returns None."""
    b = _bind(h, call, recv)
    if b is None:
        return None
    mapping, pre, rename = b
    stmts = [_Subst(mapping, rename).visit(copy.deepcopy(x)) for x in _body_wo_doc(h.fn)]
    stmts = [x for x in stmts if x is not None]
    out = pre + stmts
    if not stmts or not isinstance(stmts[-1], (ast.Return, ast.Raise)):
        out.append(ast.Return(value=None))
    _place(out, st)
    return out


def _place(stmts: List[ast.stmt], at: ast.AST) -> None:
    """The expanded statements stand at the call site: same line for messages, strictly increasing fractions for ordering."""
    base = getattr(at, "lineno", 0)
    k = 0
    for x in stmts:
        for n in ast.walk(x):
            if isinstance(n, ast.stmt):
                k += 1
                n.lineno = base + k * 1e-4  # type: ignore[assignment]
                n.end_lineno = n.lineno
        for n in ast.walk(x):
            if not isinstance(n, ast.stmt) and hasattr(n, "lineno"):
                pass
        ast.fix_missing_locations(x)
    for x in stmts:
        cur = x.lineno
        stack = [(x, cur)]
        while stack:
            node, ln = stack.pop()
            if isinstance(node, ast.stmt):
                ln = node.lineno
            elif hasattr(node, "lineno") or isinstance(node, (ast.expr,)):
                node.lineno = ln  # type: ignore[attr-defined]
                node.end_lineno = ln  # type: ignore[attr-defined]
            for c in ast.iter_child_nodes(node):
                stack.append((c, ln))


def _expand_gen(h: Helper, call: ast.Call, recv, loop: ast.For) -> Optional[List[ast.stmt]]:
    if loop.orelse:
        return None
    b = _bind(h, call, recv)
    if b is None:
        return None
    mapping, pre, rename = b
    body = [_Subst(mapping, rename).visit(copy.deepcopy(x)) for x in _body_wo_doc(h.fn)]

    class _Y(ast.NodeTransformer):
        done = False

        def visit_Expr(self, node: ast.Expr):
            if isinstance(node.value, ast.Yield):
                _Y.done = True
                tgt = copy.deepcopy(loop.target)
                return [ast.Assign(targets=[tgt], value=node.value.value)] + [copy.deepcopy(x) for x in loop.body]
            return node

        def visit_FunctionDef(self, node):
            return node

        visit_AsyncFunctionDef = visit_FunctionDef

    _Y.done = False
    out = []
    for x in body:
        r_ = _Y().visit(x)
        out += r_ if isinstance(r_, list) else [r_]
    if not _Y.done:
        return None
    out = pre + out
    _place(out, loop)
    return out


def _expand_ctx(h: Helper, call: ast.Call, recv, w: ast.With) -> Optional[List[ast.stmt]]:
    b = _bind(h, call, recv)
    if b is None:
        return None
    mapping, pre, rename = b
    body = [_Subst(mapping, rename).visit(copy.deepcopy(x)) for x in _body_wo_doc(h.fn)]
    target = w.items[0].optional_vars
    state = {"done": False}

    class _Y(ast.NodeTransformer):
        def visit_Expr(self, node: ast.Expr):
            if isinstance(node.value, ast.Yield):
                state["done"] = True
                head: List[ast.stmt] = []
                if target is not None:
                    head = [ast.Assign(targets=[copy.deepcopy(target)], value=node.value.value or ast.Constant(value=None))]
                return head + [copy.deepcopy(x) for x in w.body]
            return node

        def visit_FunctionDef(self, node):
            return node

        visit_AsyncFunctionDef = visit_FunctionDef

    out: List[ast.stmt] = []
    for x in body:
        r_ = _Y().visit(x)
        out += r_ if isinstance(r_, list) else [r_]
    if not state["done"]:
        return None
    out = pre + out
    _place(out, w)
    return out


def specialise_callbacks(trees: Dict[str, ast.Module]) -> List[str]:
    """A module-level function H that takes a callback parameter it only ever CALLS, all of whose call sites - in one function F -
    pass the same nested procedure g of F, is read with g's body in place of the calls: the callback parameter goes, the locals of F that
    g closes over become (keyword-only) parameters of H and are handed over by the call sites.  (A wait helper that reports every finished
    node through `on_finished(node_id)` is then read as pruning the graph and feeding the runnable set itself.)"""
    done: List[str] = []
    mod_funcs: Dict[str, Tuple[str, ast.AST]] = {}
    for mod, t in trees.items():
        for st in t.body:
            if isinstance(st, FuncDef):
                mod_funcs.setdefault(st.name, (mod, st))
    for hname, (hmod, H) in list(mod_funcs.items()):
        a = H.args
        if a.vararg or a.kwarg:
            continue
        params = [x.arg for x in a.posonlyargs + a.args + a.kwonlyargs]
        for cb in params:
            uses = [n for n in ast.walk(H) if isinstance(n, ast.Name) and n.id == cb]
            parents: Dict[int, ast.AST] = {}
            for n in ast.walk(H):
                for c in ast.iter_child_nodes(n):
                    parents[id(c)] = n
            cb_calls = [parents.get(id(u)) for u in uses]
            if not uses or not all(isinstance(c, ast.Call) and c.func is u and not c.keywords and all(isinstance(x, ast.Name) for x in c.args)
                                   and isinstance(parents.get(id(c)), ast.Expr) for c, u in zip(cb_calls, uses)):
                continue
            # call sites
            sites = []
            for mod, t in trees.items():
                for F in [n for n in ast.walk(t) if isinstance(n, FuncDef)]:
                    for c in _own_nodes(F):
                        if isinstance(c, ast.Call) and ((isinstance(c.func, ast.Name) and c.func.id == hname)
                                                        or (isinstance(c.func, ast.Attribute) and c.func.attr == hname and isinstance(c.func.value, ast.Name))):
                            sites.append((F, c))
            if not sites or len({id(F) for F, _ in sites}) != 1:
                continue
            F = sites[0][0]
            pos = [x.arg for x in a.posonlyargs + a.args]

            def arg_of(c: ast.Call):
                for k in c.keywords:
                    if k.arg == cb:
                        return k.value
                if cb in pos and pos.index(cb) < len(c.args):
                    return c.args[pos.index(cb)]
                return None
            gs = [arg_of(c) for _, c in sites]
            if not all(isinstance(g_, ast.Name) for g_ in gs) or len({g_.id for g_ in gs}) != 1:
                continue
            gname = gs[0].id
            gdefs = [n for n in F.body if isinstance(n, FuncDef) and n.name == gname]
            if len(gdefs) != 1:
                continue
            g = gdefs[0]
            ga = g.args
            if isinstance(g, ast.AsyncFunctionDef) or ga.vararg or ga.kwarg or ga.kwonlyargs or ga.defaults or g.decorator_list:
                continue
            gparams = [x.arg for x in ga.posonlyargs + ga.args]
            gbody = _body_wo_doc(g)
            if any(isinstance(x, (ast.Return, ast.Yield, ast.YieldFrom, ast.Await, ast.Nonlocal, ast.Global) + FuncDef + (ast.Lambda,)) for st in gbody for x in ast.walk(st)):
                continue
            if not all(len(c.args) == len(gparams) for c in cb_calls):
                continue
            glocals = {x.id for st in gbody for x in ast.walk(st) if isinstance(x, ast.Name) and isinstance(x.ctx, ast.Store)}
            f_locals = {x.arg for x in F.args.posonlyargs + F.args.args + F.args.kwonlyargs} | {
                x.id for x in _own_nodes(F) if isinstance(x, ast.Name) and isinstance(x.ctx, ast.Store)}
            free = sorted({x.id for st in gbody for x in ast.walk(st) if isinstance(x, ast.Name) and isinstance(x.ctx, ast.Load)
                           and x.id not in gparams and x.id not in glocals and x.id in f_locals})
            h_names = {x.id for x in ast.walk(H) if isinstance(x, ast.Name)} | set(params)
            if not free or (set(free) | glocals) & (h_names - {cb}):
                continue
            # annotations of the new parameters: taken from F where it states them, else inferred from the methods used on the name
            ann: Dict[str, Optional[ast.AST]] = {}
            for v in free:
                an = next((x.annotation for x in F.args.posonlyargs + F.args.args + F.args.kwonlyargs if x.arg == v and x.annotation is not None), None)
                if an is None:
                    an = next((x.annotation for x in _own_nodes(F) if isinstance(x, ast.AnnAssign) and isinstance(x.target, ast.Name) and x.target.id == v), None)
                if an is None:
                    meths = {x.func.attr for x in ast.walk(F) if isinstance(x, ast.Call) and isinstance(x.func, ast.Attribute)
                             and isinstance(x.func.value, ast.Name) and x.func.value.id == v}
                    if "update" in meths and meths & {"remove", "add", "discard"} and not (meths - {"update", "remove", "add", "discard", "copy", "union", "difference", "pop"}):
                        an = ast.Subscript(value=ast.Name(id="Set", ctx=ast.Load()), slice=ast.Name(id="Any", ctx=ast.Load()), ctx=ast.Load())
                ann[v] = copy.deepcopy(an) if an is not None else None
            # 1. H: the calls of the callback become g's body
            def expand(stmts: List[ast.stmt]) -> List[ast.stmt]:
                out: List[ast.stmt] = []
                for st in stmts:
                    if isinstance(st, ast.Expr) and any(st.value is c for c in cb_calls):
                        bind = {p_: copy.deepcopy(x) for p_, x in zip(gparams, st.value.args)}
                        ren = {l_: f"__{gname}__{l_}" for l_ in glocals}
                        for b in gbody:
                            nb = _Subst(bind, ren).visit(copy.deepcopy(b))
                            ast.copy_location(nb, st)
                            out.append(nb)
                        continue
                    for fld in ("body", "orelse", "finalbody"):
                        v_ = getattr(st, fld, None)
                        if isinstance(v_, list) and v_ and isinstance(v_[0], ast.stmt) and not isinstance(st, FuncDef + (ast.ClassDef,)):
                            setattr(st, fld, expand(v_))
                    if isinstance(st, ast.Try):
                        for hd in st.handlers:
                            hd.body = expand(hd.body)
                    out.append(st)
                return out
            H.body = expand(H.body)
            for lst in (a.posonlyargs, a.args):
                lst[:] = [x for x in lst if x.arg != cb]
            if cb in [x.arg for x in a.kwonlyargs]:
                i_ = [x.arg for x in a.kwonlyargs].index(cb)
                del a.kwonlyargs[i_]
                del a.kw_defaults[i_]
            # defaults belong to the last positional parameters: the callback had none (checked: every site passes it)
            for v in free:
                a.kwonlyargs.append(ast.arg(arg=v, annotation=ann[v]))
                a.kw_defaults.append(None)
            # 2. the call sites hand over the captured locals instead of the procedure
            for _, c in sites:
                if cb in pos and pos.index(cb) < len(c.args):
                    del c.args[pos.index(cb)]
                c.keywords = [k for k in c.keywords if k.arg != cb] + [ast.keyword(arg=v, value=ast.Name(id=v, ctx=ast.Load())) for v in free]
            ast.fix_missing_locations(trees[hmod])
            for t in trees.values():
                ast.fix_missing_locations(t)
            done.append(f"{hname}({cb}={gname})")
            break
    return done


def specialise_record_params(trees: Dict[str, ast.Module], known_classes: Set[str]) -> List[str]:
    """A record class introduced after the rules were written (fields + small methods), an instance of which is built once in a
    function F (`v = R(a, b)`) and handed to module-level helpers through a parameter annotated `R`, is read without the record:
    the helper takes one (keyword-only) parameter per field, `p.field` is that parameter, `p.method(x)` is the method's statement in place;
    the call sites hand over `v.field` for each field (the scalar replacement of F's local then finishes the job).  Sets and dicts held by
    the record keep being updated in place - which is what the original does through the shared record."""
    done: List[str] = []
    recs: Dict[str, ast.ClassDef] = {}
    for t in trees.values():
        for c in t.body:
            if isinstance(c, ast.ClassDef) and c.name not in known_classes:
                flds = [x for x in c.body if isinstance(x, ast.AnnAssign) and isinstance(x.target, ast.Name)]
                meths = [x for x in c.body if isinstance(x, ast.FunctionDef)]
                if flds and all(isinstance(x, (ast.AnnAssign, ast.FunctionDef, ast.Expr)) for x in c.body) \
                        and all(not m.decorator_list and m.args.args and not m.args.vararg and not m.args.kwarg and len(_body_wo_doc(m)) == 1
                                and not isinstance(_body_wo_doc(m)[0], (ast.Return, ast.If, ast.For, ast.While, ast.Try, ast.With)) for m in meths):
                    recs[c.name] = c
    if not recs:
        return done

    def fields_of(c: ast.ClassDef) -> List[str]:
        return [x.target.id for x in c.body if isinstance(x, ast.AnnAssign) and isinstance(x.target, ast.Name)]

    def field_ann(c: ast.ClassDef, f: str):
        return next(copy.deepcopy(x.annotation) for x in c.body if isinstance(x, ast.AnnAssign) and isinstance(x.target, ast.Name) and x.target.id == f)

    def proc_methods(c: ast.ClassDef) -> Dict[str, ast.FunctionDef]:
        return {m.name: m for m in c.body if isinstance(m, ast.FunctionDef)}

    def expand_method_calls(fn, var: str, c: ast.ClassDef) -> bool:
        """`var.m(args)` as a statement -> the method's single statement with self := var (attribute form) and parameters := args."""
        ms = proc_methods(c)
        ok = True

        def go(stmts: List[ast.stmt]) -> List[ast.stmt]:
            nonlocal ok
            out: List[ast.stmt] = []
            for st in stmts:
                call = st.value if isinstance(st, ast.Expr) and isinstance(st.value, ast.Call) else None
                if call is not None and isinstance(call.func, ast.Attribute) and isinstance(call.func.value, ast.Name) and call.func.value.id == var \
                        and call.func.attr in ms:
                    m = ms[call.func.attr]
                    mp = [x.arg for x in m.args.args[1:]]
                    if call.keywords or len(call.args) != len(mp) or not all(isinstance(x, (ast.Name, ast.Attribute, ast.Constant)) for x in call.args):
                        ok = False
                        out.append(st)
                        continue
                    bind = dict(zip(mp, call.args))
                    selfname = m.args.args[0].arg
                    body = copy.deepcopy(_body_wo_doc(m)[0])

                    class _M(ast.NodeTransformer):
                        def visit_Name(self, n):
                            if n.id == selfname:
                                return ast.copy_location(ast.Name(id=var, ctx=n.ctx), n)
                            if n.id in bind and isinstance(n.ctx, ast.Load):
                                return copy.deepcopy(bind[n.id])
                            return n
                    nb = _M().visit(body)
                    ast.copy_location(nb, st)
                    out.append(nb)
                    continue
                for fld in ("body", "orelse", "finalbody"):
                    v_ = getattr(st, fld, None)
                    if isinstance(v_, list) and v_ and isinstance(v_[0], ast.stmt) and not isinstance(st, FuncDef + (ast.ClassDef,)):
                        setattr(st, fld, go(v_))
                if isinstance(st, ast.Try):
                    for hd in st.handlers:
                        hd.body = go(hd.body)
                out.append(st)
            return out
        fn.body = go(fn.body)
        return ok

    mod_funcs: Dict[str, ast.AST] = {}
    for t in trees.values():
        for st in t.body:
            if isinstance(st, FuncDef):
                mod_funcs.setdefault(st.name, st)
    for hname, H in list(mod_funcs.items()):
        a = H.args
        for prm in list(a.posonlyargs + a.args + a.kwonlyargs):
            an = prm.annotation
            rname = an.id if isinstance(an, ast.Name) else (an.value if isinstance(an, ast.Constant) and isinstance(an.value, str) else None)
            if rname not in recs:
                continue
            c = recs[rname]
            p = prm.arg
            flds = fields_of(c)
            if not expand_method_calls(H, p, c):
                continue
            parents: Dict[int, ast.AST] = {}
            for n in ast.walk(H):
                for ch in ast.iter_child_nodes(n):
                    parents[id(ch)] = n
            uses = [n for n in ast.walk(H) if isinstance(n, ast.Name) and n.id == p]
            if not all(isinstance(parents.get(id(u)), ast.Attribute) and parents[id(u)].attr in flds for u in uses):
                continue
            h_names = {x.id for x in ast.walk(H) if isinstance(x, ast.Name)} | {x.arg for x in a.posonlyargs + a.args + a.kwonlyargs}
            if any(f"{p}__{f}" in h_names for f in flds):
                continue
            # call sites: the argument is a plain local name
            pos = [x.arg for x in a.posonlyargs + a.args]
            sites = []
            good = True
            for t in trees.values():
                for F in [n for n in ast.walk(t) if isinstance(n, FuncDef)]:
                    for cl in _own_nodes(F):
                        if isinstance(cl, ast.Call) and ((isinstance(cl.func, ast.Name) and cl.func.id == hname)
                                                         or (isinstance(cl.func, ast.Attribute) and cl.func.attr == hname and isinstance(cl.func.value, ast.Name))):
                            arg = next((k.value for k in cl.keywords if k.arg == p), None)
                            if arg is None and p in pos and pos.index(p) < len(cl.args) and not any(isinstance(x, ast.Starred) for x in cl.args):
                                arg = cl.args[pos.index(p)]
                            if not isinstance(arg, ast.Name):
                                good = False
                            sites.append((F, cl, arg))
            if not good or not sites:
                continue

            class _P(ast.NodeTransformer):
                def visit_Attribute(self, node: ast.Attribute):
                    self.generic_visit(node)
                    if isinstance(node.value, ast.Name) and node.value.id == p and node.attr in flds:
                        return ast.copy_location(ast.Name(id=f"{p}__{node.attr}", ctx=node.ctx), node)
                    return node
            _P().visit(H)
            for lst in (a.posonlyargs, a.args):
                if any(x.arg == p for x in lst):
                    i_ = [x.arg for x in lst].index(p)
                    n_after = len(lst) - i_ - 1
                    if lst is a.args and len(a.defaults) > n_after:
                        good = False  # the record parameter has a default: not handled
                    lst[:] = [x for x in lst if x.arg != p]
            if p in [x.arg for x in a.kwonlyargs]:
                i_ = [x.arg for x in a.kwonlyargs].index(p)
                del a.kwonlyargs[i_]
                del a.kw_defaults[i_]
            for f in flds:
                a.kwonlyargs.append(ast.arg(arg=f"{p}__{f}", annotation=field_ann(c, f)))
                a.kw_defaults.append(None)
            for F, cl, arg in sites:
                if p in pos and pos.index(p) < len(cl.args):
                    del cl.args[pos.index(p)]
                cl.keywords = [k for k in cl.keywords if k.arg != p] + [
                    ast.keyword(arg=f"{p}__{f}", value=ast.Attribute(value=ast.Name(id=arg.id, ctx=ast.Load()), attr=f, ctx=ast.Load())) for f in flds]
                expand_method_calls(F, arg.id, c)
            for t in trees.values():
                ast.fix_missing_locations(t)
            done.append(f"{hname}({p}: {rname})")
    # procedure methods called on a local record of a function that hands it to nobody: expanded too, so that the scalar replacement applies
    for t in trees.values():
        for F in [n for n in ast.walk(t) if isinstance(n, FuncDef)]:
            for st in _own_nodes(F):
                if isinstance(st, ast.Assign) and len(st.targets) == 1 and isinstance(st.targets[0], ast.Name) and isinstance(st.value, ast.Call) \
                        and isinstance(st.value.func, ast.Name) and st.value.func.id in recs:
                    expand_method_calls(F, st.targets[0].id, recs[st.value.func.id])
        ast.fix_missing_locations(t)
    return done


def flatten_temporary_objects(trees: Dict[str, ast.Module], known_classes: Set[str]) -> List[str]:
    """`R(a, b).method(x)` - an instance of a new class created only to call one method on it - is read as a call of a module-level function
    `_R__method(a, b, x)` whose body is the method's, `self.<attr>` standing for the constructor argument it was assigned from
    (`__init__` must do nothing but `self.attr = parameter`).  The ordinary expansion of new helpers then reads the body in place."""
    done: List[str] = []
    for mod, t in trees.items():
        for c in [x for x in t.body if isinstance(x, ast.ClassDef) and x.name not in known_classes and not x.bases and not x.decorator_list]:
            init = next((m for m in c.body if isinstance(m, ast.FunctionDef) and m.name == "__init__"), None)
            if init is None or init.args.vararg or init.args.kwarg or init.args.kwonlyargs or init.args.defaults:
                continue
            iparams = [x.arg for x in init.args.args[1:]]
            attr_of: Dict[str, str] = {}
            ok = True
            for st in _body_wo_doc(init):
                if isinstance(st, ast.Assign) and len(st.targets) == 1 and isinstance(st.targets[0], ast.Attribute) \
                        and isinstance(st.targets[0].value, ast.Name) and st.targets[0].value.id == init.args.args[0].arg \
                        and isinstance(st.value, ast.Name) and st.value.id in iparams:
                    attr_of[st.targets[0].attr] = st.value.id
                else:
                    ok = False
            if not ok or not attr_of:
                continue
            meths = {m.name: m for m in c.body if isinstance(m, FuncDef) and m.name != "__init__" and not m.decorator_list
                     and not m.args.vararg and not m.args.kwarg}
            made: Dict[str, str] = {}
            for t2 in trees.values():
                for call in [n for n in ast.walk(t2) if isinstance(n, ast.Call)]:
                    f = call.func
                    if not (isinstance(f, ast.Attribute) and f.attr in meths and isinstance(f.value, ast.Call) and isinstance(f.value.func, ast.Name)
                            and f.value.func.id == c.name):
                        continue
                    ctor = f.value
                    if ctor.keywords or len(ctor.args) != len(iparams) or any(isinstance(x, ast.Starred) for x in ctor.args + call.args):
                        continue
                    m = meths[f.attr]
                    selfname = m.args.args[0].arg
                    if any(isinstance(x, ast.Name) and x.id == selfname and not isinstance(_parent_attr(m, x), ast.Attribute) for x in ast.walk(m)):
                        continue  # self escapes
                    fname = f"_{c.name}__{m.name}"
                    if fname not in made:
                        nf = copy.deepcopy(m)
                        nf.name = fname
                        clash = {x.arg for x in nf.args.args[1:] + nf.args.kwonlyargs} & set(iparams)
                        if clash:
                            continue
                        nf.args.args = [ast.arg(arg=p_, annotation=None) for p_ in iparams] + nf.args.args[1:]

                        class _SA(ast.NodeTransformer):
                            def visit_Attribute(self, node: ast.Attribute):
                                self.generic_visit(node)
                                if isinstance(node.value, ast.Name) and node.value.id == selfname and node.attr in attr_of:
                                    return ast.copy_location(ast.Name(id=attr_of[node.attr], ctx=node.ctx), node)
                                return node
                        nf = _SA().visit(nf)
                        if any(isinstance(x, ast.Name) and x.id == selfname for x in ast.walk(nf)):
                            continue
                        t.body.insert(t.body.index(c) + 1, nf)
                        made[fname] = m.name
                    call.func = ast.copy_location(ast.Name(id=fname, ctx=ast.Load()), f)
                    call.args = list(ctor.args) + list(call.args)
            if made:
                for t2 in trees.values():
                    ast.fix_missing_locations(t2)
                done += [f"{c.name}(..).{v}" for v in made.values()]
    return done


def _parent_attr(root: ast.AST, node: ast.AST) -> Optional[ast.AST]:
    for n in ast.walk(root):
        for ch in ast.iter_child_nodes(n):
            if ch is node:
                return n
    return None


def flatten_decorator_compositions(trees: Dict[str, ast.Module]) -> List[str]:
    """`name = outer(inner(f))` at module level, every decorator being a module-level function of the shape
    `def deco(fn): def wrapper(..): ..fn(..).. ; return wrapper`, is read as the functions it builds: `_inner__f(..)` (inner's wrapper with
    `fn` := f) and `name(..)` (outer's wrapper with `fn` := `_inner__f`).  The wrappers are then ordinary functions (new helpers are read in place)."""
    done: List[str] = []
    for mod, t in trees.items():
        decos: Dict[str, Tuple[ast.FunctionDef, ast.AST]] = {}
        funcs = {st.name for st in t.body if isinstance(st, FuncDef)}
        for st in t.body:
            if isinstance(st, ast.FunctionDef) and len(st.args.args) == 1 and not st.args.vararg and not st.args.kwarg and not st.decorator_list:
                body = _body_wo_doc(st)
                if len(body) == 2 and isinstance(body[0], FuncDef) and isinstance(body[1], ast.Return) and isinstance(body[1].value, ast.Name) \
                        and body[1].value.id == body[0].name:
                    decos[st.name] = (st, body[0])
        if not decos:
            continue
        new_body: List[ast.stmt] = []
        changed = False
        for st in t.body:
            chain: List[str] = []
            if isinstance(st, ast.Assign) and len(st.targets) == 1 and isinstance(st.targets[0], ast.Name):
                v = st.value
                while isinstance(v, ast.Call) and isinstance(v.func, ast.Name) and v.func.id in decos and len(v.args) == 1 and not v.keywords:
                    chain.append(v.func.id)
                    v = v.args[0]
                if chain and isinstance(v, ast.Name) and v.id in funcs:
                    target = v.id
                    for k, dname in enumerate(reversed(chain)):
                        deco, wrapper = decos[dname]
                        last = k == len(chain) - 1
                        nf = copy.deepcopy(wrapper)
                        nf.name = st.targets[0].id if last else f"_{dname.strip('_')}__{target}"
                        nf.decorator_list = []
                        prm = deco.args.args[0].arg

                        class _R(ast.NodeTransformer):
                            def visit_Name(self, n):
                                return ast.copy_location(ast.Name(id=target, ctx=n.ctx), n) if n.id == prm else n
                        nf = _R().visit(nf)
                        ast.copy_location(nf, st)
                        new_body.append(nf)
                        target = nf.name
                    changed = True
                    done.append(f"{st.targets[0].id} = {'('.join(chain)}(...)")
                    continue
            new_body.append(st)
        if changed:
            t.body = new_body
            # a decorator that nothing refers to any more is dead code: it goes (its wrapper would look like an uncalled entry point)
            used = {n.id for t2 in trees.values() for n in ast.walk(t2) if isinstance(n, ast.Name) and isinstance(n.ctx, ast.Load)} | \
                {n.attr for t2 in trees.values() for n in ast.walk(t2) if isinstance(n, ast.Attribute)} | \
                {a_.name for t2 in trees.values() for n in ast.walk(t2) if isinstance(n, (ast.Import, ast.ImportFrom)) for a_ in n.names}
            t.body = [st for st in t.body if not (isinstance(st, ast.FunctionDef) and st.name in decos and st.name not in used)]
            ast.fix_missing_locations(t)
    return done


def inline_new_helpers(trees: Dict[str, ast.Module], known: Set[str]) -> List[str]:
    expanded: List[str] = []
    for _round in range(4):
        helpers: Dict[str, List[Helper]] = {}

        def collect(stmts, mod, cls, parent):
            for n in stmts:
                if isinstance(n, FuncDef):
                    if n.name not in known and not (n.name.startswith("__") and n.name.endswith("__")):
                        h = Helper(n, cls if parent is None else None, parent, mod)
                        if h.kind is not None:
                            helpers.setdefault(n.name, []).append(h)
                    collect(n.body, mod, None, n)
                elif isinstance(n, ast.ClassDef):
                    collect(n.body, mod, n.name, None)
                elif isinstance(n, (ast.If, ast.Try, ast.With, ast.For, ast.While)):
                    for fld in ("body", "orelse", "finalbody"):
                        collect(getattr(n, fld, []), mod, cls, parent)
        for mod, t in trees.items():
            collect(t.body, mod, None, None)
        uniq = {k: v[0] for k, v in helpers.items() if len(v) == 1}
        if not uniq and not any(len(v) == 2 for v in helpers.values()):
            break
        changed = False

        # twins: a new method written once per flavour (a plain one in the sync class, a coroutine in the async class) under one name -
        # an awaited call is a call of the coroutine, a call that is not awaited is a call of the plain one
        twins = {k: v for k, v in helpers.items() if len(v) == 2 and all(h_.cls is not None for h_ in v)
                 and sorted(isinstance(h_.fn, ast.AsyncFunctionDef) for h_ in v) == [False, True]}
        awaited_calls = {id(n.value) for t_ in trees.values() for n in ast.walk(t_) if isinstance(n, ast.Await)}

        def target_of(call: ast.Call) -> Tuple[Optional[Helper], Optional[ast.AST]]:
            f = call.func
            if isinstance(f, ast.Name) and f.id in uniq and uniq[f.id].cls is None:
                return uniq[f.id], None
            if isinstance(f, ast.Attribute) and f.attr in uniq and uniq[f.attr].cls is not None and _plain(f.value):
                return uniq[f.attr], f.value
            if isinstance(f, ast.Attribute) and f.attr in twins and _plain(f.value):
                want_async = id(call) in awaited_calls
                return next(h_ for h_ in twins[f.attr] if isinstance(h_.fn, ast.AsyncFunctionDef) == want_async), f.value
            return None, None

        def strip(v):
            aw = isinstance(v, ast.Await)
            return (v.value if aw else v), aw

        def rewrite(stmts: List[ast.stmt], within: Optional[ast.AST]) -> List[ast.stmt]:
            nonlocal changed
            out: List[ast.stmt] = []
            stmts = list(stmts)
            idx = 0
            while idx < len(stmts):
                st = stmts[idx]
                idx += 1
                rep = None
                if isinstance(st, (ast.Expr, ast.Assign, ast.AnnAssign, ast.Return, ast.AugAssign)) and getattr(st, "value", None) is not None:
                    v, aw = strip(st.value)
                    # a procedure helper called INSIDE the statement's expression (`d.update(h(x)._asdict())`, `f(h(x), y)`): the call
                    # is hoisted into a temporary first - only when everything evaluated before it is plain (names, attributes, constants)
                    if not (isinstance(v, ast.Call) and target_of(v)[0] is not None):
                        hoist = None
                        order: List[ast.AST] = []

                        def ev(e: ast.AST) -> None:  # evaluation order, left to right, operands before the call
                            for c in ast.iter_child_nodes(e):
                                if isinstance(c, (ast.expr,)) and not isinstance(c, (ast.Lambda, ast.GeneratorExp, ast.ListComp, ast.SetComp, ast.DictComp, ast.IfExp, ast.BoolOp)):
                                    ev(c)
                                elif isinstance(c, ast.keyword):
                                    ev(c.value) if not isinstance(c.value, (ast.Lambda, ast.GeneratorExp, ast.ListComp, ast.SetComp, ast.DictComp, ast.IfExp, ast.BoolOp)) else None
                            order.append(e)

                        ev(st.value)
                        for e in order:
                            if isinstance(e, ast.Call):
                                h0, _r0 = target_of(e)
                                if h0 is not None and h0.fn is not within and h0.kind == "proc" and not isinstance(h0.fn, ast.AsyncFunctionDef):
                                    hoist = e
                                break  # only the first call in evaluation order may be hoisted
                        if hoist is not None and hoist is not v:
                            tmp = f"_{target_of(hoist)[0].name}__val"
                            asg = ast.copy_location(ast.Assign(targets=[ast.Name(id=tmp, ctx=ast.Store())], value=hoist), st)

                            class _R(ast.NodeTransformer):
                                def visit_Call(self, n):
                                    if n is hoist:
                                        return ast.copy_location(ast.Name(id=tmp, ctx=ast.Load()), n)
                                    return self.generic_visit(n)

                            st.value = _R().visit(st.value)
                            ast.fix_missing_locations(asg)
                            ast.fix_missing_locations(st)
                            stmts[idx - 1:idx] = [asg, st]
                            idx -= 1
                            continue
                    v, aw = strip(st.value)
                    if isinstance(v, ast.Call):
                        h, recv = target_of(v)
                        if h is not None and h.fn is not within and h.kind == "proc" and (aw == isinstance(h.fn, ast.AsyncFunctionDef)):
                            rep = _expand_proc(h, v, recv, st)
                        elif h is not None and h.fn is not within and h.kind == "tail" and isinstance(st, ast.Return) \
                                and (aw == isinstance(h.fn, ast.AsyncFunctionDef)):
                            rep = _expand_tail(h, v, recv, st)
                        elif h is not None and h.fn is not within and h.kind == "tail" and getattr(h, "flat_body", None) is not None \
                                and (aw == isinstance(h.fn, ast.AsyncFunctionDef)):
                            rep = _expand_proc(h, v, recv, st)
                elif isinstance(st, ast.For) and isinstance(st.iter, ast.Call):
                    h, recv = target_of(st.iter)
                    if h is not None and h.fn is not within and h.kind == "gen":
                        rep = _expand_gen(h, st.iter, recv, st)
                elif isinstance(st, ast.With) and len(st.items) == 1 and isinstance(st.items[0].context_expr, ast.Call):
                    h, recv = target_of(st.items[0].context_expr)
                    if h is not None and h.fn is not within and h.kind == "ctx":
                        rep = _expand_ctx(h, st.items[0].context_expr, recv, st)
                if rep is not None:
                    changed = True
                    if h.name not in expanded:
                        expanded.append(h.name)
                    out += rewrite(rep, within)
                    continue
                for fld in ("body", "orelse", "finalbody"):
                    if hasattr(st, fld) and isinstance(getattr(st, fld), list) and not isinstance(st, FuncDef + (ast.ClassDef,)):
                        setattr(st, fld, rewrite(getattr(st, fld), within))
                if isinstance(st, ast.Try):
                    for hd in st.handlers:
                        hd.body = rewrite(hd.body, within)
                if isinstance(st, FuncDef):
                    st.body = rewrite(st.body, st)
                elif isinstance(st, ast.ClassDef):
                    st.body = rewrite(st.body, within)
                out.append(st)
            return out

        class _E(ast.NodeTransformer):
            """expression helpers, anywhere"""

            def __init__(self):
                self.stack: List[ast.AST] = []

            def visit_FunctionDef(self, node):
                self.stack.append(node)
                self.generic_visit(node)
                self.stack.pop()
                return node

            visit_AsyncFunctionDef = visit_FunctionDef

            def visit_keyword(self, node: ast.keyword):
                # a one-expression helper handed over as a VALUE (`key=compound_priority_of`) is the lambda it abbreviates
                nonlocal changed
                if isinstance(node.value, ast.Name) and node.value.id in uniq and uniq[node.value.id].kind == "expr" and uniq[node.value.id].cls is None \
                        and not any(uniq[node.value.id].fn is s for s in self.stack):
                    h = uniq[node.value.id]
                    a = copy.deepcopy(h.fn.args)
                    for x in a.posonlyargs + a.args + a.kwonlyargs:
                        x.annotation = None
                    lam = ast.Lambda(args=a, body=copy.deepcopy(_body_wo_doc(h.fn)[0].value))
                    ast.copy_location(lam, node.value)
                    ast.fix_missing_locations(lam)
                    node.value = lam
                    changed = True
                    if h.name not in expanded:
                        expanded.append(h.name)
                    return node
                self.generic_visit(node)
                return node

            def visit_Call(self, node: ast.Call):
                nonlocal changed
                self.generic_visit(node)
                h, recv = target_of(node)
                if h is None or h.kind != "expr" or any(h.fn is s for s in self.stack):
                    return node
                b = _bind(h, node, recv)
                if b is None or b[1]:
                    return node
                mapping, _, rename = b
                e = _Subst(mapping, rename).visit(copy.deepcopy(_body_wo_doc(h.fn)[0].value))
                changed = True
                if h.name not in expanded:
                    expanded.append(h.name)
                for sub in ast.walk(e):
                    if hasattr(sub, "lineno") or isinstance(sub, ast.expr):
                        ast.copy_location(sub, node)
                return e

        for mod, t in trees.items():
            t.body = rewrite(t.body, None)
            _E().visit(t)
            ast.fix_missing_locations(t)
        # a helper nobody refers to any more is dropped
        refs: Set[str] = set()
        for t in trees.values():
            for n in ast.walk(t):
                if isinstance(n, ast.Name):
                    refs.add(n.id)
                elif isinstance(n, ast.Attribute):
                    refs.add(n.attr)
                elif isinstance(n, ast.alias):
                    refs.add(n.name)

        def drop(stmts):
            keep = []
            for n in stmts:
                if isinstance(n, FuncDef) and n.name in uniq and n.name in expanded and n.name not in refs:
                    continue
                if isinstance(n, FuncDef + (ast.ClassDef,)):
                    n.body = drop(n.body) or [ast.Pass()]
                else:
                    for fld in ("body", "orelse", "finalbody"):
                        v = getattr(n, fld, None)
                        if isinstance(v, list) and v and isinstance(v[0], ast.stmt):
                            nv = drop(v)
                            setattr(n, fld, nv if (nv or fld != "body") else [ast.Pass()])
                    if isinstance(n, ast.Try):
                        for hd in n.handlers:
                            hd.body = drop(hd.body) or [ast.Pass()]
                keep.append(n)
            return keep
        for t in trees.values():
            t.body = drop(t.body)
            ast.fix_missing_locations(t)
        if not changed:
            break
    if expanded:
        for t in trees.values():
            for fn in [n for n in ast.walk(t) if isinstance(n, FuncDef)]:
                _beta_local_lambdas(fn)
                _fold_generated_aliases(fn)
            ast.fix_missing_locations(t)
    return expanded


def _beta_local_lambdas(fn) -> None:
    """`f = lambda a, b: E` bound once in the function and only ever called (`f(x, y)` with plain arguments, or one use per call with any
    argument) is read as E with its parameters replaced - a callable handed to an expanded higher-order helper is then read in place."""
    asg: Dict[str, List[ast.Assign]] = {}
    for st in _own_nodes(fn):
        if isinstance(st, ast.Assign) and len(st.targets) == 1 and isinstance(st.targets[0], ast.Name):
            asg.setdefault(st.targets[0].id, []).append(st)
    done_any = False
    for name, sts in asg.items():
        if len(sts) != 1 or not isinstance(sts[0].value, ast.Lambda):
            continue
        lam = sts[0].value
        a = lam.args
        if a.vararg or a.kwarg or a.kwonlyargs or a.defaults:
            continue
        params = [x.arg for x in a.posonlyargs + a.args]
        parents: Dict[int, ast.AST] = {}
        for n in ast.walk(fn):
            for c in ast.iter_child_nodes(n):
                parents[id(c)] = n
        uses = [n for n in ast.walk(fn) if isinstance(n, ast.Name) and n.id == name and n is not sts[0].targets[0]]
        calls = []
        ok = bool(uses)
        for u in uses:
            par = parents.get(id(u))
            if isinstance(par, ast.Call) and par.func is u and not par.keywords and len(par.args) == len(params) \
                    and not any(isinstance(x, ast.Starred) for x in par.args):
                n_use = {p_: sum(1 for x in ast.walk(lam.body) if isinstance(x, ast.Name) and x.id == p_) for p_ in params}
                if all(isinstance(arg, (ast.Name, ast.Attribute, ast.Constant)) or n_use[p_] <= 1 for p_, arg in zip(params, par.args)):
                    calls.append(par)
                    continue
            ok = False
        if not ok:
            continue

        class _B(ast.NodeTransformer):
            def visit_Call(self, node: ast.Call):
                self.generic_visit(node)
                if any(node is c for c in calls):
                    bind = dict(zip(params, node.args))

                    class _S(ast.NodeTransformer):
                        def visit_Name(self, n):
                            return copy.deepcopy(bind[n.id]) if n.id in bind and isinstance(n.ctx, ast.Load) else n
                    return ast.copy_location(_S().visit(copy.deepcopy(lam.body)), node)
                return node
        _B().visit(fn)

        def drop(stmts: List[ast.stmt]) -> List[ast.stmt]:
            keep = []
            for st in stmts:
                if st is sts[0]:
                    continue
                for fld in ("body", "orelse", "finalbody"):
                    v = getattr(st, fld, None)
                    if isinstance(v, list) and v and isinstance(v[0], ast.stmt) and not isinstance(st, (ast.FunctionDef, ast.AsyncFunctionDef, ast.ClassDef)):
                        setattr(st, fld, drop(v) or [ast.copy_location(ast.Pass(), st)])
                if isinstance(st, ast.Try):
                    for h in st.handlers:
                        h.body = drop(h.body) or [ast.copy_location(ast.Pass(), st)]
                keep.append(st)
            return keep
        fn.body = drop(fn.body)
        done_any = True
    if done_any:
        ast.fix_missing_locations(fn)


def _fold_generated_aliases(fn) -> None:
    """`T = __helper__x` (the hand-over of an expanded helper's result: T bound only here, the generated local never bound afterwards) is
    folded: the generated local takes the caller's name, so that what the helper built is known under the name the caller uses."""
    def run(stmts: List[ast.stmt]) -> bool:
        for i, st in enumerate(stmts):
            # `<attribute> = __helper__x` right after the one statement that binds __helper__x (its only other occurrence): the attribute
            # takes the place of the generated local in that binding
            if isinstance(st, ast.Assign) and len(st.targets) == 1 and isinstance(st.targets[0], ast.Attribute) and isinstance(st.value, ast.Name) \
                    and st.value.id.startswith("__") and "__" in st.value.id[2:] and not st.value.id.endswith("__") and i > 0:
                S = st.value.id
                occ = [n for n in ast.walk(fn) if isinstance(n, ast.Name) and n.id == S]
                prev = stmts[i - 1]
                stores = [n for n in ast.walk(prev) if isinstance(n, ast.Name) and n.id == S and isinstance(n.ctx, ast.Store)] \
                    if isinstance(prev, ast.Assign) else []
                if len(occ) == 2 and len(stores) == 1:
                    tgt_attr = copy.deepcopy(st.targets[0])

                    class _T(ast.NodeTransformer):
                        def visit_Name(self, n):
                            return ast.copy_location(tgt_attr, n) if n is stores[0] else n
                    prev.targets = [_T().visit(t_) for t_ in prev.targets]
                    del stmts[i]
                    return True
            if isinstance(st, ast.Assign) and len(st.targets) == 1 and isinstance(st.targets[0], ast.Name) and isinstance(st.value, ast.Name) \
                    and st.value.id.startswith("__") and "__" in st.value.id[2:] and not st.value.id.endswith("__"):
                T, S = st.targets[0].id, st.value.id
                names = [n for n in ast.walk(fn) if isinstance(n, ast.Name)]
                t_stores = [n for n in names if n.id == T and isinstance(n.ctx, ast.Store)]
                after = [x for later in stmts[i + 1:] for x in ast.walk(later) if isinstance(x, ast.Name) and x.id == S and isinstance(x.ctx, ast.Store)]
                t_before = [n for n in names if n.id == T and n is not st.targets[0] and getattr(n, "lineno", 0) < getattr(st, "lineno", 0)
                            and not any(n is y for later in stmts[i + 1:] for y in ast.walk(later))]
                if len(t_stores) == 1 and not after and not t_before:
                    for n in names:
                        if n.id == S:
                            n.id = T
                    del stmts[i]
                    return True
            for fld in ("body", "orelse", "finalbody"):
                v = getattr(st, fld, None)
                if isinstance(v, list) and v and isinstance(v[0], ast.stmt) and not isinstance(st, (ast.FunctionDef, ast.AsyncFunctionDef, ast.ClassDef)):
                    if run(v):
                        return True
            if isinstance(st, ast.Try):
                for h in st.handlers:
                    if run(h.body):
                        return True
        return False
    for _ in range(12):
        if not run(fn.body):
            break


def _split_record_sites(fn, records) -> None:
    """A local built as a record in several branches (`v = R(..)` in the if-arm and in the else-arm), every use of which comes after
    exactly one of the constructions inside the same block, is split into one local per construction site."""
    asg: Dict[str, List[ast.stmt]] = {}
    other: Set[str] = set()
    for st in _own_nodes(fn):
        if isinstance(st, ast.Assign) and len(st.targets) == 1 and isinstance(st.targets[0], ast.Name):
            v = st.value
            f_ = v.func if isinstance(v, ast.Call) else None
            if isinstance(f_, ast.Subscript):
                f_ = f_.value
            if isinstance(f_, ast.Name) and f_.id in records:
                asg.setdefault(st.targets[0].id, []).append(st)
            else:
                other.add(st.targets[0].id)
        elif isinstance(st, (ast.AugAssign, ast.AnnAssign)) and isinstance(st.target, ast.Name):
            other.add(st.target.id)
    lists: List[List[ast.stmt]] = []
    for n in ast.walk(fn):
        for fld in ("body", "orelse", "finalbody"):
            v = getattr(n, fld, None)
            if isinstance(v, list) and v and isinstance(v[0], ast.stmt):
                lists.append(v)
    for var, sts in asg.items():
        if len(sts) < 2 or var in other:
            continue
        scopes = []
        for st in sts:
            L = next((l_ for l_ in lists if any(x is st for x in l_)), None)
            if L is None:
                scopes = []
                break
            k = next(i for i, x in enumerate(L) if x is st)
            scopes.append(L[k:])
        if not scopes:
            continue
        owner: Dict[int, int] = {}
        ok = True
        for n in ast.walk(fn):
            if isinstance(n, ast.Name) and n.id == var:
                own_ = [i for i, sc in enumerate(scopes) if any(n is y for x in sc for y in ast.walk(x))]
                if len(own_) != 1:
                    ok = False
                    break
                owner[id(n)] = own_[0]
        if not ok:
            continue
        for n in ast.walk(fn):
            if isinstance(n, ast.Name) and n.id == var:
                n.id = f"{var}_{owner[id(n)] + 1}"


def _bind_method(m: ast.FunctionDef, call: ast.Call) -> Optional[Dict[str, ast.AST]]:
    """parameter name -> argument expression for a call of the one-expression method m (self excluded); None when the call cannot be
    matched (star arguments, unknown keyword, a missing argument without a default) or an argument is not a plain expression."""
    params = [a.arg for a in m.args.args[1:]] + [a.arg for a in m.args.kwonlyargs]
    pos = [a.arg for a in m.args.args[1:]]
    if any(isinstance(a, ast.Starred) for a in call.args) or any(k.arg is None for k in call.keywords) or len(call.args) > len(pos):
        return None
    out: Dict[str, ast.AST] = dict(zip(pos, call.args))
    for k in call.keywords:
        if k.arg not in params or k.arg in out:
            return None
        out[k.arg] = k.value
    defaults = dict(zip(reversed(pos), reversed(m.args.defaults)))
    for a, d in zip(m.args.kwonlyargs, m.args.kw_defaults):
        if d is not None:
            defaults[a.arg] = d
    for p_ in params:
        if p_ not in out:
            if p_ not in defaults:
                return None
            out[p_] = defaults[p_]
    # each parameter must be used at most once in the expression, or its argument be a plain name / attribute / constant (no re-evaluation)
    expr = _body_wo_doc(m)[0].value
    for p_, a_ in out.items():
        n_use = sum(1 for x in ast.walk(expr) if isinstance(x, ast.Name) and x.id == p_)
        if n_use > 1 and not isinstance(a_, (ast.Name, ast.Attribute, ast.Constant)):
            return None
    return out


def scalarize_new_aggregates(trees: Dict[str, ast.Module], known_classes: Set[str]) -> List[str]:
    """A local variable holding an instance of a record class introduced after the rules were written (a dataclass / NamedTuple
    grouping values that used to be separate locals), and only ever used as `v.<field>`, is read as the separate locals
    `v__<field>` again (scalar replacement of aggregates)."""
    records: Dict[str, Dict[str, Optional[ast.AST]]] = {}
    methods: Dict[str, Dict[str, ast.FunctionDef]] = {}
    for t in trees.values():
        for c in t.body:
            if isinstance(c, ast.ClassDef) and c.name not in known_classes:
                fields: Dict[str, Optional[ast.AST]] = {}
                meths: Dict[str, ast.FunctionDef] = {}
                ok = True
                for st in c.body:
                    if isinstance(st, ast.AnnAssign) and isinstance(st.target, ast.Name):
                        fields[st.target.id] = st.value
                    elif isinstance(st, ast.Expr) and isinstance(st.value, ast.Constant):
                        continue
                    elif isinstance(st, ast.FunctionDef) and not st.decorator_list and st.args.args and not st.args.vararg and not st.args.kwarg \
                            and len(_body_wo_doc(st)) == 1 and isinstance(_body_wo_doc(st)[0], ast.Return) and _body_wo_doc(st)[0].value is not None:
                        # a method that is one expression over the fields and its parameters: expanded at its calls
                        meths[st.name] = st
                    elif isinstance(st, ast.FunctionDef) and not st.decorator_list:
                        pass  # another method: a use `v.m(..)` of it keeps the record (checked per use); its presence alone does not
                    else:
                        ok = False
                if ok and fields:
                    records[c.name] = fields
                    methods[c.name] = meths
    done: List[str] = []
    if not records:
        return done

    def default_of(v: Optional[ast.AST]) -> Optional[ast.AST]:
        if v is None:
            return None
        if isinstance(v, ast.Call) and isinstance(v.func, ast.Name) and v.func.id == "field":
            for k in v.keywords:
                if k.arg == "default_factory":
                    return ast.Call(func=copy.deepcopy(k.value), args=[], keywords=[])
                if k.arg == "default":
                    return copy.deepcopy(k.value)
            return None
        return copy.deepcopy(v)

    # functions declared to return a new record (`-> R`): they are read as returning the plain tuple of its fields, and
    #   v = [await] f(..) ; v.<field> ...      as      v__f1, v__f2, .. = [await] f(..) ; v__<field> ...
    rec_funcs: Dict[str, str] = {}
    for t in trees.values():
        for fn in [n for n in ast.walk(t) if isinstance(n, FuncDef)]:
            if isinstance(fn.returns, ast.Name) and fn.returns.id in records and not methods.get(fn.returns.id):
                rec_funcs[fn.name] = fn.returns.id
    if rec_funcs:
        for t in trees.values():
            for fn in [n for n in ast.walk(t) if isinstance(n, FuncDef)]:
                if fn.name in rec_funcs:
                    cls = rec_funcs[fn.name]
                    for rt in [x for x in _own_nodes(fn) if isinstance(x, ast.Return) and isinstance(x.value, ast.Call)
                               and isinstance(x.value.func, ast.Name) and x.value.func.id == cls]:
                        c = rt.value
                        given = dict(zip(list(records[cls]), c.args))
                        given.update({k.arg: k.value for k in c.keywords if k.arg})
                        if set(given) == set(records[cls]) and not any(isinstance(a_, ast.Starred) for a_ in c.args):
                            rt.value = ast.copy_location(ast.Tuple(elts=[given[f_] for f_ in records[cls]], ctx=ast.Load()), c)
                    fn.returns = None
                asg: Dict[str, List[ast.Assign]] = {}
                for st in _own_nodes(fn):
                    if isinstance(st, ast.Assign) and len(st.targets) == 1 and isinstance(st.targets[0], ast.Name):
                        asg.setdefault(st.targets[0].id, []).append(st)
                for var, sts in asg.items():
                    if len(sts) != 1:
                        continue
                    v = sts[0].value.value if isinstance(sts[0].value, ast.Await) else sts[0].value
                    callee = v.func.attr if isinstance(v, ast.Call) and isinstance(v.func, ast.Attribute) else \
                        (v.func.id if isinstance(v, ast.Call) and isinstance(v.func, ast.Name) else None)
                    if callee not in rec_funcs:
                        continue
                    cls = rec_funcs[callee]
                    parents: Dict[int, ast.AST] = {}
                    for n in ast.walk(fn):
                        for c_ in ast.iter_child_nodes(n):
                            parents[id(c_)] = n
                    uses = [n for n in ast.walk(fn) if isinstance(n, ast.Name) and n.id == var and n is not sts[0].targets[0]]
                    if not uses or not all(isinstance(parents.get(id(n)), ast.Attribute) and parents[id(n)].attr in records[cls] for n in uses):
                        continue
                    used = {parents[id(n)].attr for n in uses}
                    sts[0].targets = [ast.Tuple(elts=[ast.Name(id=(f"{var}__{f_}" if f_ in used else "_"), ctx=ast.Store()) for f_ in records[cls]],
                                                ctx=ast.Store())]

                    class _RF(ast.NodeTransformer):
                        def visit_Attribute(self, node: ast.Attribute):
                            self.generic_visit(node)
                            if isinstance(node.value, ast.Name) and node.value.id == var and node.attr in records[cls]:
                                return ast.copy_location(ast.Name(id=f"{var}__{node.attr}", ctx=node.ctx), node)
                            return node
                    _RF().visit(fn)
                    # `.., v__f, .. = call ; T = v__f` (the only use of v__f, the next statement) is `.., T, .. = call`
                    for n in ast.walk(fn):
                        for fld_ in ("body", "orelse", "finalbody"):
                            L = getattr(n, fld_, None)
                            if not (isinstance(L, list) and any(x is sts[0] for x in L)):
                                continue
                            k = next(i for i, x in enumerate(L) if x is sts[0])
                            while k + 1 < len(L):
                                nx_ = L[k + 1]
                                if not (isinstance(nx_, ast.Assign) and len(nx_.targets) == 1 and isinstance(nx_.value, ast.Name)
                                        and nx_.value.id.startswith(var + "__")):
                                    break
                                nm = nx_.value.id
                                if sum(1 for x in ast.walk(fn) if isinstance(x, ast.Name) and x.id == nm) != 2:
                                    break
                                elts = sts[0].targets[0].elts
                                i_ = next(i for i, e_ in enumerate(elts) if isinstance(e_, ast.Name) and e_.id == nm)
                                elts[i_] = nx_.targets[0]
                                del L[k + 1]
                    ast.fix_missing_locations(fn)
                    done.append(f"{fn.name}.{var}:{cls} (returned by {callee})")
    for t in trees.values():
        for fn in [n for n in ast.walk(t) if isinstance(n, FuncDef)]:
            _split_record_sites(fn, records)
            inst: Dict[str, Tuple[str, List[ast.stmt]]] = {}
            for st in _own_nodes(fn):
                tgt = val = None
                if isinstance(st, ast.AnnAssign) and isinstance(st.target, ast.Name):
                    tgt, val = st.target.id, st.value
                elif isinstance(st, ast.Assign) and len(st.targets) == 1 and isinstance(st.targets[0], ast.Name):
                    tgt, val = st.targets[0].id, st.value
                if tgt and isinstance(val, ast.Call):
                    f_ = val.func
                    if isinstance(f_, ast.Subscript):
                        f_ = f_.value
                    if isinstance(f_, ast.Name) and f_.id in records and len(val.args) <= len(records[f_.id]) \
                            and not any(isinstance(a_, ast.Starred) for a_ in val.args) and all(k_.arg for k_ in val.keywords):
                        if tgt in inst and inst[tgt][0] != f_.id:
                            inst[tgt] = ("", [st])  # two kinds of value: give up
                        elif tgt in inst:
                            inst[tgt][1].append(st)  # built in several branches, every time as a whole
                        else:
                            inst[tgt] = (f_.id, [st])
                        continue
                if tgt and tgt in inst:
                    inst[tgt] = ("", [st])  # also assigned something else: give up
            for var, (cls, sts) in list(inst.items()):
                if not cls:
                    continue
                st = sts[0]
                # every use of var (nested closures included) must be var.<field>
                uses_ok = True
                parents: Dict[int, ast.AST] = {}
                for n in ast.walk(fn):
                    for c in ast.iter_child_nodes(n):
                        parents[id(c)] = n
                for n in ast.walk(fn):
                    if isinstance(n, ast.Name) and n.id == var:
                        par = parents.get(id(n))
                        if any(par is s_ for s_ in sts):
                            continue
                        if isinstance(par, ast.Assign) and par.value is n and len(par.targets) == 1 and isinstance(par.targets[0], (ast.Tuple, ast.List)) \
                                and len(par.targets[0].elts) == len(records[cls]) and not any(isinstance(e_, ast.Starred) for e_ in par.targets[0].elts):
                            continue  # a, b, c = v : the fields in order
                        if isinstance(par, ast.Attribute) and par.value is n and par.attr in methods.get(cls, {}):
                            gp = parents.get(id(par))
                            if not (isinstance(gp, ast.Call) and gp.func is par and _bind_method(methods[cls][par.attr], gp) is not None):
                                uses_ok = False
                            continue
                        if not (isinstance(par, ast.Attribute) and par.value is n and par.attr in records[cls]):
                            uses_ok = False
                if not uses_ok:
                    continue
                inits_of: Dict[int, List[ast.stmt]] = {}
                const_fields: Dict[str, ast.AST] = {}
                complete = True
                for s_ in sts:
                    val = s_.value  # type: ignore[attr-defined]
                    given = dict(zip(list(records[cls]), val.args))
                    given.update({k.arg: k.value for k in val.keywords if k.arg})
                    inits: List[ast.stmt] = []
                    for fld, dv in records[cls].items():
                        e = given.get(fld) or default_of(dv)
                        if e is None:
                            complete = False
                            break
                        if len(sts) == 1 and isinstance(e, ast.Constant):
                            const_fields[fld] = e  # read in place: the use is the constant itself
                            continue
                        if len(sts) == 1 and isinstance(e, ast.Name) and e.id in {x.arg for x in fn.args.posonlyargs + fn.args.args + fn.args.kwonlyargs} \
                                and not any(isinstance(x, ast.Name) and x.id == e.id and isinstance(x.ctx, (ast.Store, ast.Del)) for x in ast.walk(fn)) \
                                and not any(isinstance(x, ast.Attribute) and isinstance(x.value, ast.Name) and x.value.id == var and x.attr == fld
                                            and isinstance(x.ctx, (ast.Store, ast.Del)) for x in ast.walk(fn)):
                            const_fields[fld] = e  # a parameter of the function that is never re-bound: the field IS that parameter
                            continue
                        inits.append(ast.Assign(targets=[ast.Name(id=f"{var}__{fld}", ctx=ast.Store())], value=e))
                    inits_of[id(s_)] = inits
                if not complete:
                    continue

                class _R(ast.NodeTransformer):
                    def visit_Assign(self, node: ast.Assign):
                        if isinstance(node.value, ast.Name) and node.value.id == var and len(node.targets) == 1 \
                                and isinstance(node.targets[0], (ast.Tuple, ast.List)) and len(node.targets[0].elts) == len(records[cls]):
                            node.value = ast.copy_location(ast.Tuple(elts=[
                                copy.deepcopy(const_fields[f_]) if f_ in const_fields else ast.Name(id=f"{var}__{f_}", ctx=ast.Load())
                                for f_ in records[cls]], ctx=ast.Load()), node.value)
                            return node
                        self.generic_visit(node)
                        return node

                    def visit_Call(self, node: ast.Call):
                        f__ = node.func
                        if isinstance(f__, ast.Attribute) and isinstance(f__.value, ast.Name) and f__.value.id == var \
                                and f__.attr in methods.get(cls, {}):
                            m_ = methods[cls][f__.attr]
                            b_ = _bind_method(m_, node)
                            if b_ is not None:
                                selfname = m_.args.args[0].arg
                                expr = copy.deepcopy(_body_wo_doc(m_)[0].value)

                                class _M(ast.NodeTransformer):
                                    def visit_Attribute(self, a_: ast.Attribute):
                                        self.generic_visit(a_)
                                        if isinstance(a_.value, ast.Name) and a_.value.id == selfname and a_.attr in records[cls]:
                                            if a_.attr in const_fields and isinstance(a_.ctx, ast.Load):
                                                return copy.deepcopy(const_fields[a_.attr])
                                            return ast.Name(id=f"{var}__{a_.attr}", ctx=a_.ctx)
                                        return a_

                                    def visit_Name(self, n_: ast.Name):
                                        if n_.id in b_ and isinstance(n_.ctx, ast.Load):
                                            return copy.deepcopy(b_[n_.id])
                                        return n_
                                expr = _M().visit(expr)
                                expr = self.visit(expr)  # arguments may mention var.<field> themselves
                                return ast.copy_location(expr, node)
                        self.generic_visit(node)
                        return node

                    def visit_Attribute(self, node: ast.Attribute):
                        self.generic_visit(node)
                        if isinstance(node.value, ast.Name) and node.value.id == var and node.attr in records[cls]:
                            if node.attr in const_fields and isinstance(node.ctx, ast.Load):
                                return ast.copy_location(copy.deepcopy(const_fields[node.attr]), node)
                            return ast.copy_location(ast.Name(id=f"{var}__{node.attr}", ctx=node.ctx), node)
                        return node

                def swap(stmts):
                    out = []
                    for x in stmts:
                        if id(x) in inits_of:
                            for i_ in inits_of[id(x)]:
                                ast.copy_location(i_, x)
                                ast.fix_missing_locations(i_)
                            out += inits_of[id(x)]
                            continue
                        for fld_ in ("body", "orelse", "finalbody"):
                            v_ = getattr(x, fld_, None)
                            if isinstance(v_, list) and v_ and isinstance(v_[0], ast.stmt):
                                setattr(x, fld_, swap(v_))
                        if isinstance(x, ast.Try):
                            for hd in x.handlers:
                                hd.body = swap(hd.body)
                        out.append(x)
                    return out
                fn.body = swap(fn.body)
                _R().visit(fn)
                ast.fix_missing_locations(fn)
                done.append(f"{fn.name}.{var}:{cls}")
    return done
