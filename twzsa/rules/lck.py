"""LCK - build lock, description predicate, build-state discipline (DESIGN 4.5)."""
from __future__ import annotations

import ast
from typing import Dict, List, Optional, Set, Tuple

from ..ctx import Ctx, dotted, names_in, parents_map
from ..loader import FuncInfo, ModInfo, iter_own_nodes, own_walk
from ..report import RuleResult, Undecided, norm_src
from .ref import pkg_funcs


class BuildState:
    """The module that holds the build lock, the lock, the mutable build state and the description predicate."""

    def __init__(self, ctx: Ctx):
        self.ctx = ctx
        locks = []
        for m in ctx.P.modules.values():
            for name, st in m.globals_.items():
                v = st.value if isinstance(st, (ast.Assign, ast.AnnAssign)) else None
                if isinstance(v, ast.Call) and (dotted(v.func) or "").split(".")[-1] in ("Lock", "RLock"):
                    locks.append((m, name))
        if len(locks) != 1:
            raise Undecided(f"build lock: expected one module-level Lock, found {[(m.name, n) for m, n in locks]}")
        self.mod, self.lock = locks[0]
        self.lock_q = f"{self.mod.name}.{self.lock}"
        # state: module-level names of that module that are re-bound from functions anywhere, or mutated
        cand = [n for n in self.mod.globals_ if n != self.lock]
        state: Set[str] = set()
        for f in ctx.funcs():
            for n in iter_own_nodes(f.node):
                if isinstance(n, ast.Assign):
                    for t in n.targets:
                        q = self.resolve(f, t)
                        if q is not None and q[1] in cand:
                            state.add(q[1])
                if isinstance(n, ast.Global) and f.module is self.mod:
                    state.update(x for x in n.names if x in cand)
        # module-level containers mutated through methods / item writes
        for f in ctx.funcs():
            for n in iter_own_nodes(f.node):
                tgt = None
                if isinstance(n, ast.Assign) and isinstance(n.targets[0], ast.Subscript):
                    tgt = n.targets[0].value
                elif isinstance(n, ast.Call) and isinstance(n.func, ast.Attribute) and n.func.attr in ("append", "pop", "update", "clear", "force_set"):
                    tgt = n.func.value
                if tgt is not None:
                    q = self.resolve(f, tgt)
                    if q is not None and q[1] in cand:
                        v = self.mod.globals_[q[1]]
                        if isinstance(v, (ast.Assign, ast.AnnAssign)) and not isinstance(v.value, ast.Constant):
                            state.add(q[1])
        self.state = sorted(state)
        if len(self.state) < 3:
            raise Undecided(f"build state: expected the node table, the constants and the prefix stack, found {self.state}")
        # predicate functions: module-level functions of that module returning a bool built from the lock or the owner
        self.predicates: List[FuncInfo] = []
        for f in self.mod.funcs.values():
            if not f.node.args.args and ctx.T.ann(self.mod, f.node.returns) == ("bool",):
                src_names = names_in(f.node)
                if self.lock in src_names or any(s in src_names for s in self.state):
                    self.predicates.append(f)

    def resolve(self, f: FuncInfo, e: ast.AST) -> Optional[Tuple[str, str]]:
        """(module, name) if e denotes a module-level name of the lock's module."""
        ctx = self.ctx
        if isinstance(e, ast.Name):
            if f.module is self.mod and e.id in self.mod.globals_:
                # shadowed by a parameter / local?
                for g in ctx.P.enclosing_chain(f):
                    a = g.node.args
                    if e.id in [p.arg for p in a.posonlyargs + a.args + a.kwonlyargs]:
                        return None
                    glob = any(isinstance(n, ast.Global) and e.id in n.names for n in iter_own_nodes(g.node))
                    local = any(isinstance(n, (ast.Assign, ast.AnnAssign)) and any(
                        isinstance(t, ast.Name) and t.id == e.id for t in (n.targets if isinstance(n, ast.Assign) else [n.target]))
                        for n in iter_own_nodes(g.node))
                    if local and not glob:
                        return None
                return (self.mod.name, e.id)
            q = ctx.P.resolve_name(f.module, e.id)
            if q and q.rsplit(".", 1)[0] == self.mod.name and q.rsplit(".", 1)[1] in self.mod.globals_ and f.module is not self.mod:
                return (self.mod.name, q.rsplit(".", 1)[1])
            return None
        if isinstance(e, ast.Attribute):
            bt = ctx.type_of(f, e.value)
            if bt[0] == "module" and bt[1] == self.mod.name and e.attr in self.mod.globals_:
                return (self.mod.name, e.attr)
        return None

    # ------------------------------------------------------------------ protection
    def lock_regions(self, f: FuncInfo) -> List[ast.With]:
        out = []
        for n in iter_own_nodes(f.node):
            if isinstance(n, (ast.With, ast.AsyncWith)):
                for it in n.items:
                    r = self.resolve(f, it.context_expr)
                    if r is not None and r[1] == self.lock:
                        out.append(n)
        return out

    def is_pred_call(self, f: FuncInfo, e: ast.AST) -> bool:
        if isinstance(e, ast.Call):
            q = self.ctx.T.resolve_callee(f, e)
            return any(q == p.qualname for p in self.predicates)
        return False

    def guarded(self, f: FuncInfo, node: ast.AST) -> Optional[str]:
        """How the position of ``node`` in f is protected: 'lock', 'predicate', or None."""
        for w in self.lock_regions(f):
            if any(node is x for s in w.body for x in ast.walk(s)):
                return "lock"
        # description guard: inside `if <pred>` / after `if not <pred>: return|raise`
        pred_vars = set()
        for n in iter_own_nodes(f.node):
            if isinstance(n, ast.Assign) and isinstance(n.targets[0], ast.Name) and self.is_pred_call(f, n.value):
                pred_vars.add(n.targets[0].id)

        def is_pred(e: ast.AST) -> bool:
            return self.is_pred_call(f, e) or (isinstance(e, ast.Name) and e.id in pred_vars)

        def is_not_pred(e: ast.AST) -> bool:
            return isinstance(e, ast.UnaryOp) and isinstance(e.op, ast.Not) and is_pred(e.operand)

        def search(stmts: List[ast.stmt], prot: bool) -> Optional[bool]:
            for s in stmts:
                if s is node or any(node is x for x in ast.walk(s)):
                    if isinstance(s, ast.If):
                        if any(node is x for x in ast.walk(s.test)):
                            return prot
                        inb = any(node is x for b in s.body for x in ast.walk(b))
                        if inb:
                            return search(s.body, prot or is_pred(s.test))
                        return search(s.orelse, prot or is_not_pred(s.test))
                    for field in ("body", "orelse", "finalbody"):
                        sub = getattr(s, field, None)
                        if isinstance(sub, list) and any(node is x for b in sub for x in ast.walk(b) if isinstance(b, ast.AST)):
                            return search(sub, prot)
                    if isinstance(s, ast.Try):
                        for h in s.handlers:
                            if any(node is x for b in h.body for x in ast.walk(b)):
                                return search(h.body, prot)
                    return prot
                if isinstance(s, ast.If) and is_not_pred(s.test) and s.body and isinstance(s.body[-1], (ast.Return, ast.Raise)) and not s.orelse:
                    prot = True
            return None

        res = search(f.node.body, False)
        if res:
            return "predicate"
        return None


def bs(ctx: Ctx) -> BuildState:
    return ctx.memo("build_state", lambda: BuildState(ctx))


# ---------------------------------------------------------------------------------------------- LCK-SET
def _accesses(ctx: Ctx, b: BuildState):
    for f in pkg_funcs(ctx):
        # a state container merely handed to a package function is not touched here: the callee's use of that parameter is the access
        handed: Dict[int, Tuple[FuncInfo, str]] = {}
        for call, q in ctx.calls_in(f):
            if q in ctx.P.funcs:
                callee = ctx.P.funcs[q]
                ca = callee.node.args
                cparams = [x.arg for x in ca.posonlyargs + ca.args + ca.kwonlyargs]
                skip = 1 if (callee.cls is not None and isinstance(call.func, ast.Attribute)) else 0
                for i, a in enumerate(call.args):
                    if isinstance(a, ast.Name) and i + skip < len(cparams):
                        handed[id(a)] = (callee, cparams[i + skip])
                for k in call.keywords:
                    if k.arg in cparams and isinstance(k.value, ast.Name):
                        handed[id(k.value)] = (callee, k.arg)
        for n in iter_own_nodes(f.node):
            if isinstance(n, (ast.Name, ast.Attribute)):
                if id(n) in handed:
                    r0 = b.resolve(f, n)
                    if r0 is not None and r0[1] in b.state:
                        callee, pn = handed[id(n)]
                        for u in iter_own_nodes(callee.node):
                            if isinstance(u, ast.Name) and u.id == pn and isinstance(u.ctx, ast.Load):
                                yield callee, u, r0[1]
                        continue
                if isinstance(n, ast.Attribute) and isinstance(getattr(n, "ctx", None), ast.Load) is False and not isinstance(n.ctx, (ast.Store, ast.Del)):
                    continue
                r = b.resolve(f, n)
                if r is not None and r[1] in b.state:
                    yield f, n, r[1]


def _protected(ctx: Ctx, b: BuildState, f: FuncInfo, node: ast.AST, depth: int, seen: Set[str]) -> Tuple[bool, str]:
    how = b.guarded(f, node)
    if how:
        return True, how
    if f in b.predicates:
        return True, "predicate itself (read of the owner identity)"
    if depth > 5 or f.qualname in seen:
        return False, "recursion"
    callers = ctx.callers_of(f.qualname)
    # nested functions are called where they are defined
    # methods reached through properties / dataclass construction
    if f.name in ("__post_init__", "__init__") and f.cls is not None:
        for c in ctx.P.subclasses(f.cls.qualname):
            callers = callers + ctx.callers_of(c.qualname)
    if f.cls is not None and "property" in f.decorators():
        for g in pkg_funcs(ctx):
            for n in iter_own_nodes(g.node):
                if isinstance(n, ast.Attribute) and n.attr == f.name and ctx.T.is_instance(ctx.type_of(g, n.value), f.cls.qualname):
                    callers.append((g, n))
    callers = [(g, c) for g, c in callers if not g.module.name.endswith("_twzsa_control")]
    if not callers:
        return False, f"{f.short} has no caller inside the package (public entry point)"
    for g, c in callers:
        ok, why = _protected(ctx, b, g, c, depth + 1, seen | {f.qualname})
        if not ok:
            return False, f"called unprotected from {g.short} ({why})"
    return True, "all callers protected"


def lck_set(ctx: Ctx) -> RuleResult:
    r = RuleResult("LCK-SET")
    b = bs(ctx)
    n = 0
    reported = set()
    for f, node, name in _accesses(ctx, b):
        n += 1
        ok, why = _protected(ctx, b, f, node, 0, set())
        r.ob(ok, {"access": f"{name} in {f.short}", "at": f.loc(node), "protection": why})
        if not ok and (f.qualname, name) not in reported:
            reported.add((f.qualname, name))
            r.violate(f"{f.short}: build state '{name}' accessed outside the build lock and outside a description guard", f.loc(node),
                      "the node table / constants / prefix of the DAG being described may be touched only by the describing thread: "
                      + why, norm_src(node))
    r.require(n >= 15, f"only {n} accesses to build state found (confirmed by hand: about 25)")
    r.note = f"lock {b.lock_q}; state {b.state}; predicates {[p.short for p in b.predicates]}"
    return r


# ---------------------------------------------------------------------------------------------- LCK-PRED
def lck_pred(ctx: Ctx) -> RuleResult:
    r = RuleResult("LCK-PRED")
    b = bs(ctx)
    # every use of Lock.locked() as a predicate is a violation
    n_locked = 0
    for f in pkg_funcs(ctx):
        for n in iter_own_nodes(f.node):
            if isinstance(n, ast.Call) and isinstance(n.func, ast.Attribute) and n.func.attr == "locked":
                rr = b.resolve(f, n.func.value)
                if rr is not None and rr[1] == b.lock:
                    n_locked += 1
                    alone = True
                    if f in b.predicates:
                        # allowed only in conjunction with an owner-identity comparison
                        rets = [x for x in iter_own_nodes(f.node) if isinstance(x, ast.Return)]
                        alone = not any(isinstance(c, ast.Compare) and _is_thread_identity(c) for x in rets for c in ast.walk(x))
                    r.ob(not alone, {"locked() read in": f.short})
                    if alone:
                        r.violate(f"{f.short}: Lock.locked() used as 'am I describing a DAG?'", f.loc(n),
                                  "locked() is true in EVERY thread while ANY thread holds the build lock: a DAG call or a decorated "
                                  "function call in another thread is taken for part of the description in progress", norm_src(n))
    r.require(bool(b.predicates) or n_locked, "no description predicate found")
    for p in b.predicates:
        rets = [x for x in iter_own_nodes(p.node) if isinstance(x, ast.Return)]
        r.require(len(rets) == 1, f"{p.short}: predicate body not a single return")
        cmps = [c for c in ast.walk(rets[0]) if isinstance(c, ast.Compare)]
        idc = [c for c in cmps if _is_thread_identity(c)]
        if not idc:
            weak = [c for c in cmps if _mentions_thread_attr(c)]
            if weak:
                r.ob(False)
                r.violate(f"{p.short}: the describing thread is identified by a non-unique key: {norm_src(weak[0])}", p.loc(rets[0]),
                          "thread names (and similar attributes) are not unique among live threads: two threads with the same name "
                          "are both taken for the describing thread", norm_src(weak[0]))
                continue
            if any(isinstance(c, ast.Call) and isinstance(c.func, ast.Attribute) and c.func.attr == "locked" for c in ast.walk(rets[0])):
                continue  # reported above
            mentions_state = any(b.resolve(p, x) is not None for x in ast.walk(rets[0]) if isinstance(x, (ast.Name, ast.Attribute)))
            if mentions_state:
                r.ob(False)
                r.violate(f"{p.short}: the description predicate does not involve the calling thread: {norm_src(rets[0].value)}", p.loc(rets[0]),
                          "a predicate built only from shared state is true in EVERY thread while ANY thread describes a DAG: calls made "
                          "by other threads are taken for part of the description in progress", norm_src(rets[0]))
                continue
            raise Undecided(f"{p.short}: predicate form not recognised: {norm_src(rets[0])}")
        c = idc[0]
        owner_side = c.left if not isinstance(c.left, ast.Call) else c.comparators[0]
        ow = b.resolve(p, owner_side)
        r.ob(ow is not None, {"predicate": norm_src(rets[0].value), "owner variable": ow[1] if ow else None})
        if ow is None:
            raise Undecided(f"{p.short}: owner side of the comparison is not a module-level name")
        owner = ow[1]
        # owner is written only inside the locked region, with the current thread's identity / a reset
        writes = []
        for f in pkg_funcs(ctx):
            for n in iter_own_nodes(f.node):
                if isinstance(n, ast.Assign):
                    for t in n.targets:
                        rr = b.resolve(f, t)
                        if rr is not None and rr[1] == owner:
                            writes.append((f, n))
        r.require(len(writes) >= 2, f"writes of the owner identity '{owner}' not found")
        for f, n in writes:
            inside = b.guarded(f, n) == "lock"
            v = n.value
            okv = _is_thread_identity_expr(v) or (isinstance(v, ast.Constant) and v.value is None)
            r.ob(inside and okv, {"owner write": norm_src(n), "in": f.short, "inside the locked region": inside})
            if not inside:
                r.violate(f"{f.short}: owner identity written outside the locked region: {norm_src(n)}", f.loc(n),
                          "a thread that is merely queueing for the build lock overwrites (and later clears) the identity of the "
                          "thread that is describing: the describing thread's next call is taken for a call outside any DAG",
                          norm_src(n))
            elif not okv:
                if _mentions_thread_attr(v):
                    r.violate(f"{f.short}: owner identity is a non-unique thread attribute: {norm_src(v)}", f.loc(n),
                              "thread names are not unique among live threads", norm_src(n))
                else:
                    raise Undecided(f"owner identity value not recognised: {norm_src(v)}")
        # set first, reset on every exit
        for f in {f.qualname: f for f, _ in writes}.values():
            for w in b.lock_regions(f):
                body = w.body
                first = body[0] if body else None
                ok1 = isinstance(first, ast.Assign) and _is_thread_identity_expr(first.value)
                tr = next((s for s in body if isinstance(s, ast.Try)), None)
                ok2 = tr is not None and any(isinstance(s, ast.Assign) and isinstance(s.value, ast.Constant) and s.value.value is None
                                             for s in tr.finalbody)
                r.ob(ok1 and ok2, {"owner set first in the locked region": ok1, "reset in finally": ok2})
                if writes and any(g is f for g, _ in writes) and any(b.guarded(f, n) == "lock" for g, n in writes if g is f):
                    if not ok2:
                        r.violate(f"{f.short}: owner identity not reset on every exit of the locked region", f.loc(w),
                                  "after a failed description the thread keeps being taken for a describing thread", None)
    return r


def _is_thread_identity_expr(e: ast.AST) -> bool:
    if isinstance(e, ast.Call):
        d = dotted(e.func) or ""
        if d.split(".")[-1] in ("get_ident", "get_native_id", "current_thread", "currentThread"):
            return True
    if isinstance(e, ast.Attribute) and e.attr in ("ident", "native_id") and isinstance(e.value, ast.Call) \
            and (dotted(e.value.func) or "").split(".")[-1] in ("current_thread", "currentThread"):
        return True
    return False


def _is_thread_identity(c: ast.Compare) -> bool:
    if len(c.ops) != 1 or not isinstance(c.ops[0], (ast.Eq, ast.Is)):
        return False
    return _is_thread_identity_expr(c.left) or _is_thread_identity_expr(c.comparators[0])


def _mentions_thread_attr(e: ast.AST) -> bool:
    for x in ast.walk(e):
        if isinstance(x, ast.Attribute) and x.attr in ("name", "getName", "daemon") and isinstance(x.value, ast.Call) \
                and (dotted(x.value.func) or "").split(".")[-1] in ("current_thread", "currentThread"):
            return True
        if isinstance(x, ast.Call) and (dotted(x.func) or "").split(".")[-1] in ("getpid",):
            return True
    return False


# ---------------------------------------------------------------------------------------------- LCK-RESET
def lck_reset(ctx: Ctx) -> RuleResult:
    r = RuleResult("LCK-RESET")
    b = bs(ctx)
    containers = [s for s in b.state if not (isinstance(b.mod.globals_[s], (ast.Assign, ast.AnnAssign)) and
                                             isinstance(b.mod.globals_[s].value, ast.Constant))]
    # the function that runs the description: contains a try/finally that re-binds every container
    resetters = []
    for f in pkg_funcs(ctx):
        for n in iter_own_nodes(f.node):
            if isinstance(n, ast.Try) and n.finalbody:
                reset = {b.resolve(f, t)[1] for s in n.finalbody if isinstance(s, ast.Assign) for t in s.targets if b.resolve(f, t)}
                if reset & set(containers):
                    resetters.append((f, n, reset))
    r.require(len(resetters) >= 1, "reset of the build state in a finally block not found")
    f, tr, reset = resetters[0]
    miss = sorted(set(containers) - reset)
    r.ob(not miss, {"reset in finally": sorted(reset), "in": f.short})
    if miss:
        r.violate(f"{f.short}: build state {miss} not reset after the description", f.loc(tr),
                  "nodes / constants / prefix of this description leak into the next DAG that is built", sorted(reset))
    # also reset before the description
    before = set()

    def block_of(stmts):
        if any(x is tr for x in stmts):
            return stmts
        for st in stmts:
            for fld in ("body", "orelse", "finalbody"):
                v = getattr(st, fld, None)
                if isinstance(v, list) and v and isinstance(v[0], ast.stmt) and not isinstance(st, (ast.FunctionDef, ast.AsyncFunctionDef, ast.ClassDef)):
                    got = block_of(v)
                    if got is not None:
                        return got
        return None
    for s in (block_of(f.node.body) or f.node.body):
        if s is tr:
            break
        if isinstance(s, ast.Assign):
            for t in s.targets:
                rr = b.resolve(f, t)
                if rr:
                    before.add(rr[1])
    miss2 = sorted(set(containers) - before)
    r.ob(not miss2, {"reset before the description": sorted(before)})
    if miss2:
        r.violate(f"{f.short}: build state {miss2} not cleared before the description", f.loc(), "", sorted(before))
    # the resetter runs under the lock
    ok, why = _protected(ctx, b, f, tr, 0, set())
    r.ob(ok, {"runs under the build lock": why})
    if not ok:
        r.violate(f"{f.short}: build state reset outside the build lock", f.loc(tr), why, None)
    return r


PROCESS_GLOBALS = ("warnings.catch_warnings", "warnings.simplefilter", "warnings.filterwarnings", "warnings.resetwarnings",
                   "os.chdir", "os.putenv", "os.umask", "sys.setrecursionlimit", "sys.settrace", "sys.setprofile", "threading.settrace",
                   "contextlib.redirect_stdout", "contextlib.redirect_stderr", "signal.signal", "locale.setlocale", "random.seed",
                   "gc.disable", "gc.enable", "logging.disable", "socket.setdefaulttimeout")


def lck_globals(ctx: Ctx) -> RuleResult:
    """The library does not change process-wide interpreter state: what one thread sets while it describes or runs a DAG is what
    every other thread sees (warnings filters, working directory, trace functions, ...)."""
    r = RuleResult("LCK-GLOBALS")
    n = 0
    for f in pkg_funcs(ctx):
        for c, q in ctx.calls_in(f):
            n += 1
            d = dotted(c.func) or ""
            hit = next((g for g in PROCESS_GLOBALS if d == g or d.endswith("." + g) or (q or "") == "ext:" + g), None)
            if hit is None and isinstance(c.func, ast.Name) and q and q.startswith("ext:") and q[4:] in PROCESS_GLOBALS:
                hit = q[4:]
            if hit is not None:
                r.ob(False, {"in": f.short, "changes process-wide state": hit})
                r.violate(f"{f.short}: {hit} changes state shared by every thread of the process", f.loc(c),
                          "while one thread is inside this code every other thread is affected: e.g. with the warnings filters replaced "
                          "during a description, the RuntimeWarning another thread must emit is swallowed", norm_src(c)[:100])
        for n_ in iter_own_nodes(f.node):
            if isinstance(n_, (ast.Assign, ast.AugAssign)):
                for t in (n_.targets if isinstance(n_, ast.Assign) else [n_.target]):
                    if isinstance(t, ast.Subscript) and dotted(t.value) == "os.environ":
                        r.violate(f"{f.short}: os.environ is modified", f.loc(n_), "process-wide state", norm_src(n_)[:80])
    r.ob(True, {"calls inspected": n})
    r.require(n >= 100, f"only {n} calls inspected")
    return r


# ---------------------------------------------------------------------------------------------- LCK-PAIR
def lck_pair(ctx: Ctx) -> RuleResult:
    """The prefix pushed by the splice is popped on every normal exit after the push."""
    r = RuleResult("LCK-PAIR")
    from ..splice import SpliceInterp

    sp = ctx.memo("splice_interp", lambda: SpliceInterp(ctx))
    f = sp.fn
    body = sp.block.body
    push_i = None
    for i, s in enumerate(body):
        if any(isinstance(x, ast.Call) and isinstance(x.func, ast.Attribute) and x.func.attr == "append"
               and (dotted(x.func.value) or "").endswith("DAG_PREFIX") for x in ast.walk(s)):
            push_i = i
            break
    r.require(push_i is not None, "push not found at the top level of the splice block")

    def pops(stmts) -> bool:
        return any(isinstance(x, ast.Call) and isinstance(x.func, ast.Attribute) and x.func.attr == "pop"
                   and (dotted(x.func.value) or "").endswith("DAG_PREFIX") for s in stmts for x in ast.walk(s))

    n_ret = 0

    def scan(stmts, covered: bool):
        nonlocal n_ret
        for s in stmts:
            if isinstance(s, ast.Return):
                n_ret += 1
                r.ob(covered, {"return": norm_src(s)[:70], "prefix popped on this exit": covered})
                if not covered:
                    r.violate(f"{f.short} splice: return without popping the id prefix: {norm_src(s)[:60]}", f.loc(s),
                              "the sub-DAG's name stays on the prefix stack for the rest of the outer description: the nodes of the "
                              "next sub-DAG are registered inside this one's namespace (wrong ids, collisions)", norm_src(s))
            elif isinstance(s, ast.Try):
                c = covered or pops(s.finalbody)
                scan(s.body, c)
                for h in s.handlers:
                    scan(h.body, c)
                scan(s.orelse, c)
                scan(s.finalbody, covered)
            elif isinstance(s, ast.If):
                scan(s.body, covered)
                scan(s.orelse, covered)
            elif isinstance(s, (ast.For, ast.While, ast.With)):
                scan(s.body, covered)
            elif isinstance(s, (ast.FunctionDef, ast.AsyncFunctionDef)):
                continue

    scan(body[push_i + 1:], False)
    r.require(n_ret >= 3, f"only {n_ret} returns after the push")
    # fall-through end of the block
    last = body[-1]
    falls = not isinstance(last, (ast.Return, ast.Raise)) and not (isinstance(last, ast.Try) and all(
        isinstance(x, (ast.Return, ast.Raise)) for x in [last.body[-1]]))
    if falls:
        ok = pops(body[push_i + 1:])
        r.ob(ok, {"fall-through exit pops": ok})
    return r


def lck_rebind(ctx: Ctx) -> RuleResult:
    """The build lock is one object for the life of the process: nothing re-binds the module-level name.

    A thread that holds the lock (a description in progress) and a thread that takes the lock later must contend for the same
    object; a function that assigns a fresh Lock to the name lets the second builder in while the first is still building."""
    r = RuleResult("LCK-REBIND")
    b = BuildState(ctx)
    hits = []
    for f in pkg_funcs(ctx):
        globs = {x for n in iter_own_nodes(f.node) if isinstance(n, ast.Global) for x in n.names}
        for n in iter_own_nodes(f.node):
            tgts = n.targets if isinstance(n, ast.Assign) else ([n.target] if isinstance(n, (ast.AnnAssign, ast.AugAssign)) else [])
            for t in tgts:
                if isinstance(t, ast.Name) and t.id == b.lock and t.id in globs and f.module is b.mod:
                    hits.append((f, n))
                elif isinstance(t, ast.Attribute) and t.attr == b.lock:
                    q = b.resolve(f, t)
                    if q is not None and q[1] == b.lock:
                        hits.append((f, n))
            if isinstance(n, ast.Call) and dotted(n.func) == "setattr" and len(n.args) == 3 and isinstance(n.args[1], ast.Constant) and n.args[1].value == b.lock:
                hits.append((f, n))
    # module-level re-binding after the definition
    defs = [st for st in b.mod.tree.body if isinstance(st, (ast.Assign, ast.AnnAssign))
            and any(isinstance(t, ast.Name) and t.id == b.lock for t in (st.targets if isinstance(st, ast.Assign) else [st.target]))]
    r.ob(len(defs) == 1 and not hits, {"lock": b.lock_q, "bound at module level": len(defs), "re-bound in functions": [f.short for f, _ in hits]})
    for f, n in hits:
        # a hook that runs in a forked CHILD only starts a new process image: the parent's builders never see it
        child_only = False
        for m in ctx.P.modules.values():
            for c in ast.walk(m.tree):
                if isinstance(c, ast.Call) and (dotted(c.func) or "").endswith("register_at_fork"):
                    roles = {k.arg for k in c.keywords if dotted(k.value) == f.name}
                    if roles and roles <= {"after_in_child"}:
                        child_only = True
                    elif roles:
                        child_only = False
                        break
        if child_only:
            continue
        r.violate(f"{f.short}: the build lock {b.lock} is re-bound to a new object", f.loc(n),
                  "a description in progress holds the old lock object; the next builder takes the new, free one: two descriptions "
                  "overlap and write the same registry (and the owner of the first is reset under it)", norm_src(n))
    if len(defs) > 1:
        r.violate(f"{b.mod.name}: the build lock {b.lock} is bound {len(defs)} times at module level", f"{b.mod.rel}:{defs[1].lineno}", "", None)
    return r


def lck_runfree(ctx: Ctx) -> RuleResult:
    """No function on a run path (the DAG / executor entry points, the scheduler, ExecNode.execute) acquires a module-level lock.

    The one lock of the package serialises DESCRIPTIONS. A run path that takes it (or any other process-wide lock) makes every call wait for
    a description in progress in another thread - or deadlock with it - and serialises nodes the scheduler believes to be running in
    parallel (they hold a pool slot while they queue on the lock)."""
    from .own import own

    r = RuleResult("LCK-RUNFREE")
    locks: Dict[str, str] = {}
    for mname, m in ctx.P.modules.items():
        if mname.endswith("_twzsa_control"):
            continue
        for st in m.tree.body:
            tg = st.targets[0] if isinstance(st, ast.Assign) and len(st.targets) == 1 else (st.target if isinstance(st, ast.AnnAssign) else None)
            v = getattr(st, "value", None)
            if isinstance(tg, ast.Name) and isinstance(v, ast.Call) and (dotted(v.func) or "").split(".")[-1] in (
                    "Lock", "RLock", "Semaphore", "BoundedSemaphore", "Condition"):
                locks[tg.id] = mname
    r.ob(bool(locks), {"module-level locks": sorted(locks)})
    r.require(bool(locks), "no module-level lock found in the package (the description lock is expected)")
    o = own(ctx)
    fs = list(o.reachable())
    ex = ctx.own_method("ExecNode", "execute")
    if ex is not None and all(f.qualname != ex.qualname for f in fs):
        fs.append(ex)
    from .sch import model

    try:
        m_ = model(ctx)
        for g in [m_.fn] + [h.fn for h in m_.helpers.values()]:
            if all(f.qualname != g.qualname for f in fs):
                fs.append(g)
    except Exception:
        pass
    r.require(len(fs) >= 20, f"only {len(fs)} functions on the run paths")
    n_ok = 0
    for f in fs:
        for n in iter_own_nodes(f.node):
            if id(n) in o.splice_nodes:
                continue  # the description branch of DAG.__call__ runs under the lock by construction
            exprs = []
            if isinstance(n, (ast.With, ast.AsyncWith)):
                for it in n.items:
                    exprs += [x for x in ast.walk(it.context_expr) if isinstance(x, (ast.Name, ast.Attribute))]
            elif isinstance(n, ast.Call) and isinstance(n.func, ast.Attribute) and n.func.attr == "acquire":
                exprs = [n.func.value]
            for e in exprs:
                nm = (dotted(e) or "").split(".")[-1]
                if nm in locks:
                    r.ob(False, {"in": f.short, "acquires": nm})
                    r.violate(f"{f.short}: a run path acquires the module-level lock '{nm}'", f.loc(n),
                              "every call of every DAG in the process queues on it: a call made while another thread is describing a DAG "
                              "waits for (or deadlocks with) that description, and nodes that the scheduler counts as running in parallel "
                              "execute one after the other", norm_src(n)[:100])
        n_ok += 1
    r.ob(True, {"run-path functions examined": n_ok})
    return r


RULES = {"LCK-RUNFREE": lck_runfree, "LCK-REBIND": lck_rebind, "LCK-GLOBALS": lck_globals, "LCK-SET": lck_set, "LCK-PRED": lck_pred, "LCK-RESET": lck_reset, "LCK-PAIR": lck_pair}
