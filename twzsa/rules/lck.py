"""lck rules."""
RULES = {}
