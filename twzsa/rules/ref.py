"""REF - reference integrity of the tracer (DESIGN 4.2)."""
from __future__ import annotations

import ast
from typing import Dict, Iterable, List, Optional, Set, Tuple

from ..ctx import Ctx, const_str, dotted, names_in, parents_map
from ..loader import FuncInfo, iter_own_nodes, own_walk
from ..report import RuleResult, Undecided, norm_src

# --------------------------------------------------------------------------------------------- shared facts


def uxn_q(ctx: Ctx) -> str:
    return ctx.cls_q("UsageExecNode")


def xn_q(ctx: Ctx) -> str:
    return ctx.cls_q("ExecNode")


def is_uxn(ctx: Ctx, t: tuple) -> bool:
    return ctx.T.is_instance(t, uxn_q(ctx))


def is_xn(ctx: Ctx, t: tuple) -> bool:
    return ctx.T.is_instance(t, xn_q(ctx))


def reference_fields(ctx: Ctx) -> List[str]:
    """Dataclass fields of ExecNode whose annotation mentions UsageExecNode."""
    def build():
        c = ctx.P.classes[xn_q(ctx)]
        out = []
        for name, ann in ctx.P.all_fields(c).items():
            if "UsageExecNode" in ast.unparse(ann):
                out.append(name)
        if len(out) < 3:
            raise Undecided(f"reference-bearing fields of ExecNode: expected at least args/kwargs/active, found {out}")
        return out
    return ctx.memo("reference_fields", build)


def pkg_funcs(ctx: Ctx) -> List[FuncInfo]:
    return [f for f in ctx.funcs() if not f.module.name.endswith("_twzsa_control")]


def control_funcs(ctx: Ctx) -> List[FuncInfo]:
    return [f for f in ctx.funcs() if f.module.name.endswith("_twzsa_control")]


# --------------------------------------------------------------------------------------------- REF-DEREF
def _deref_sites(ctx: Ctx, funcs: Iterable[FuncInfo]):
    """(func, node, container type, kind) for every value read M[e.id] / M.get(e.id) with e a UsageExecNode."""
    uq = uxn_q(ctx)
    for f in funcs:
        if f.cls is not None and f.cls.qualname == uq:
            continue
        for n in iter_own_nodes(f.node):
            key = cont = None
            if isinstance(n, ast.Subscript) and isinstance(n.ctx, ast.Load):
                key, cont = n.slice, n.value
            elif isinstance(n, ast.Call) and isinstance(n.func, ast.Attribute) and n.func.attr in ("get", "pop", "__getitem__") \
                    and n.args:
                key, cont = n.args[0], n.func.value
            if key is None:
                continue
            if isinstance(key, ast.Attribute) and key.attr == "id" and is_uxn(ctx, ctx.type_of(f, key.value)):
                yield f, n, ctx.type_of(f, cont), key


def ref_deref(ctx: Ctx) -> RuleResult:
    r = RuleResult("REF-DEREF")
    n_sites = 0
    for f, n, ct, key in _deref_sites(ctx, pkg_funcs(ctx)):
        n_sites += 1
        node_table = ct[0] == "dict" and is_xn(ctx, ct[2])
        r.ob(node_table, {"site": norm_src(n), "in": f.short, "container": "node table" if node_table else "results/other map"})
        if not node_table:
            r.violate(f"{f.short}: {norm_src(n)}", f.loc(n),
                      "a results map is read by the bare id of a reference: the key path (indexing / unpacking the user wrote) is "
                      "ignored and an absent id raises instead of reading as None; UsageExecNode.result(results) is the accessor",
                      norm_src(n))
    # the accessor itself applies the key path and maps 'absent' to None
    res = ctx.method("UsageExecNode", "result")
    src = ast.unparse(res.node)
    p = res.node.args.args[1].arg
    has_member = any(isinstance(x, ast.Compare) and isinstance(x.ops[0], (ast.In, ast.NotIn)) and norm_src(x.left) == "self.id"
                     and dotted(x.comparators[0]) == p for x in ast.walk(res.node))
    if has_member:
        # the absent case must yield None (not raise, not another value)
        mif = [x for x in res.node.body if isinstance(x, ast.If) and isinstance(x.test, ast.Compare)
               and isinstance(x.test.ops[0], (ast.In, ast.NotIn)) and norm_src(x.test.left) == "self.id"]
        if len(mif) == 1:
            is_none = lambda st: isinstance(st, ast.Return) and (st.value is None or (isinstance(st.value, ast.Constant) and st.value.value is None))  # noqa: E731
            if isinstance(mif[0].test.ops[0], ast.In):
                rest = res.node.body[res.node.body.index(mif[0]) + 1:]
                absent_none = (bool(rest) and is_none(rest[0])) or (not rest) or (bool(mif[0].orelse) and is_none(mif[0].orelse[0]))
            else:
                absent_none = bool(mif[0].body) and is_none(mif[0].body[0])
            if not absent_none:
                r.ob(False)
                r.violate("UsageExecNode.result: an absent id does not read as None", res.loc(mif[0]),
                          "results of nodes that were not executed (sub-graph runs, deactivated nodes) must read as None", None)
        else:
            has_member = False
    uses_key = any(isinstance(x, ast.Attribute) and x.attr == "key" and dotted(x.value) == "self" for x in ast.walk(res.node))
    r.ob(has_member and uses_key, {"accessor": "UsageExecNode.result", "membership test": has_member, "applies key path": uses_key})
    if not uses_key:
        r.violate("UsageExecNode.result: key path not applied", res.loc(), "the accessor ignores the recorded key path", None)
    if not has_member:
        guards = [x for x in ast.walk(res.node) if isinstance(x, (ast.If, ast.IfExp, ast.Try))]
        if not guards:
            r.violate("UsageExecNode.result: the key path is applied without testing that the id has a result", res.loc(),
                      "the result of a node that did not run (sub-graph selection, deactivation) must read as None, also through an "
                      "index or an unpacking: without the membership guard the key path is applied to a missing value and raises",
                      norm_src(res.node.body[-1]))
            return r
        raise Undecided("UsageExecNode.result: 'absent id reads as None' not recognised")
    # positive control
    cf = control_funcs(ctx)
    if cf:
        hits = [1 for f, n, ct, key in _deref_sites(ctx, cf) if not (ct[0] == "dict" and is_xn(ctx, ct[2]))]
        r.require(len(hits) >= 1, "positive control for REF-DEREF did not match")
    r.note = f"{n_sites} reads keyed by <UsageExecNode>.id"
    return r


# --------------------------------------------------------------------------------------------- REF-KEY
def _key_ok(keyarg: Optional[ast.AST], src: str) -> bool:
    if keyarg is None:
        return False
    k = norm_src(keyarg)
    return k in (f"{src}.key", f"list({src}.key)", f"{src}.key.copy()", f"deepcopy({src}.key)", f"copy({src}.key)",
                 f"{src}.key[:]", f"copy.deepcopy({src}.key)", f"copy.copy({src}.key)")


def _uxn_constructions(ctx: Ctx, funcs: Iterable[FuncInfo]):
    uq = uxn_q(ctx)
    for f in funcs:
        if f.cls is not None and f.cls.qualname == uq:
            continue
        pm = None
        for n in iter_own_nodes(f.node):
            if isinstance(n, ast.Call) and ctx.T.resolve_callee(f, n, ctx.env_at(f, n)) == uq:
                if pm is None:
                    pm = parents_map(f.node)
                yield f, n, pm


def _key_sites(ctx: Ctx, funcs: Iterable[FuncInfo]):
    """(f, call, source uxn text or None, ok, how)"""
    for f, n, pm in _uxn_constructions(ctx, funcs):
        idexpr = n.args[0] if n.args else next((k.value for k in n.keywords if k.arg == "id"), None)
        keyarg = n.args[1] if len(n.args) > 1 else next((k.value for k in n.keywords if k.arg == "key"), None)
        srcs = []
        if idexpr is not None:
            for a in ast.walk(idexpr):
                if isinstance(a, ast.Attribute) and a.attr == "id" and is_uxn(ctx, ctx.type_of(f, a.value)):
                    srcs.append(norm_src(a.value))
        how = "derived"
        if not srcs:
            # replacement of a reference selected by a test on its id
            cur: ast.AST = n
            while id(cur) in pm:
                par = pm[id(cur)]
                if isinstance(par, ast.If) and any(cur is s or any(cur is x for x in ast.walk(s)) for s in par.body):
                    for c in ast.walk(par.test):
                        if isinstance(c, ast.Compare) and len(c.ops) == 1 and isinstance(c.ops[0], (ast.Eq, ast.Is)):
                            for side in (c.left, c.comparators[0]):
                                if isinstance(side, ast.Attribute) and side.attr == "id" and is_uxn(ctx, ctx.type_of(f, side.value)):
                                    srcs.append(norm_src(side.value))
                    if srcs:
                        how = "replacement"
                        break
                cur = par
        if not srcs:
            yield f, n, None, True, "fresh"
            continue
        src = srcs[0]
        yield f, n, src, _key_ok(keyarg, src), how


def ref_key(ctx: Ctx) -> RuleResult:
    r = RuleResult("REF-KEY")
    n_rel = 0
    for f, n, src, ok, how in _key_sites(ctx, pkg_funcs(ctx)):
        if src is None:
            continue
        n_rel += 1
        r.ob(ok, {"site": norm_src(n), "in": f.short, "source reference": src, "kind": how})
        if not ok:
            r.violate(f"{f.short}: {norm_src(n)}", f.loc(n),
                      f"a reference is re-identified from '{src}' without carrying its key path ({src}.key): an indexed or unpacked "
                      f"use silently becomes a use of the whole value", norm_src(n))
    r.require(n_rel >= 3, f"only {n_rel} re-identification sites found (today: 11 in the splice and in compose; a shared helper may reduce that)")
    # a reference is (id, key path): no table of references is keyed by the id alone - two references to different parts of one result
    # (pair[0] and pair[1], value and flag of one tuple) would collapse into the last one stored
    for f in pkg_funcs(ctx):
        for d in iter_own_nodes(f.node):
            if not (isinstance(d, ast.DictComp) and isinstance(d.key, ast.Attribute) and d.key.attr in ("id", "id_")):
                continue
            tgt = dotted(d.generators[0].target)
            if tgt is None or dotted(d.key.value) != tgt:
                continue
            it = norm_src(d.generators[0].iter)
            over_refs = it.endswith(".dependencies") or it.endswith(".args") or it.endswith(".kwargs.values()")
            makes_ref = any(isinstance(x, ast.Call) and (dotted(x.func) or "").split(".")[-1] == "UsageExecNode" for x in ast.walk(d.value)) \
                or dotted(d.value) == tgt
            if over_refs and makes_ref:
                r.ob(False, {"in": f.short, "references tabulated by id alone": norm_src(d)[:100]})
                r.violate(f"{f.short}: references are tabulated by node id alone ({norm_src(d.key)})", f.loc(d),
                          "a node that uses two differently indexed parts of the same producer gets one of them twice: the table keeps the "
                          "last reference stored under the producer's id", norm_src(d)[:140])
    cf = control_funcs(ctx)
    if cf:
        bad = [1 for f, n, src, ok, how in _key_sites(ctx, cf) if src is not None and not ok]
        r.require(len(bad) >= 1, "positive control for REF-KEY did not match")
    r.note = f"{n_rel} re-identification sites"
    return r


# --------------------------------------------------------------------------------------------- REF-FIELDS
FIELD_EXCEPTIONS = {
    # Class.method -> reason it may touch a strict subset of the reference fields
    "ExecNode.execute": "materialises the call arguments; the activation flag is consumed by the scheduler, not passed",
    "ExecNode.__post_init__": "type validation of the two container fields only",
}


def _field_reads(ctx: Ctx, f: FuncInfo) -> Dict[str, List[ast.AST]]:
    fields = set(reference_fields(ctx))
    out: Dict[str, List[ast.AST]] = {}
    for n in iter_own_nodes(f.node):
        if isinstance(n, ast.Attribute) and n.attr in fields and is_xn(ctx, ctx.type_of(f, n.value)):
            out.setdefault(n.attr, []).append(n)
        # object.__setattr__(xn, "active", ...)
        if isinstance(n, ast.Call) and dotted(n.func) in ("object.__setattr__", "setattr") and len(n.args) >= 2:
            s = const_str(n.args[1])
            if s in fields and is_xn(ctx, ctx.type_of(f, n.args[0])):
                out.setdefault(s, []).append(n)
    return out


def ref_fields(ctx: Ctx) -> RuleResult:
    r = RuleResult("REF-FIELDS")
    fields = reference_fields(ctx)
    act = _activation_funcs(ctx)
    n_sites = 0
    for f in pkg_funcs(ctx):
        reads = _field_reads(ctx, f)
        if not reads:
            continue
        n_sites += 1
        missing = [x for x in fields if x not in reads]
        exc = FIELD_EXCEPTIONS.get(f"{f.cls.name}.{f.name}") if f.cls is not None else None
        if f.qualname in act:
            exc = "the activation predicate reads only the flag"
        ok = not missing or exc is not None
        r.ob(ok, {"function": f.short, "fields handled": sorted(reads), "exception": exc})
        if not ok:
            r.violate(f"{f.short}: handles reference field(s) {sorted(reads)} but not {missing}", f.loc(reads[sorted(reads)[0]][0]),
                      "a site that walks or rewrites the references of a node must treat every reference field (positional "
                      "arguments, keyword arguments, activation flag); a dependency carried by the missing field is not seen "
                      "(no edge / no rewiring / no validation)", {k: [norm_src(x) for x in v][:3] for k, v in reads.items()})
    # ExecNode.dependencies is the single collector: its result must contain all fields
    dep = ctx.method("ExecNode", "dependencies")
    dreads = _field_reads(ctx, dep)
    okd = all(x in dreads for x in fields)
    r.ob(okd, {"collector": "ExecNode.dependencies", "fields": sorted(dreads)})
    # graph edges are built from the collector
    g = ctx.P.classes[ctx.cls_q("DiGraphEx")]
    n_edge = 0
    for m in g.methods.values():
        for n in iter_own_nodes(m.node):
            if isinstance(n, ast.Call) and isinstance(n.func, ast.Attribute) and n.func.attr in ("add_edges_from", "add_edge") \
                    and dotted(n.func.value) in ("self", "graph"):
                srcs = [x for x in ast.walk(n) if isinstance(x, ast.Attribute) and is_xn(ctx, ctx.type_of(m, x.value))
                        and x.attr in fields + ["dependencies"]]
                if srcs:
                    n_edge += 1
                    ok = all(x.attr == "dependencies" for x in srcs)
                    r.ob(ok, {"edges built from": [norm_src(x) for x in srcs], "in": m.short})
    r.require(n_edge >= 1, "no graph-edge construction from node dependencies found")
    r.require(n_sites >= 4, f"only {n_sites} reference-handling functions found")
    _partial_enumerations(ctx, r)
    return r


def _partial_enumerations(ctx: Ctx, r: RuleResult) -> None:
    """An expression that gathers the references of ONE node from its positional and keyword arguments (chain(x.args, x.kwargs.values()),
    x.args + list(x.kwargs.values()) ..) and not from its activation flag enumerates two of the three reference fields."""
    for f in pkg_funcs(ctx):
        for n in iter_own_nodes(f.node):
            parts = None
            if isinstance(n, ast.Call) and (dotted(n.func) or "").split(".")[-1] in ("chain", "from_iterable") and len(n.args) >= 2:
                parts = list(n.args)
            elif isinstance(n, ast.BinOp) and isinstance(n.op, ast.Add):
                parts = [n.left, n.right]
            if not parts:
                continue
            srcs = [norm_src(p_) for p_ in parts]
            objs_a = {s_[:-len(".args")] for s_ in srcs if s_.endswith(".args")} | {s_[5:-len(".args)")] for s_ in srcs if s_.startswith("list(") and s_.endswith(".args)")}
            objs_k = set()
            for s_ in srcs:
                for suf in (".kwargs.values()", ".kwargs.values())"):
                    if s_.endswith(suf):
                        objs_k.add(s_[:-len(suf)].replace("list(", "").replace("tuple(", ""))
            both = objs_a & objs_k
            if both and not any(".active" in s_ for s_ in srcs):
                x = sorted(both)[0]
                r.ob(False, {"in": f.short, "references enumerated without the activation flag": norm_src(n)[:100]})
                r.violate(f"{f.short}: the references of '{x}' are enumerated from its args and kwargs only ({norm_src(n)[:70]})", f.loc(n),
                          "the activation flag is a reference of the node like any argument (ExecNode.dependencies lists all three): a site "
                          "that decides from args and kwargs alone skips a node whose only link to the value is `twz_active=<value>`", norm_src(n)[:120])


def _activation_funcs(ctx: Ctx) -> Set[str]:
    from ..sched import activation_functions

    return set(activation_functions(ctx))


# --------------------------------------------------------------------------------------------- REF-ASDICT
def _asdict_sites(ctx: Ctx, funcs: Iterable[FuncInfo]):
    for f in funcs:
        for n in iter_own_nodes(f.node):
            if isinstance(n, ast.Assign) and isinstance(n.value, ast.Call) and len(n.targets) == 1 \
                    and isinstance(n.targets[0], ast.Name):
                q = ctx.T.resolve_callee(f, n.value) or ""
                if q.endswith("dataclasses.asdict") and n.value.args and is_xn(ctx, ctx.type_of(f, n.value.args[0])):
                    yield f, n, n.targets[0].id, norm_src(n.value.args[0])


def _presence_only(test: ast.AST, val: bool, subject: str, field: str) -> bool:
    """The condition (test == val) is a presence test of subject.field."""
    t = norm_src(test)
    tgt = f"{subject}.{field}"
    if val:
        return t in (f"{tgt} is not None", tgt, f"{tgt} != None", f"len({tgt}) > 0", f"len({tgt})")
    return t in (f"{tgt} is None", f"not {tgt}", f"{tgt} == None")


def ref_asdict(ctx: Ctx) -> RuleResult:
    r = RuleResult("REF-ASDICT")
    fields = reference_fields(ctx)
    n_sites = 0
    for f, stmt, var, subject in _asdict_sites(ctx, pkg_funcs(ctx)):
        n_sites += 1
        chains = _if_chains(f.node)
        base = chains.get(id(stmt), ())
        for fld in fields:
            assigns = []
            for n in iter_own_nodes(f.node):
                if isinstance(n, ast.Assign) and len(n.targets) == 1 and isinstance(n.targets[0], ast.Subscript) \
                        and dotted(n.targets[0].value) == var and const_str(n.targets[0].slice) == fld \
                        and getattr(n, "lineno", 0) > stmt.lineno:
                    assigns.append(n)
            good = None
            for a in assigns:
                ch = chains.get(id(a), ())
                extra = ch[len(base):] if ch[: len(base)] == base else ch
                if all(_presence_only(t, v, subject, fld) for t, v in extra):
                    good = a
                    break
            r.ob(good is not None, {"site": f.short, "field": fld, "restored by": norm_src(good) if good is not None else None})
            if good is None:
                why = "never re-assigned after asdict" if not assigns else \
                    "re-assigned only under a condition that is not the presence of the field: " + \
                    "; ".join(norm_src(t) for t, v in chains.get(id(assigns[0]), ())[len(base):])
                r.violate(f"{f.short}: values['{fld}'] not restored after asdict({subject})", f.loc(assigns[0] if assigns else stmt),
                          f"dataclasses.asdict converted the nested UsageExecNode(s) of '{fld}' into plain dicts; the field is {why}; "
                          f"the rebuilt node carries a dict instead of a reference", norm_src(stmt))
    r.require(n_sites >= 3, f"only {n_sites} asdict sites on ExecNode found (confirmed by hand: 3)")
    return r


def _if_chains(fn: ast.AST, guard_clauses: bool = False) -> Dict[int, Tuple[Tuple[ast.AST, bool], ...]]:
    out: Dict[int, Tuple[Tuple[ast.AST, bool], ...]] = {}

    def _leaves(stmts) -> bool:
        return bool(stmts) and isinstance(stmts[-1], (ast.Continue, ast.Return, ast.Raise, ast.Break))

    def go(stmts, chain):
        for s in stmts:
            out[id(s)] = chain
            if isinstance(s, ast.If):
                go(s.body, chain + ((s.test, True),))
                go(s.orelse, chain + ((s.test, False),))
                # a guard clause: what follows an `if T: <leave>` is what an else-arm would hold
                if guard_clauses and _leaves(s.body) and not s.orelse:
                    chain = chain + ((s.test, False),)
                elif guard_clauses and s.orelse and _leaves(s.orelse) and not _leaves(s.body):
                    chain = chain + ((s.test, True),)
            elif isinstance(s, (ast.For, ast.AsyncFor, ast.While, ast.With, ast.AsyncWith)):
                go(s.body, chain)
                go(getattr(s, "orelse", []), chain)
            elif isinstance(s, ast.Try):
                go(s.body, chain)
                for h in s.handlers:
                    go(h.body, chain)
                go(s.orelse, chain)
                go(s.finalbody, chain)

    go(fn.body, ())  # type: ignore[attr-defined]
    return out


# --------------------------------------------------------------------------------------------- REF-MAT
def ref_mat(ctx: Ctx) -> RuleResult:
    r = RuleResult("REF-MAT")
    ex = ctx.method("ExecNode", "execute")
    res_p = ex.node.args.args[1].arg
    # args / kwargs materialised through the accessor
    for fld in ("args", "kwargs"):
        comps = [n for n in iter_own_nodes(ex.node) if isinstance(n, (ast.ListComp, ast.DictComp, ast.GeneratorExp))
                 and any(isinstance(x, ast.Attribute) and x.attr == fld and dotted(x.value) == "self" for x in ast.walk(n.generators[0].iter))]
        r.require(len(comps) == 1, f"ExecNode.execute: materialisation of self.{fld} not recognised")
        c = comps[0]
        val = c.elt if not isinstance(c, ast.DictComp) else c.value
        ok = isinstance(val, ast.Call) and isinstance(val.func, ast.Attribute) and val.func.attr == "result" \
            and len(val.args) == 1 and dotted(val.args[0]) == res_p
        r.ob(ok, {"execute materialises": fld, "by": norm_src(val)})
        if not ok:
            r.violate(f"ExecNode.execute: self.{fld} not materialised through the accessor", ex.loc(c),
                      "arguments must be read from the results map with UsageExecNode.result (id + key path)", norm_src(c))
        # every reference of the field is handed to the function: a filter that consults the results map (or the reference itself)
        # drops the argument of a dependency that did not run - the function then computes with its own default, or fails
        for flt in [t for g_ in c.generators for t in g_.ifs]:
            tgt_names = {x.id for g_ in c.generators for x in ast.walk(g_.target) if isinstance(x, ast.Name)}
            key_only = fld == "kwargs" and isinstance(c.generators[0].target, ast.Tuple) and len(c.generators[0].target.elts) == 2 \
                and names_in(flt) & tgt_names <= {dotted(c.generators[0].target.elts[0])}
            bad = (res_p in names_in(flt)) or (bool(names_in(flt) & tgt_names) and not key_only)
            r.ob(not bad, {"execute materialises": fld, "filtered by": norm_src(flt)})
            if bad:
                r.violate(f"ExecNode.execute: a reference of self.{fld} is materialised only when {norm_src(flt)[:60]}", ex.loc(flt),
                          "a dependency that did not run in this call (deactivated, outside the selection) reads as None and is passed as "
                          "None; dropping the argument makes the function use its own default or fail with a missing argument", norm_src(c)[:120])
        if fld == "args" and not isinstance(c, ast.ListComp):
            raise Undecided("positional arguments are not materialised in order by a list comprehension")
    # call of the node function with *args, **kwargs and storage under the node's own id
    stores = [n for n in iter_own_nodes(ex.node) if isinstance(n, ast.Assign) and isinstance(n.targets[0], ast.Subscript)
              and dotted(n.targets[0].value) == res_p]
    r.require(len(stores) == 1, "ExecNode.execute: expected one store into the results map")
    st = stores[0]
    okk = norm_src(st.targets[0].slice) in ("self.id", "self.id_")
    okv = isinstance(st.value, ast.Call) and norm_src(st.value.func) == "self.exec_function" \
        and [type(a) for a in st.value.args] == [ast.Starred] and len(st.value.keywords) == 1 and st.value.keywords[0].arg is None
    r.ob(okk and okv, {"store": norm_src(st)})
    if not okk:
        r.violate("ExecNode.execute: result stored under another id than the node's own", ex.loc(st), "", norm_src(st))
    elif not okv:
        raise Undecided("ExecNode.execute: call of the node function not of the form exec_function(*args, **kwargs)")
    # get_return_values reads only through the accessor
    gr = [f for f in pkg_funcs(ctx) if f.name == "get_return_values" and f.cls is None]
    r.require(len(gr) == 1, "get_return_values not found")
    g = gr[0]
    rp = g.node.args.args[1].arg
    for n in iter_own_nodes(g.node):
        if isinstance(n, ast.Subscript) and dotted(n.value) == rp:
            r.ob(False)
            r.violate(f"{g.short}: results read directly: {norm_src(n)}", g.loc(n),
                      "the returned values must be read through UsageExecNode.result (key path, absent -> None)", norm_src(n))
    nacc = sum(1 for n in iter_own_nodes(g.node) if isinstance(n, ast.Call) and isinstance(n.func, ast.Attribute)
               and n.func.attr == "result" and n.args and dotted(n.args[0]) == rp)
    r.ob(nacc >= 3, {"get_return_values accessor reads": nacc})
    return r


# --------------------------------------------------------------------------------------------- REF-SHAPE
def _container_kind(e: ast.AST) -> Optional[str]:
    if isinstance(e, ast.Constant) and e.value is None:
        return "none"
    if isinstance(e, (ast.Tuple,)):
        return "tuple"
    if isinstance(e, (ast.List, ast.ListComp)):
        return "list"
    if isinstance(e, (ast.Dict, ast.DictComp)):
        return "dict"
    if isinstance(e, ast.Call):
        d = dotted(e.func)
        if d in ("tuple", "list", "dict"):
            return d
        return "single"
    if isinstance(e, (ast.Name, ast.Attribute)):
        return "var"
    return None


def _shape_map(f: FuncInfo, subject: str, typer=None) -> Dict[str, Set[str]]:
    """shape tested by isinstance(subject, T) -> kinds of container returned under that test."""
    out: Dict[str, Set[str]] = {}

    def types_of(test: ast.AST) -> Tuple[Optional[List[str]], bool]:
        neg = False
        t = test
        if isinstance(t, ast.UnaryOp) and isinstance(t.op, ast.Not):
            neg, t = True, t.operand
        if isinstance(t, ast.Call) and dotted(t.func) == "isinstance" and len(t.args) == 2 and norm_src(t.args[0]) == subject:
            ty = t.args[1]
            names = [dotted(x) for x in ty.elts] if isinstance(ty, ast.Tuple) else [dotted(ty)]
            return [n.split(".")[-1] if n else "?" for n in names], neg
        return None, False

    def go(stmts, active: Optional[List[str]]):
        for i, s in enumerate(stmts):
            if isinstance(s, ast.If):
                tys, neg = types_of(s.test)
                if tys is not None and not neg:
                    go(s.body, tys if active is None else [t for t in tys if t in active] or tys)
                    go(s.orelse, active if active is None else [t for t in active if t not in tys])
                    if s.body and isinstance(s.body[-1], (ast.Return, ast.Raise)) and active is not None:
                        # the arm always leaves: what follows is only reached for the other shapes
                        go(stmts[i + 1:], [t for t in active if t not in tys])
                        return
                elif tys is not None and neg and s.body and isinstance(s.body[-1], (ast.Return, ast.Raise)):
                    go(stmts[i + 1:], tys)
                    return
                else:
                    go(s.body, active)
                    go(s.orelse, active)
            elif isinstance(s, ast.Return) and s.value is not None and active is not None:
                k = _container_kind(s.value)
                if k == "var" and typer is not None:
                    t = typer(s.value)
                    k = t[0] if t[0] in ("tuple", "list", "dict") else "var"
                for t in active:
                    out.setdefault(t, set()).add(k or "?")
            elif isinstance(s, ast.Try):
                go(s.body, active)
            elif isinstance(s, (ast.With, ast.For)):
                go(s.body, active)

    go(f.node.body, None)
    return out


def ref_shape(ctx: Ctx) -> RuleResult:
    r = RuleResult("REF-SHAPE")
    expected = {"tuple": "tuple", "list": "list", "dict": "dict"}
    sites: List[Tuple[FuncInfo, str]] = []
    gr = [f for f in pkg_funcs(ctx) if f.name == "get_return_values" and f.cls is None]
    r.require(len(gr) == 1, "get_return_values not found")
    sites.append((gr[0], gr[0].node.args.args[0].arg))
    call = ctx.own_method("DAG", "__call__")
    r.require(call is not None, "DAG.__call__ not found")
    sites.append((call, "self.return_uxns"))
    for f in pkg_funcs(ctx):
        if f.cls is None and f.name.startswith("_wrap_in_") and len(f.node.args.args) == 2:
            sites.append((f, f.node.args.args[1].arg))
    seen_shapes: Dict[str, int] = {}
    for f, subj in sites:
        sm = _shape_map(f, subj, lambda e, f=f: ctx.type_of(f, e))
        for shape, kinds in sm.items():
            if shape in expected:
                seen_shapes[shape] = seen_shapes.get(shape, 0) + 1
                ks = {k for k in kinds if k not in ("none",)}
                ok = ks == {expected[shape]}
                if not ok and not ks <= {"tuple", "list", "dict"}:
                    raise Undecided(f"{f.short}: container rebuilt for a {shape} return not recognised: {sorted(ks)}")
                r.ob(ok, {"site": f.short, "shape": shape, "rebuilds": sorted(kinds)})
                if not ok:
                    r.violate(f"{f.short}: a {shape} return is rebuilt as {sorted(ks)}", f.loc(),
                              f"the describing function returned a {shape}; tracer, runner and splicer must all rebuild a {shape}",
                              sorted(kinds))
    for shape in expected:
        r.require(seen_shapes.get(shape, 0) >= 3, f"return shape '{shape}' handled at {seen_shapes.get(shape, 0)} sites (expected 3: "
                                                  f"trace, run, splice)")
    return r


# --------------------------------------------------------------------------------------------- REF-OPS
BINOPS = {"add": ast.Add, "sub": ast.Sub, "mul": ast.Mult, "matmul": ast.MatMult, "truediv": ast.Div, "floordiv": ast.FloorDiv,
          "mod": ast.Mod, "lshift": ast.LShift, "rshift": ast.RShift, "and": ast.BitAnd, "xor": ast.BitXor, "or": ast.BitOr,
          "pow": ast.Pow}
CMPOPS = {"lt": ast.Lt, "le": ast.LtE, "eq": ast.Eq, "ne": ast.NotEq, "gt": ast.Gt, "ge": ast.GtE}
UNOPS = {"neg": ast.USub, "pos": ast.UAdd, "invert": ast.Invert}
CALLOPS = {"divmod": "divmod", "pow": "pow", "abs": "abs"}


def _op_matches(fn: ast.FunctionDef, op: str) -> Optional[bool]:
    rets = [n for n in ast.walk(fn) if isinstance(n, ast.Return)]
    if len(rets) != 1 or rets[0].value is None:
        return None
    e = rets[0].value
    ps = [a.arg for a in fn.args.args]
    if op in UNOPS or op == "abs":
        if len(ps) != 1:
            return None
        if op in UNOPS and isinstance(e, ast.UnaryOp):
            return isinstance(e.op, UNOPS[op]) and dotted(e.operand) == ps[0]
        if op == "abs" and isinstance(e, ast.Call):
            return dotted(e.func) == "abs" and dotted(e.args[0]) == ps[0]
        return False
    if len(ps) != 2:
        return None
    if isinstance(e, ast.BinOp):
        return op in BINOPS and isinstance(e.op, BINOPS[op]) and dotted(e.left) == ps[0] and dotted(e.right) == ps[1]
    if isinstance(e, ast.Compare) and len(e.ops) == 1:
        return op in CMPOPS and isinstance(e.ops[0], CMPOPS[op]) and dotted(e.left) == ps[0] and dotted(e.comparators[0]) == ps[1]
    if isinstance(e, ast.Call) and dotted(e.func) in ("divmod", "pow") and len(e.args) == 2:
        return CALLOPS.get(op) == dotted(e.func) and dotted(e.args[0]) == ps[0] and dotted(e.args[1]) == ps[1]
    return None


def ref_ops(ctx: Ctx) -> RuleResult:
    r = RuleResult("REF-OPS")
    uq = uxn_q(ctx)
    mods = [m for m in ctx.P.modules.values() if any(
        isinstance(s, ast.Expr) and isinstance(s.value, ast.Call) and dotted(s.value.func) == "setattr" for s in m.tree.body)]
    r.require(len(mods) >= 1, "no module binding operators with setattr found")
    bound: Dict[str, Tuple[str, bool]] = {}
    for m in mods:
        refl_name = None
        for name, fi in m.funcs.items():
            inner = [n for n in fi.node.body if isinstance(n, ast.FunctionDef)]
            if len(inner) == 1 and len(fi.node.args.args) == 1 and len(inner[0].args.args) == 2:
                a, b = [x.arg for x in inner[0].args.args]
                ret = [n for n in ast.walk(inner[0]) if isinstance(n, ast.Return)]
                if len(ret) == 1 and isinstance(ret[0].value, ast.Call) and dotted(ret[0].value.func) == fi.node.args.args[0].arg:
                    swapped = [dotted(x) for x in ret[0].value.args] == [b, a]
                    refl_name = name
                    r.ob(swapped, {"reflected() swaps its operands": swapped})
                    if not swapped:
                        r.violate(f"{fi.short}: reflected operator does not swap its operands", fi.loc(), "", norm_src(ret[0]))
        for s in m.tree.body:
            if not (isinstance(s, ast.Expr) and isinstance(s.value, ast.Call) and dotted(s.value.func) == "setattr"):
                continue
            c = s.value
            if len(c.args) != 3 or ctx.P.resolve_name(m, dotted(c.args[0]) or "") != uq:
                continue
            dunder = const_str(c.args[1])
            if not dunder or not (dunder.startswith("__") and dunder.endswith("__")):
                continue
            op = dunder[2:-2]
            target = c.args[2]
            reflected = False
            if isinstance(target, ast.Call) and dotted(target.func) == refl_name and len(target.args) == 1:
                reflected = True
                target = target.args[0]
            fname = dotted(target)
            fi = m.funcs.get(fname or "")
            if fi is None:
                raise Undecided(f"operator {dunder} bound to something that is not a module function: {norm_src(c.args[2])}")
            base_op = op[1:] if reflected else op
            if dunder in bound:
                r.ob(False)
                r.violate(f"operator {dunder} bound twice", f"{m.rel}:{s.lineno}", "the later binding silently replaces the earlier", None)
            bound[dunder] = (fname, reflected)
            if reflected and not op.startswith("r"):
                r.violate(f"operator {dunder} bound to a reflected function", f"{m.rel}:{s.lineno}", "operands are swapped", norm_src(s))
            if not reflected and op.startswith("r") and op[1:] in BINOPS and op not in BINOPS and op not in ("rshift",):
                r.violate(f"reflected operator {dunder} bound without reflected()", f"{m.rel}:{s.lineno}",
                          "c <op> uxn would compute uxn <op> c", norm_src(s))
            mt = _op_matches(fi.node, base_op)
            r.ob(mt is True, {"operator": dunder, "function": fname, "reflected": reflected})
            if mt is False:
                r.violate(f"operator {dunder} bound to {fname}, which applies another operator", f"{m.rel}:{s.lineno}",
                          f"{dunder} must apply the Python operator it names", norm_src(fi.node.body[-1]))
            elif mt is None:
                raise Undecided(f"body of operator function {fname} not recognised")
    r.require(len(bound) >= 30, f"only {len(bound)} operator bindings found")
    # the boolean helpers exported for use in describing functions
    want = {"and_": ast.And, "or_": ast.Or}
    n_helpers = 0
    for f in pkg_funcs(ctx):
        if f.cls is None and f.parent is None and f.name in ("and_", "or_", "not_"):
            n_helpers += 1
            rets = [n for n in iter_own_nodes(f.node) if isinstance(n, ast.Return)]
            ps = [a.arg for a in f.node.args.args]
            e = rets[0].value if len(rets) == 1 else None
            if f.name == "not_":
                okh = isinstance(e, ast.UnaryOp) and isinstance(e.op, ast.Not) and dotted(e.operand) == ps[0]
            else:
                okh = isinstance(e, ast.BoolOp) and isinstance(e.op, want[f.name]) and [dotted(v) for v in e.values] == ps[:2]
            r.ob(okh, {"helper": f.name, "body": norm_src(e) if e is not None else None})
            if not okh:
                r.violate(f"{f.short}: does not compute '{f.name.rstrip('_')}' of its operands", f.loc(),
                          "and_/or_/not_ stand for the Python operators that cannot be overloaded on references", norm_src(rets[0]) if rets else None)
    r.require(n_helpers == 3, f"boolean helpers and_/or_/not_: found {n_helpers}")
    for op in list(BINOPS) + ["divmod"]:
        if f"__{op}__" in bound:
            tw = bound.get(f"__r{op}__")
            ok = tw is not None and tw[1] and tw[0] == bound[f"__{op}__"][0]
            r.ob(ok, {"reflected twin of": op, "bound": tw})
            if not ok:
                r.violate(f"operator __{op}__ has no reflected twin built from the same function", mods[0].rel,
                          f"constant <{op}> result is not traced (or traced with another function)", tw)
    return r


# --------------------------------------------------------------------------------------------- REF-NI
SCHED_ATTRS = ("priority", "is_sequential", "resource", "compound_priority", "max_concurrency")


def _value_path_funcs(ctx: Ctx) -> List[FuncInfo]:
    names = {"execute", "result", "get_return_values", "extend_results_with_args", "make_args", "make_kwargs", "make_active",
             "make_default_value_uxn", "wrap_in_uxns", "_wrap_in_list", "_wrap_in_tuple", "_wrap_in_dict", "_wrap_in_uxn",
             "_wrap_in_iterator_helper", "_usage_exec_node", "__getitem__"}
    return [f for f in pkg_funcs(ctx) if f.name in names]


def _ni_hits(ctx: Ctx, funcs: Iterable[FuncInfo]):
    for f in funcs:
        logged = set()
        for n in iter_own_nodes(f.node):  # reads that only feed a log / warning message do not reach a value
            if isinstance(n, ast.Call) and (dotted(n.func) or "").split(".")[0] in ("logger", "logging", "warnings"):
                logged.update(id(x) for x in ast.walk(n))
        for n in iter_own_nodes(f.node):
            if id(n) in logged:
                continue
            if isinstance(n, ast.Attribute) and n.attr in SCHED_ATTRS and isinstance(n.ctx, ast.Load):
                t = ctx.type_of(f, n.value)
                if t[0] in ("cls",) or n.attr == "compound_priority":
                    yield f, n


def ref_ni(ctx: Ctx) -> RuleResult:
    r = RuleResult("REF-NI")
    fs = _value_path_funcs(ctx)
    r.require(len(fs) >= 10, f"value-path functions: only {len(fs)} found")
    hits = list(_ni_hits(ctx, fs))
    for f in fs:
        bad = [n for g, n in hits if g is f]
        r.ob(not bad, {"function": f.short, "scheduling attributes read": [norm_src(n) for n in bad]})
        for n in bad:
            r.violate(f"{f.short}: reads scheduling attribute {norm_src(n)}", f.loc(n),
                      "priority, is_sequential, resource and max_concurrency may change the schedule but never a value: they must "
                      "not be read where arguments are built, values materialised or returns assembled", norm_src(n))
    cf = control_funcs(ctx)
    if cf:
        r.require(len(list(_ni_hits(ctx, cf))) >= 1, "positive control for REF-NI did not match")
    return r


# --------------------------------------------------------------------------------------------- REF-ACTIVE-BUILD / FLAGPRED
def _const_name(ctx: Ctx, f: FuncInfo, e: ast.AST) -> Optional[str]:
    """Name of the module constant an expression denotes (e.g. ARG_NAME_ACTIVATE)."""
    d = dotted(e)
    if d is None:
        return None
    return d.split(".")[-1]


def _presence_test(test: ast.AST, kwargs_name: str) -> Optional[Tuple[str, bool]]:
    """(constant name, polarity) if test is 'CONST in kwargs' / 'CONST not in kwargs' (or .keys())."""
    t = test
    neg = False
    if isinstance(t, ast.UnaryOp) and isinstance(t.op, ast.Not):
        neg, t = True, t.operand
    if isinstance(t, ast.Compare) and len(t.ops) == 1 and isinstance(t.ops[0], (ast.In, ast.NotIn)):
        c = t.comparators[0]
        if isinstance(c, ast.Call) and isinstance(c.func, ast.Attribute) and c.func.attr == "keys":
            c = c.func.value
        if dotted(c) == kwargs_name and dotted(t.left):
            pol = isinstance(t.ops[0], ast.In)
            return dotted(t.left).split(".")[-1], pol != neg
    return None


def ref_active_build(ctx: Ctx) -> RuleResult:
    """make_active returns None exactly when the activation keyword is absent (not when its value is None/falsy)."""
    r = RuleResult("REF-ACTIVE-BUILD")
    fs = [f for f in pkg_funcs(ctx) if f.name == "make_active" and f.cls is None]
    r.require(len(fs) == 1, "make_active not found")
    f = fs[0]
    kw = f.node.args.kwarg.arg if f.node.args.kwarg else None
    r.require(kw is not None, "make_active has no **kwargs")
    none_returns = [n for n in iter_own_nodes(f.node) if isinstance(n, ast.Return) and
                    (n.value is None or (isinstance(n.value, ast.Constant) and n.value.value is None))]
    chains = _if_chains(f.node)
    r.require(len(none_returns) >= 1, "make_active: 'absent -> None' return not found")
    def _sentinel_test(t: ast.AST) -> Optional[Tuple[str, bool]]:
        """`v is S` / `v is not S` where v = kwargs.get(KEY, S) and S is a module-level `object()`: a presence test of KEY."""
        if not (isinstance(t, ast.Compare) and len(t.ops) == 1 and isinstance(t.ops[0], (ast.Is, ast.IsNot)) and isinstance(t.left, ast.Name)
                and isinstance(t.comparators[0], ast.Name)):
            return None
        v_, s_ = t.left.id, t.comparators[0].id
        defs = [d for d in iter_own_nodes(f.node) if isinstance(d, (ast.Assign, ast.AnnAssign)) and d.value is not None
                and dotted(d.targets[0] if isinstance(d, ast.Assign) else d.target) == v_]
        if len(defs) != 1:
            return None
        g_ = defs[0].value
        if not (isinstance(g_, ast.Call) and isinstance(g_.func, ast.Attribute) and g_.func.attr == "get" and dotted(g_.func.value) == kw
                and len(g_.args) == 2 and dotted(g_.args[1]) == s_ and dotted(g_.args[0])):
            return None
        fresh = [x for x in f.module.tree.body if isinstance(x, (ast.Assign, ast.AnnAssign)) and x.value is not None
                 and dotted(x.targets[0] if isinstance(x, ast.Assign) else x.target) == s_]
        if len(fresh) != 1 or not (isinstance(fresh[0].value, ast.Call) and dotted(fresh[0].value.func) == "object" and not fresh[0].value.args):
            return None
        return dotted(g_.args[0]).split(".")[-1], isinstance(t.ops[0], ast.IsNot)

    for ret in none_returns:
        ch = chains.get(id(ret), ())
        ok = len(ch) == 1 and (_presence_test(ch[0][0], kw) or _sentinel_test(ch[0][0]) or (None, None))[1] == (not ch[0][1])
        r.ob(ok, {"returns None under": [norm_src(t) + ("" if v else " (false)") for t, v in ch]})
        if not ok:
            r.violate(f"{f.short}: 'no activation reference' decided by {[norm_src(t) for t, v in ch] or 'nothing'}", f.loc(ret),
                      "the activation reference must be dropped only when the keyword is absent; a supplied constant that is None "
                      "or falsy must still deactivate the node", norm_src(ret))
    # a non-reference value becomes a constant holder
    mk = [n for n in iter_own_nodes(f.node) if isinstance(n, ast.Call) and dotted(n.func) == "make_default_value_uxn"]
    r.ob(len(mk) == 1, {"constant flag becomes a constant holder": len(mk) == 1})
    # ... holding the object the user gave: its truthiness is read when the DAG RUNS (a switch object, a list filled later)
    for c in mk:
        if not c.args:
            continue
        held = c.args[-1]
        src = held
        if isinstance(held, ast.Name):
            ds = [d for d in ctx.reaching_defs(f, held.id, c) if isinstance(d, (ast.Assign, ast.AnnAssign)) and d.value is not None]
            src = ds[0].value if len(ds) == 1 else held
        conv = isinstance(held, ast.Call) and dotted(held.func) in ("bool", "int", "str", "len", "not_") or isinstance(held, (ast.UnaryOp, ast.Compare, ast.BoolOp, ast.IfExp)) \
            or (isinstance(src, ast.Call) and dotted(src.func) in ("bool", "int", "str", "len")) or isinstance(src, (ast.UnaryOp, ast.Compare, ast.BoolOp, ast.IfExp))
        r.ob(not conv, {"value held for a constant flag": norm_src(held), "taken from": norm_src(src)})
        if conv:
            r.violate(f"{f.short}: a constant activation is evaluated when the DAG is described ({norm_src(held)})", f.loc(c),
                      "twz_active=<object> is decided by the truthiness of the value at run time: a feature-switch object with __bool__, "
                      "or a list that is filled or emptied after the description, keeps the describe-time outcome for ever", norm_src(c))
    return r


def ref_flagpred(ctx: Ctx) -> RuleResult:
    r = RuleResult("REF-FLAGPRED")
    call = ctx.own_method("DAG", "__call__")
    r.require(call is not None, "DAG.__call__ not found")
    kw = call.node.args.kwarg.arg if call.node.args.kwarg else None
    r.require(kw is not None, "DAG.__call__ has no **kwargs")
    chains = _if_chains(call.node)
    # assignments values["active"] = make_active(...)
    sites = [n for n in iter_own_nodes(call.node) if isinstance(n, ast.Assign) and isinstance(n.targets[0], ast.Subscript)
             and const_str(n.targets[0].slice) == "active" and isinstance(n.value, ast.Call) and dotted(n.value.func) == "make_active"]
    r.require(len(sites) >= 1, "attachment of the outer flag to inner nodes not found")
    # the flag is read from the keyword arguments of THIS call of the nested DAG: the name is never re-bound in between
    for s_ in sites:
        star = [k for k in s_.value.keywords if k.arg is None]
        for k in star:
            if isinstance(k.value, ast.Name) and k.value.id == kw:
                rd = ctx.reaching_defs(call, kw, s_)
                r.ob(not rd, {"flag read from": f"**{kw}", "re-bound before the attachment": [norm_src(d)[:60] for d in rd]})
                if rd:
                    r.violate(f"{call.short}: '{kw}' is re-bound before the nested DAG's flag is read from it", call.loc(rd[0]),
                              "after the re-binding the mapping no longer holds twz_active: the inner nodes rebuilt from there on carry no "
                              "activation and run although the nested DAG is deactivated", norm_src(rd[0])[:100])
            elif not (isinstance(k.value, ast.Name)):
                pass
    if r.findings:
        return r
    env_vars: Dict[str, ast.AST] = {}
    for n in iter_own_nodes(call.node):
        if isinstance(n, ast.Assign) and len(n.targets) == 1 and isinstance(n.targets[0], ast.Name):
            env_vars.setdefault(n.targets[0].id, n.value)
    for s in sites:
        ch = []
        for t_, v_ in chains.get(id(s), ()):
            # `if a and b:` (taken) is `if a:` + `if b:`
            if v_ and isinstance(t_, ast.BoolOp) and isinstance(t_.op, ast.And):
                ch += [(c_, True) for c_ in t_.values]
            else:
                ch.append((t_, v_))
        flag_tests = []
        for t, v in ch:
            via = [x for x in names_in(t) if x in env_vars and kw in names_in(env_vars[x])]
            if kw in names_in(t) or via:
                flag_tests.append((t, v, via))
        r.require(len(flag_tests) >= 1, "no test on the keyword arguments guards the attachment")
        # besides the presence test, the only node-kind exclusion is "setup nodes keep running"
        for t, v in ch:
            if any(t is ft[0] for ft in flag_tests):
                continue
            # local names of the test are read through their definitions (is_hidden = node.resource == ...)
            exprs = [t]
            seen_n: Set[str] = set()
            for _ in range(2):
                for e_ in list(exprs):
                    for x in ast.walk(e_):
                        if isinstance(x, ast.Name) and x.id in env_vars and x.id not in seen_n and x.id != kw:
                            seen_n.add(x.id)
                            exprs.append(env_vars[x.id])
            attrs = sorted({x.attr for e_ in exprs for x in ast.walk(e_)
                            if isinstance(x, ast.Attribute) and is_xn(ctx, ctx.type_of(call, x.value))})
            if not attrs:
                continue
            if attrs == ["active"] and isinstance(t, ast.Compare) and len(t.ops) == 1 and isinstance(t.ops[0], (ast.Is, ast.IsNot)):
                # 'the inner node has no activation of its own': fine when the other case is REFUSED (raise), not skipped
                from .val import reach_conditions

                refused = False
                for rs_ in iter_own_nodes(call.node):
                    if isinstance(rs_, ast.Raise):
                        rc = reach_conditions(call.node, rs_) or []
                        if any(norm_src(t2) == norm_src(t) and v2 != v for t2, v2 in rc):
                            refused = True
                r.ob(refused, {"inner node with its own activation": "refused (raise)" if refused else "silently left without the outer flag"})
                if refused:
                    continue
            okk = attrs == ["setup"] and norm_src(t).startswith("not ") and not v is False
            r.ob(okk, {"node kinds excluded from the outer flag": norm_src(t)})
            if not okk:
                r.violate(f"{call.short}: inner nodes are excluded from the outer flag by '{norm_src(t)}'", call.loc(s),
                          "a deactivated nested DAG executes none of its non-setup nodes: only setup nodes may be left without the "
                          "outer flag; any other exclusion (debug nodes, a resource, ...) lets those nodes run on None inputs",
                          norm_src(t))
        for t, v, via in flag_tests:
            shown = norm_src(t) + (f"  [{via[0]} = {norm_src(env_vars[via[0]])}]" if via else "")
            pt = _presence_test(t, kw)
            if pt is None and via:
                bare = t.operand if isinstance(t, ast.UnaryOp) and isinstance(t.op, ast.Not) else t
                if isinstance(bare, ast.Name):
                    inner = _presence_test(env_vars[bare.id], kw)
                    if inner is not None:
                        pt = (inner[0], inner[1] != (bare is not t))
            ok = pt is not None and pt[1] == v
            r.ob(ok, {"inner nodes get the flag under": shown, "stubs get it under": "make_active: keyword present"})
            if not ok:
                r.violate(f"{call.short}: outer flag attached to inner nodes under a test of the flag's value, to the argument "
                          f"stubs under 'keyword present'", call.loc(s),
                          "two different predicates over the same keyword arguments: a supplied constant (False, None, 0) reaches the "
                          "stubs but not the inner nodes, which then run on None arguments", shown)
    return r


# --------------------------------------------------------------------------------------------- REF-UNIQ
def ref_uniq(ctx: Ctx) -> RuleResult:
    r = RuleResult("REF-UNIQ")
    lz = ctx.own_method("LazyExecNode", "__call__")
    r.require(lz is not None, "LazyExecNode.__call__ not found")
    # id of the new node = f(self.id, occurrence counter over the build node table)
    cnt = [n for n in iter_own_nodes(lz.node) if isinstance(n, ast.Call) and (ctx.T.resolve_callee(lz, n) or "").endswith("count_occurrences")]
    ok = len(cnt) == 1 and norm_src(cnt[0].args[0]) in ("self.id", "self.id_")
    r.ob(ok, {"call-site id": "occurrence counter over the node table" if ok else None})
    if not ok:
        raise Undecided("LazyExecNode.__call__: occurrence counter not recognised")
    # the splice: the pushed prefix component
    call = ctx.own_method("DAG", "__call__")
    r.require(call is not None, "DAG.__call__ not found")
    pushes = [n for n in iter_own_nodes(call.node) if isinstance(n, ast.Call) and isinstance(n.func, ast.Attribute)
              and n.func.attr == "append" and (dotted(n.func.value) or "").endswith("DAG_PREFIX")]
    r.require(len(pushes) == 1, "push of the sub-DAG prefix not found")
    comp = pushes[0].args[0]
    per_site = any(isinstance(x, ast.Call) for x in ast.walk(comp))
    r.ob(per_site, {"sub-DAG prefix component": norm_src(comp), "per call site": per_site})
    if not per_site:
        r.violate("DAG.__call__ splice: id prefix is the sub-DAG's name only (no per-call-site discriminator)", call.loc(pushes[0]),
                  "calling the same DAG twice inside one outer DAG registers the same prefixed ids twice: the build fails with "
                  "KeyError (StrictDict) instead of producing one set of nodes per call site", norm_src(pushes[0]))
    return r


# --------------------------------------------------------------------------------------------- REF-PREFIX / REF-SEED
def _splice(ctx: Ctx):
    from ..splice import SpliceInterp

    return ctx.memo("splice_interp", lambda: SpliceInterp(ctx))


def _id_taint(v) -> Optional[str]:
    if v is not None and v[0] in ("id", "kw", "uxn", "xn"):
        return v[1]
    return None


def ref_prefix(ctx: Ctx) -> RuleResult:
    r = RuleResult("REF-PREFIX")
    sp = _splice(ctx)
    f = sp.fn
    r.require(len(sp.sinks) >= 12, f"only {len(sp.sinks)} id sinks found in the splice (confirmed by hand: >= 15)")
    for k in sp.sinks:
        if k.ok is None:
            raise Undecided(f"splice sink '{k.kind}' at {f.loc(k.node)}: {k.why} ({norm_src(k.node)})")
        r.ob(k.ok, {"sink": k.kind, "construct": norm_src(k.node), "id taint": "prefixed once" if k.ok else k.why})
        if not k.ok:
            r.violate(f"{f.short} splice: {k.kind}: {norm_src(k.node)}", f.loc(k.node),
                      k.why + ": inner ids must pass the prefixer exactly once before reaching the outer DAG's tables, otherwise "
                      "they capture or collide with outer nodes", str(k.value))
    for c in sp.cmps:
        lt, rt = _id_taint(c.left), _id_taint(c.right)
        if lt and rt and {lt, rt} <= {"inner", "pref", "double", "outer"}:
            ok = lt == rt
            r.ob(ok, {"comparison": norm_src(c.node), "namespaces": [lt, rt]})
            if not ok:
                r.violate(f"{f.short} splice: comparison across id namespaces: {norm_src(c.node)}", f.loc(c.node),
                          f"an id that is '{lt}' is compared with ids that are '{rt}': the test can never match", norm_src(c.node))
    # inner nodes are re-registered in dependency order (a rebuilt node validates its dependencies against the outer table)
    rebuilt = [n for n in iter_own_nodes(f.node) if isinstance(n, ast.Assign) and isinstance(n.value, ast.Call)
               and (dotted(n.value.func) or "").endswith("asdict") and any(n is x for x in ast.walk(sp.block))]
    if rebuilt:
        subj = n_subj = dotted(rebuilt[0].value.args[0])
        src_ok = None
        for d in ctx.reaching_defs(f, subj, rebuilt[0]):
            if isinstance(d, ast.Assign) and isinstance(d.value, ast.Subscript):
                key = dotted(d.value.slice)
                kd = [x for x in ctx.reaching_defs(f, key, d) if isinstance(x, ast.Assign)] if key else []
                src_ok = any(isinstance(x.value, ast.Call) and isinstance(x.value.func, ast.Attribute)
                             and x.value.func.attr in ("remove_any_root_node",) for x in kd) or \
                    any(isinstance(x, (ast.For,)) and "topolog" in norm_src(x.iter) for x in ctx.reaching_defs(f, key, d))
            elif isinstance(d, (ast.For, ast.AsyncFor)):
                it = norm_src(d.iter)
                src_ok = "topolog" in it
                if not src_ok and ("exec_nodes" in it):
                    src_ok = False
        if src_ok is not None:
            r.ob(src_ok, {"inner nodes re-registered in": "dependency order" if src_ok else "table order"})
            if not src_ok:
                r.violate(f"{f.short} splice: inner nodes are re-registered in the order of the node table, not in dependency order",
                          f.loc(rebuilt[0]), "a rebuilt node validates its dependencies against the outer table when it is constructed: a "
                          "node registered before one of its dependencies fails (KeyError); table order is a dependency order only for "
                          "DAGs traced from a function, not for composed DAGs", None)
    # the helper building argument holders
    hs = [g for g in pkg_funcs(ctx) if g.name == "construct_subdag_arg_uxns"]
    if hs:
        h = hs[0]
        pname = next((a.arg for a in h.node.args.kwonlyargs if "id" in a.arg), None)
        regs = [n for n in iter_own_nodes(h.node) if isinstance(n, ast.Call) and dotted(n.func) == "make_axn_id"]
        # the prefixer: handed in as a callback parameter, or a module-level function that reads the prefix stack itself
        mod_pref = {g.name for g in pkg_funcs(ctx) if g.cls is None and g.parent is None and len(g.node.args.args) == 1
                    and any(isinstance(x, ast.Attribute) and x.attr == "DAG_PREFIX" for x in ast.walk(g.node))}
        for n in regs:
            ok = bool(n.args) and isinstance(n.args[0], ast.Call) and (
                (pname is not None and dotted(n.args[0].func) == pname) or dotted(n.args[0].func) in mod_pref)
            if not ok and n.args and isinstance(n.args[0], ast.Name):
                # the prefixed id computed by the caller: every call site hands over the result of a prefixer for that parameter
                hp = [a.arg for a in h.node.args.posonlyargs + h.node.args.args + h.node.args.kwonlyargs]
                if n.args[0].id in hp:
                    from ..ctx import arg_for_param

                    vals = [arg_for_param(h.node, c_, n.args[0].id) for _, c_ in ctx.callers_of(h.qualname)]
                    nested_pref = {g.name for g in ctx.P.funcs.values() if g.parent is not None and len(g.node.args.args) == 1
                                   and any(isinstance(x, ast.Attribute) and x.attr == "DAG_PREFIX" for x in ast.walk(g.node))}
                    ok = bool(vals) and all(isinstance(v_, ast.Call) and dotted(v_.func) in (mod_pref | nested_pref) for v_ in vals)
            r.ob(ok, {"argument holder id": norm_src(n)})
            if not ok:
                r.violate(f"{h.short}: argument holder registered under an unprefixed id", h.loc(n),
                          "constants passed to a sub-DAG must live under the prefixed namespace", norm_src(n))
    return r


def ref_seed(ctx: Ctx) -> RuleResult:
    r = RuleResult("REF-SEED")
    sp = _splice(ctx)
    f = sp.fn
    r.require(len(sp.bulk_copies) == 1, f"bulk copy of the inner results into the outer build results: found {len(sp.bulk_copies)}")
    bc = sp.bulk_copies[0]["node"]
    inside = {id(x) for x in ast.walk(bc)}
    # the list that collects the ids registered as argument stubs
    stub_lists = set(sp.appends)
    filt = [c for c in sp.cmps if id(c.node) in inside and c.negated and isinstance(c.node.ops[0], ast.NotIn)]
    good = None
    for c in filt:
        right_name = dotted(c.node.comparators[0])
        if right_name in stub_lists:
            good = c
    if good is None and isinstance(bc, (ast.For, ast.While)):
        # loop form with a guard clause: `if <id> in <stub ids>: continue` before the write
        for g_ in own_walk(bc):
            if isinstance(g_, ast.If) and g_.body and isinstance(g_.body[-1], ast.Continue) and not g_.orelse \
                    and isinstance(g_.test, ast.Compare) and len(g_.test.ops) == 1 and isinstance(g_.test.ops[0], ast.In) \
                    and dotted(g_.test.comparators[0]) in stub_lists:
                for c in sp.cmps:
                    if c.node is g_.test:
                        good = c
    if good is None:
        later_del = any(isinstance(n, ast.Call) and isinstance(n.func, ast.Attribute) and n.func.attr in ("pop", "__delitem__")
                        and (dotted(n.func.value) or "").endswith(".results") for n in iter_own_nodes(f.node)) or \
            any(isinstance(n, ast.Delete) for n in iter_own_nodes(f.node))
        if later_del:
            raise Undecided("stub ids seem to be removed from the outer results after the copy (form not modelled)")
        r.ob(False, {"bulk copy": norm_src(bc)})
        r.violate(f"{f.short} splice: inner results copied under the ids of the argument stubs", f.loc(bc),
                  "the defaults of the inner DAG's parameters are copied into the outer build results under the very ids the "
                  "argument stubs were registered with: the scheduler prunes the stubs as already computed and the supplied "
                  "arguments are ignored", norm_src(bc))
        return r
    lt, rt = _id_taint(good.left), _id_taint(good.right)
    ok = lt == rt == "pref"
    r.ob(ok, {"bulk copy excludes": norm_src(good.node), "namespaces": [lt, rt]})
    if not ok:
        r.violate(f"{f.short} splice: exclusion of stub ids compares '{lt}' ids with '{rt}' ids", f.loc(good.node),
                  "the filter can never match, the defaults are copied under the stubs' ids and supplied arguments are ignored",
                  norm_src(good.node))
    # ... and nothing else is left out: every other stored value of the nested DAG (defaults of omitted parameters, constant
    # arguments, constants it returns, its setup results) is a value its nodes - or the outer DAG, through its outputs - read
    comps = [c for c in ast.walk(bc) if isinstance(c, (ast.GeneratorExp, ast.ListComp, ast.DictComp, ast.SetComp))]
    for cp in comps:
        for gen in cp.generators:
            conj: List[ast.AST] = []
            for t_ in gen.ifs:
                conj += t_.values if isinstance(t_, ast.BoolOp) and isinstance(t_.op, ast.And) else [t_]
            others = [t_ for t_ in conj if not any(x is good.node for x in ast.walk(t_))]
            r.ob(not others, {"bulk copy leaves out only the supplied inputs": not others, "other filters": [norm_src(t_) for t_ in others]})
            if others:
                r.violate(f"{f.short} splice: stored values of the nested DAG are left out of the copy ({norm_src(others[0])})", f.loc(others[0]),
                          "a value the nested DAG holds that is not carried into the outer description reads as None there: a literal the "
                          "nested DAG returns ((x, 'cm') -> (x, None)), or a setup result that is then computed a second time",
                          norm_src(others[0]))
    # every explicit argument gets its stub and its registration: the loop that binds arguments to inputs has no way round them
    for lp in own_walk(sp.block):
        if isinstance(lp, ast.For) and isinstance(lp.iter, ast.Call) and dotted(lp.iter.func) == "zip" \
                and any(isinstance(x, ast.Call) and (dotted(x.func) or "").endswith("LazyExecNode") for x in own_walk(lp)):
            skips = [x for x in own_walk(lp) if isinstance(x, (ast.Continue, ast.Break))]
            r.ob(not skips, {"argument loop binds every explicit argument": not skips})
            if skips:
                r.violate(f"{f.short} splice: an explicit argument can bypass its stub", f.loc(skips[0]),
                          "an input bound without a stub is not recorded as supplied: the copy of the inner DAG's own results then "
                          "overwrites it with the parameter's default, and a value known at description time is frozen into the outer DAG",
                          norm_src(_innermost_stmt(f.node, skips[0]) or skips[0])[:100])
    # the stub list receives the stub's own (prefixed) id
    for name, apps in sp.appends.items():
        for a in apps:
            r.ob(True, {"stub id recorded": norm_src(a)})
    return r


# --------------------------------------------------------------------------------------------- REF-GETITEM
def ref_getitem(ctx: Ctx) -> RuleResult:
    """Indexing a reference yields a NEW reference with the key appended; the receiver's key list is never mutated or shared."""
    r = RuleResult("REF-GETITEM")
    gi = ctx.own_method("UsageExecNode", "__getitem__")
    r.require(gi is not None, "UsageExecNode.__getitem__ not found")
    kp = gi.node.args.args[1].arg
    rets = [n for n in iter_own_nodes(gi.node) if isinstance(n, ast.Return) and n.value is not None]
    r.require(len(rets) == 1, "__getitem__: single return expected")
    rv = rets[0].value
    muts = [n for n in iter_own_nodes(gi.node) if isinstance(n, ast.Call) and isinstance(n.func, ast.Attribute)
            and n.func.attr in ("append", "extend", "insert") and isinstance(n.func.value, ast.Attribute) and n.func.value.attr == "key"]
    if muts:
        m = muts[0]
        tgt = dotted(m.func.value.value)
        asg = [n for n in iter_own_nodes(gi.node) if isinstance(n, ast.Assign) and dotted(n.targets[0]) == tgt]
        deep = len(asg) == 1 and isinstance(asg[0].value, ast.Call) and (dotted(asg[0].value.func) or "").split(".")[-1] == "deepcopy" \
            and dotted(asg[0].value.args[0]) == "self"
        ok = tgt != "self" and deep and dotted(rv) == tgt and dotted(m.args[0]) == kp
        # ONE step of the key path per indexing, whatever the key is: a tuple key (a dict keyed by pairs, a sparse grid) is one key
        if m.func.attr != "append" or dotted(m.args[0]) != kp:
            r.ob(False, {"key recorded by": norm_src(m)[:80]})
            r.violate(f"UsageExecNode.__getitem__: the key is not recorded as one step of the key path ({norm_src(m)[:60]})", gi.loc(m),
                      "table[0, 1] must be resolved as table[(0, 1)] at node entry; spreading a tuple key over several steps resolves it as "
                      "table[0][1] - another element, or a KeyError", norm_src(m))
            return r
        r.ob(ok, {"new reference": norm_src(asg[0]) if asg else None, "key appended to": tgt, "returned": norm_src(rv)})
        if tgt == "self":
            r.violate("UsageExecNode.__getitem__: appends the key to the receiver itself", gi.loc(m),
                      "every other use of the same result (whole value, another index) silently becomes an indexed use", norm_src(m))
        elif not deep:
            r.violate("UsageExecNode.__getitem__: the new reference shares the receiver's key list", gi.loc(asg[0] if asg else m),
                      "a shallow copy (or an alias) of a reference shares its key list: appending the new key also changes the "
                      "reference that was indexed, and every later index accumulates", norm_src(asg[0]) if asg else None)
        elif not ok:
            raise Undecided("__getitem__: form not recognised")
    else:
        # constructive form: UsageExecNode(self.id, self.key + [key]) / [*self.key, key]
        ok = isinstance(rv, ast.Call) and len(rv.args) + len(rv.keywords) == 2 and "self.key" in norm_src(rv) and kp in names_in(rv) \
            and not any(isinstance(x, ast.Attribute) and x.attr == "key" and isinstance(getattr(x, "ctx", None), ast.Store) for x in ast.walk(gi.node))
        r.ob(ok, {"returned": norm_src(rv)})
        if not ok:
            raise Undecided("__getitem__: form not recognised: " + norm_src(rv))
    # the dataclass is frozen: references are never edited in place elsewhere
    c = ctx.P.classes[uxn_q(ctx)]
    frozen = any("frozen=True" in ast.unparse(d) for d in c.node.decorator_list)
    r.ob(frozen, {"UsageExecNode is a frozen dataclass": frozen})
    return r


# --------------------------------------------------------------------------------------------- REF-RESERVED
def ref_reserved(ctx: Ctx) -> RuleResult:
    """The reserved keyword names agree between the tracer (which strips them from kwargs) and the runner (which must not pass them)."""
    r = RuleResult("REF-RESERVED")
    consts = [m for m in ctx.P.modules.values() if "RESERVED_KWARGS" in m.globals_]
    r.require(len(consts) == 1, "RESERVED_KWARGS not found")
    st = consts[0].globals_["RESERVED_KWARGS"]
    val = st.value
    reserved = {dotted(x) for x in (val.elts if isinstance(val, (ast.Tuple, ast.List, ast.Set)) else [])}
    r.require(len(reserved) >= 3 and None not in reserved, "RESERVED_KWARGS: not a display of names")
    # tracer: make_kwargs skips exactly the reserved names
    mk = [f for f in pkg_funcs(ctx) if f.name == "make_kwargs" and f.cls is None]
    r.require(len(mk) == 1, "make_kwargs not found")
    skips = [n for n in iter_own_nodes(mk[0].node) if isinstance(n, ast.If) and n.body and isinstance(n.body[0], ast.Continue)]
    if len(skips) == 1 and not (isinstance(skips[0].test, ast.Compare) and isinstance(skips[0].test.ops[0], ast.In)):
        t_ = skips[0].test
        pattern = [c for c in ast.walk(t_) if isinstance(c, ast.Call) and isinstance(c.func, ast.Attribute)
                   and c.func.attr in ("startswith", "endswith", "match", "search", "fullmatch")]
        if pattern:
            r.ob(False, {"stripped by the tracer": norm_src(t_)})
            r.violate("make_kwargs: keyword names are stripped by a pattern, not by membership in the reserved names", mk[0].loc(skips[0]),
                      "an ordinary keyword argument of the user's function that merely matches the pattern (twz_factor) is neither wired "
                      "as a dependency nor passed on: the function silently runs with its default", norm_src(t_))
            return r
    r.require(len(skips) == 1 and isinstance(skips[0].test, ast.Compare) and isinstance(skips[0].test.ops[0], ast.In), "make_kwargs: skip test not found")
    c = skips[0].test.comparators[0]
    skipped = {dotted(x) for x in c.elts} if isinstance(c, (ast.List, ast.Tuple, ast.Set)) else ({"RESERVED_KWARGS"} if dotted(c) == "RESERVED_KWARGS" else set())
    if skipped == {"RESERVED_KWARGS"}:
        skipped = set(reserved)
    ok = skipped == reserved
    r.ob(ok, {"reserved": sorted(reserved), "stripped by the tracer": sorted(skipped)})
    if not ok:
        r.violate("make_kwargs: the keyword names stripped at trace time differ from RESERVED_KWARGS", mk[0].loc(skips[0]),
                  f"names {sorted(reserved ^ skipped)} are reserved on one side only: a reserved keyword is passed on to the user function, "
                  f"or an ordinary keyword argument is silently dropped", sorted(skipped))
    # runner: execute filters by RESERVED_KWARGS
    ex = ctx.method("ExecNode", "execute")
    flt = [n for n in iter_own_nodes(ex.node) if isinstance(n, ast.DictComp) and n.generators[0].ifs]
    okf = len(flt) == 1 and norm_src(flt[0].generators[0].ifs[0]).endswith("not in RESERVED_KWARGS")
    r.ob(okf, {"runner filter": norm_src(flt[0].generators[0].ifs[0]) if flt else None})
    # each reserved keyword is consumed by the tracer
    lz = ctx.own_method("LazyExecNode", "__call__")
    src = ast.unparse(lz.node)
    for nm in sorted(reserved):
        used = nm in src or (nm == "ARG_NAME_ACTIVATE" and "make_active" in src)
        r.ob(used, {"consumed at trace time": nm})
    return r


# --------------------------------------------------------------------------------------------- REF-TRACE
def ref_trace(ctx: Ctx) -> RuleResult:
    """Trace-side plumbing: constants become holders carrying their value; positional order kept; unpack_to yields indexed references;
    the DAG object is built from the recorded tables and the inputs in signature order."""
    r = RuleResult("REF-TRACE")
    # make_default_value_uxn
    md = [f for f in pkg_funcs(ctx) if f.name == "make_default_value_uxn"]
    r.require(len(md) == 1, "make_default_value_uxn not found")
    f = md[0]
    vp = f.node.args.args[2].arg
    st = [n for n in iter_own_nodes(f.node) if isinstance(n, ast.Assign) and isinstance(n.targets[0], ast.Subscript)]
    okv = any(dotted(n.value) == vp and norm_src(n.targets[0].slice).endswith(".id") for n in st)
    okn = any(norm_src(n.targets[0].slice).endswith(".id") and dotted(n.value) == dotted(n.targets[0].slice.value) for n in st
              if isinstance(n.targets[0].slice, ast.Attribute))
    r.ob(okv and okn, {"constant holder stores its value under its own id": okv, "holder registered": okn})
    if not okv:
        r.violate("make_default_value_uxn: the constant is not stored under the holder's id", f.loc(), "", None)
    # make_args keeps order, replaces only non-references
    ma = [g for g in pkg_funcs(ctx) if g.name == "make_args" and g.cls is None]
    r.require(len(ma) == 1, "make_args not found")
    g = ma[0]
    loop = [n for n in g.node.body if isinstance(n, ast.For)]
    r.require(len(loop) == 1 and isinstance(loop[0].iter, ast.Call) and dotted(loop[0].iter.func) == "enumerate", "make_args: enumerate loop not found")
    iv, av = [dotted(x) for x in loop[0].target.elts]
    cond = [n for n in loop[0].body if isinstance(n, ast.If)]
    mk = [n for n in ast.walk(loop[0]) if isinstance(n, ast.Call) and dotted(n.func) == "make_default_value_uxn"]
    oki = len(mk) == 1 and len(mk[0].args) == 3 and dotted(mk[0].args[1]) == iv and dotted(mk[0].args[2]) == av
    is_ref, not_ref = f"isinstance({av}, UsageExecNode)", f"not isinstance({av}, UsageExecNode)"

    def _appends(stmts):
        return [n for n in stmts if isinstance(n, ast.Expr) and isinstance(n.value, ast.Call) and isinstance(n.value.func, ast.Attribute)
                and n.value.func.attr == "append" and n.value.args]

    okc = False
    app = []
    if len(cond) == 1 and norm_src(cond[0].test) == not_ref and not cond[0].orelse:
        # layout 1: a constant is replaced by its holder, then the (possibly replaced) value is appended
        okc = True
        app = [n for n in _appends(loop[0].body) if dotted(n.value.args[0]) == av]
    elif len(cond) == 1 and norm_src(cond[0].test) in (is_ref, not_ref) and cond[0].orelse and not _appends(loop[0].body):
        # layout 2: each arm appends - the reference itself / the holder of the constant
        ref_arm, const_arm = (cond[0].body, cond[0].orelse) if norm_src(cond[0].test) == is_ref else (cond[0].orelse, cond[0].body)
        ra, ca = _appends(ref_arm), _appends(const_arm)
        okc = len(ra) == 1 and dotted(ra[0].value.args[0]) == av and len(ca) == 1 and any(ca[0].value.args[0] is m_ for m_ in mk)
        app = ra + ca if okc else []
    elif not cond:
        # layout 3: one append of a conditional expression
        aps = _appends(loop[0].body)
        if len(aps) == 1 and isinstance(aps[0].value.args[0], ast.IfExp):
            e_ = aps[0].value.args[0]
            t_ = norm_src(e_.test)
            r_, c_ = (e_.body, e_.orelse) if t_ == is_ref else (e_.orelse, e_.body)
            okc = t_ in (is_ref, not_ref) and dotted(r_) == av and any(c_ is m_ for m_ in mk)
            app = aps if okc else []
            cond = [aps[0]] if not okc else []
    r.ob(okc and oki and len(app) >= 1, {"make_args": "constants -> holders keyed by position; appended in call order"})
    if cond and not okc:
        r.violate("make_args: the test deciding 'constant or reference' changed", g.loc(cond[0]), "", norm_src(getattr(cond[0], "test", cond[0])))
    if mk and not oki:
        r.violate("make_args: the constant holder is not keyed by the argument's own position / value", g.loc(mk[0]),
                  "two constants of one call would share a holder or carry the wrong value", norm_src(mk[0]))
    if not app:
        r.violate("make_args: arguments are not appended in call order", g.loc(loop[0]), "", None)
    # unpack_to
    ux = ctx.own_method("LazyExecNode", "_usage_exec_node")
    r.require(ux is not None, "_usage_exec_node not found")
    rets = [n for n in iter_own_nodes(ux.node) if isinstance(n, ast.Return)]
    gen = [x for n in rets for x in ast.walk(n) if isinstance(x, ast.GeneratorExp)]
    oku = len(gen) == 1 and norm_src(gen[0].generators[0].iter) == "range(self.unpack_to)" and \
        norm_src(gen[0].elt) in (f"UsageExecNode(self.id, key=[{dotted(gen[0].generators[0].target)}])",
                                 f"UsageExecNode(self.id, [{dotted(gen[0].generators[0].target)}])")
    r.ob(oku, {"unpack_to": norm_src(gen[0].elt) if gen else None})
    if gen and not oku:
        r.violate("LazyExecNode._usage_exec_node: unpacked references are not (id, [0]), (id, [1]), ...", ux.loc(gen[0]),
                  "each unpacked name must index its own position of the result", norm_src(gen[0]))
    # make_dag: the DAG is built from the recorded tables, inputs in signature order
    mdg = [h for h in pkg_funcs(ctx) if h.name == "make_dag"]
    r.require(len(mdg) == 1, "make_dag not found")
    h = mdg[0]
    ctors = [n for n in iter_own_nodes(h.node) if isinstance(n, ast.Call) and dotted(n.func) in ("DAG", "AsyncDAG")]
    r.require(len(ctors) == 2, "make_dag: DAG / AsyncDAG constructions not found")
    kws = [{k.arg: norm_src(k.value) for k in c.keywords} for c in ctors]
    same = kws[0] == kws[1]
    r.ob(same, {"DAG and AsyncDAG built from the same arguments": same})
    if not same:
        r.violate("make_dag: DAG and AsyncDAG are built from different arguments", h.loc(ctors[0]), "", kws)
    ok_tbl = kws[0].get("results", "").endswith("results") and kws[0].get("exec_nodes", "").endswith("exec_nodes")
    r.ob(ok_tbl, {"tables": {k: kws[0].get(k) for k in ("results", "exec_nodes", "input_uxns", "return_uxns", "max_concurrency")}})
    call = [n for n in iter_own_nodes(h.node) if isinstance(n, ast.Call) and dotted(n.func) == h.node.args.args[0].arg]
    okd = len(call) == 1 and len(call[0].args) == 1 and isinstance(call[0].args[0], ast.Starred) and \
        dotted(call[0].args[0].value) == kws[0].get("input_uxns")
    r.ob(okd, {"describing function called with the input references": okd})
    if call and not okd:
        r.violate("make_dag: the describing function is not called with the DAG's input references", h.loc(call[0]), "", norm_src(call[0]))
    mc = kws[0].get("max_concurrency")
    okm = mc == h.node.args.args[1].arg
    r.ob(okm, {"max_concurrency forwarded": mc})
    if not okm:
        r.violate("make_dag: max_concurrency of the decorator is not forwarded to the DAG", h.loc(ctors[0]), "", mc)
    return r


# --------------------------------------------------------------------------------------------- REF-REWIRE
def ref_rewire(ctx: Ctx) -> RuleResult:
    """compose: every reference field is rewired under the same test 'the reference points at THE input being replaced'."""
    r = RuleResult("REF-REWIRE")
    f = ctx.method("BaseDAG", "compose")
    chains = _if_chains(f.node)
    fields = reference_fields(ctx)
    uq = uxn_q(ctx)
    sites = []
    for n in iter_own_nodes(f.node):
        fld = None
        if isinstance(n, ast.Assign) and isinstance(n.targets[0], ast.Subscript) and isinstance(n.targets[0].value, ast.Attribute) \
                and n.targets[0].value.attr in fields and isinstance(n.value, ast.Call) and ctx.T.resolve_callee(f, n.value) == uq:
            fld = n.targets[0].value.attr
            new_id = n.value.args[0]
        elif isinstance(n, ast.Expr) and isinstance(n.value, ast.Call) and dotted(n.value.func) in ("object.__setattr__", "setattr") \
                and len(n.value.args) == 3 and const_str(n.value.args[1]) in fields and isinstance(n.value.args[2], ast.Call):
            fld = const_str(n.value.args[1])
            new_id = n.value.args[2].args[0] if n.value.args[2].args else None
        if fld is None:
            continue
        tests = [t for t, v in chains.get(id(n), ()) if v]
        sites.append((fld, n, tests, new_id))
    r.require(len(sites) >= 3, f"compose: only {len(sites)} rewiring sites found")
    olds = set()
    for fld, n, tests, new_id in sites:
        eq = None
        for t in tests:
            for c in (t.values if isinstance(t, ast.BoolOp) and isinstance(t.op, ast.And) else [t]):
                if isinstance(c, ast.Compare) and len(c.ops) == 1 and isinstance(c.left, ast.Attribute) and c.left.attr == "id" \
                        and is_uxn(ctx, ctx.type_of(f, c.left.value)):
                    eq = c
        ok = eq is not None and isinstance(eq.ops[0], ast.Eq) and isinstance(eq.comparators[0], ast.Name)
        r.ob(ok, {"field": fld, "rewired under": norm_src(eq) if eq is not None else None})
        if eq is None:
            r.violate(f"BaseDAG.compose: '{fld}' is rewired without testing which input the reference points at", f.loc(n), "", norm_src(n))
        elif not ok:
            r.violate(f"BaseDAG.compose: '{fld}' is rewired under '{norm_src(eq)}', not 'the reference points at the input being replaced'",
                      f.loc(n), "a reference to ANY composed input is rewired to the new id of the input currently handled by the loop: with "
                      "several inputs the reference silently follows the wrong argument", norm_src(eq))
        else:
            olds.add(eq.comparators[0].id)
    # a reference found while walking one field is written back into the same field, at the position it was found
    for n in iter_own_nodes(f.node):
        if isinstance(n, ast.For) and isinstance(n.iter, ast.Call) and isinstance(n.target, ast.Tuple):
            walked = None
            src = (n.iter.args[0] if n.iter.args else None) if dotted(n.iter.func) == "enumerate" else \
                (n.iter.func.value if isinstance(n.iter.func, ast.Attribute) and n.iter.func.attr == "items" else None)
            if isinstance(src, ast.Attribute) and src.attr in fields and is_xn(ctx, ctx.type_of(f, src.value)):
                walked = (dotted(src.value), src.attr)
                idx = dotted(n.target.elts[0])
                for w in own_walk(n):
                    if isinstance(w, ast.Assign) and isinstance(w.targets[0], ast.Subscript) and isinstance(w.targets[0].value, ast.Attribute) \
                            and w.targets[0].value.attr in fields and isinstance(w.value, ast.Call) and ctx.T.resolve_callee(f, w.value) == uq:
                        wrote = (dotted(w.targets[0].value.value), w.targets[0].value.attr)
                        okw = wrote == walked and dotted(w.targets[0].slice) == idx
                        r.ob(okw, {"walked": ".".join(walked), "written": f"{'.'.join(wrote)}[{norm_src(w.targets[0].slice)}]"})
                        if not okw:
                            r.violate(f"BaseDAG.compose: a reference found in '{walked[1]}' is written into '{wrote[1]}[{norm_src(w.targets[0].slice)}]'",
                                      f.loc(w), "the reference that pointed at the replaced input stays in place (dangling id) and another slot is "
                                      "overwritten", norm_src(w))
    # every occurrence of the replaced input is rewired: the loops that walk the references are not left early
    for fld, n, tests, new_id in sites:
        for lp in iter_own_nodes(f.node):
            if isinstance(lp, (ast.For, ast.While)) and any(n is x for x in own_walk(lp)):
                early = [x for x in own_walk(lp) if isinstance(x, (ast.Break, ast.Return))]
                if early:
                    r.ob(False, {"field": fld, "loop left early by": norm_src(early[0])})
                    r.violate(f"BaseDAG.compose: the loop that rewires '{fld}' is left after the first match", f.loc(early[0]),
                              "a node that uses the replaced input twice (f(p, p), or two unpacked parts of it) keeps one reference to the "
                              "old id, which the composed DAG does not hold: KeyError / None at run time", norm_src(early[0]))
                    break
    same = len(olds) <= 1
    r.ob(same, {"all fields compare with": sorted(olds)})
    if not same:
        r.violate("BaseDAG.compose: reference fields are rewired against different old ids", f.loc(), "", sorted(olds))
    # the (old id, new id) pairs come from one zip over equally long lists
    loops = [n for n in iter_own_nodes(f.node) if isinstance(n, ast.For) and isinstance(n.iter, ast.Call) and dotted(n.iter.func) == "zip"
             and olds and any(isinstance(t, ast.Name) and t.id in olds for t in ast.walk(n.target))]
    r.ob(len(loops) == 1, {"old/new ids paired by": norm_src(loops[0].iter) if loops else None})
    # the rewired reference points at the new id paired with that old id, and keeps the key path of the reference it replaces
    if len(loops) == 1 and isinstance(loops[0].target, ast.Tuple) and len(loops[0].target.elts) == 2:
        names = [dotted(x) for x in loops[0].target.elts]
        new_var = next((x for x in names if x not in olds), None)
        for fld, n, tests, new_id in sites:
            okn = new_id is not None and dotted(new_id) == new_var
            r.ob(okn, {"field": fld, "rewired to": norm_src(new_id) if new_id is not None else None, "new id of the pair": new_var})
            if not okn:
                r.violate(f"BaseDAG.compose: '{fld}' is rewired to '{norm_src(new_id) if new_id is not None else '?'}', not to the new id "
                          f"paired with the replaced input ('{new_var}')", f.loc(n),
                          "the reference keeps pointing at an id the composed DAG does not hold (or at another input): the node reads "
                          "None / the wrong argument", norm_src(n))
    return r


# --------------------------------------------------------------------------------------------- VAL-GENREUSE
def _one_shot(v: ast.AST) -> bool:
    if isinstance(v, ast.GeneratorExp):
        return True
    if isinstance(v, ast.Call) and dotted(v.func) in ("map", "filter", "iter", "zip", "reversed", "enumerate"):
        return True
    return False


def _genreuse_hits(ctx: Ctx, funcs: Iterable[FuncInfo]):
    for f in funcs:
        for n in iter_own_nodes(f.node):
            if isinstance(n, ast.Assign) and len(n.targets) == 1 and isinstance(n.targets[0], ast.Name) and _one_shot(n.value):
                name = n.targets[0].id
                uses = [x for x in iter_own_nodes(f.node) if isinstance(x, ast.Name) and x.id == name and isinstance(x.ctx, ast.Load)]
                in_loop = []
                for lp in iter_own_nodes(f.node):
                    if isinstance(lp, (ast.For, ast.While, ast.ListComp, ast.SetComp, ast.GeneratorExp, ast.DictComp)) and lp is not n.value:
                        bodies = lp.body if isinstance(lp, (ast.For, ast.While)) else [lp.elt if not isinstance(lp, ast.DictComp) else lp.value] + \
                            [i for g in lp.generators for i in g.ifs]
                        for b in bodies:
                            for x in ast.walk(b):
                                if isinstance(x, ast.Name) and x.id == name and isinstance(x.ctx, ast.Load):
                                    in_loop.append(x)
                yield f, n, name, len(uses), in_loop


def val_genreuse(ctx: Ctx) -> RuleResult:
    """A one-shot iterator (generator expression, map, filter, ...) bound to a name must not be consumed repeatedly."""
    r = RuleResult("VAL-GENREUSE")
    n_sites = 0
    for f, n, name, nuses, in_loop in _genreuse_hits(ctx, pkg_funcs(ctx)):
        n_sites += 1
        ok = not in_loop
        r.ob(ok, {"one-shot iterator": f"{name} = {norm_src(n.value)[:70]}", "in": f.short, "uses": nuses, "used inside a loop": len(in_loop)})
        if not ok:
            r.violate(f"{f.short}: one-shot iterator '{name}' is consumed inside a loop", f.loc(in_loop[0]),
                      "a generator is exhausted by its first (unsuccessful) membership test or iteration: every later test is vacuously "
                      "False, so a validation that loops over nodes silently stops refusing", norm_src(n))
    cf = control_funcs(ctx)
    if cf:
        r.require(any(il for _, _, _, _, il in _genreuse_hits(ctx, cf)), "positive control for VAL-GENREUSE did not match")
    r.ob(True, {"one-shot iterators bound to names": n_sites})
    return r


def _stable_type(t: tuple) -> Optional[bool]:
    """True: text that is the same in every process (str / int); False: an object whose text is its repr; None: unknown."""
    if not t:
        return None
    if t[0] in ("str", "int", "bool"):
        return True
    if t[0] == "union":
        parts = [_stable_type(x) for x in t[1]]
        if any(x is False for x in parts):
            return False
        return True if all(x is True for x in parts) else None
    if t[0] in ("callable", "cls", "inst", "func", "type", "bm", "extinst", "list", "dict", "set", "tuple", "float"):
        return False
    return None


def ref_stableid(ctx: Ctx) -> RuleResult:
    """Node ids are built from text only: every value interpolated into an id is a str or an int, never an object (whose
    text would be its repr, memory address included: the id differs between processes and between two builds of one DAG)."""
    r = RuleResult("REF-STABLEID")
    sites: List[Tuple[FuncInfo, ast.JoinedStr, str]] = []
    for f in ctx.funcs():
        if f.module.name.endswith("_twzsa_control"):
            continue
        ret_id = f.node.returns is not None and norm_src(f.node.returns) in ("Identifier", "'Identifier'")
        for n in iter_own_nodes(f.node):
            if isinstance(n, ast.Call):
                for k in n.keywords:
                    if k.arg == "id_" and isinstance(k.value, ast.JoinedStr):
                        sites.append((f, k.value, "id_= of " + norm_src(n.func)))
            elif isinstance(n, ast.Return) and ret_id and isinstance(n.value, ast.JoinedStr):
                sites.append((f, n.value, "returned Identifier"))
    r.require(len(sites) >= 3, f"only {len(sites)} id-building f-strings found")
    for f, js, where in sites:
        for v in js.values:
            if not isinstance(v, ast.FormattedValue):
                continue
            e = v.value
            if isinstance(e, ast.Attribute) and e.attr in ("__qualname__", "__name__", "id", "qualname"):
                st: Optional[bool] = True
                t: tuple = ("str",)
            else:
                t = ctx.type_of(f, e)
                st = _stable_type(t)
                if st is None and isinstance(e, ast.Name):
                    a = f.node.args
                    ann = next((p.annotation for p in a.posonlyargs + a.args + a.kwonlyargs if p.arg == e.id), None)
                    if ann is not None and "Callable" in norm_src(ann):
                        st = False
            r.ob(st is True, {"id built in": f.short, "where": where, "interpolates": norm_src(e), "type": str(t[0])})
            if st is False:
                r.violate(f"{f.short}: node id interpolates the object '{norm_src(e)}' ({t[0]})", f.loc(js),
                          "the text of an object is its repr (memory address included): the id changes from one process to the next "
                          "and between two builds of the same DAG, so a cache file written by one run names nodes the next run does not have",
                          norm_src(js))
            elif st is None:
                raise Undecided(f"{f.short}: cannot type '{norm_src(e)}' interpolated into a node id")
    return r


def _innermost_stmt(fn: ast.AST, node: ast.AST) -> Optional[ast.stmt]:
    best = None
    for st in ast.walk(fn):
        if isinstance(st, ast.stmt) and st is not fn and any(x is node for x in ast.walk(st)):
            if best is None or any(x is st for x in ast.walk(best)):
                best = st
    return best


def ref_samenode(ctx: Ctx) -> RuleResult:
    """Splice: every field value of a rebuilt inner node is read from THE node being rebuilt (the one its field dictionary was taken from)."""
    r = RuleResult("REF-SAMENODE")
    sp = _splice(ctx)
    f = sp.fn
    rebuilt = [n for n in iter_own_nodes(f.node) if isinstance(n, ast.Assign) and isinstance(n.value, ast.Call)
               and (dotted(n.value.func) or "").endswith("asdict") and any(n is x for x in ast.walk(sp.block)) and n.value.args]
    r.require(len(rebuilt) == 1, "splice: the field dictionary of the rebuilt node (asdict) not found")
    vals = dotted(rebuilt[0].targets[0])
    subj = dotted(rebuilt[0].value.args[0])
    r.require(bool(vals and subj), "splice: asdict subject is not a name")
    # the loop body that rebuilds one node
    loop = None
    for n in own_walk(sp.block):
        if isinstance(n, (ast.While, ast.For)) and any(x is rebuilt[0] for x in ast.walk(n)):
            loop = n
    r.require(loop is not None, "splice: rebuild loop not found")
    n_reads = 0
    for n in own_walk(loop):
        e = None
        if isinstance(n, ast.Attribute) and isinstance(n.value, ast.Name) and n.value.id != subj and is_xn(ctx, ctx.type_of(f, n.value)):
            e = n
        elif isinstance(n, ast.Call) and dotted(n.func) == "type" and len(n.args) == 1 and isinstance(n.args[0], ast.Name) \
                and n.args[0].id != subj and is_xn(ctx, ctx.type_of(f, n.args[0])):
            e = n
        if isinstance(n, ast.Attribute) and isinstance(n.value, ast.Name) and n.value.id == subj:
            n_reads += 1
        if e is None:
            continue
        other = e.value.id if isinstance(e, ast.Attribute) else e.args[0].id
        r.ob(False, {"reads": norm_src(e), "node being rebuilt": subj})
        r.violate(f"{f.short} splice: the rebuilt node takes '{norm_src(e)}' from '{other}', not from the node being rebuilt ('{subj}')",
                  f.loc(e), f"'{other}' is a different ExecNode (e.g. the variable of an earlier loop, which holds the LAST node of the table): "
                  "every inner node gets that node's arguments / activation / class", norm_src(_innermost_stmt(f.node, e) or e)[:120])
    r.ob(n_reads >= 4, {"reads of the node being rebuilt": n_reads})
    r.require(n_reads >= 4, f"only {n_reads} reads of '{subj}' in the rebuild loop")
    return r


def ref_nonekey(ctx: Ctx) -> RuleResult:
    """What a deactivated node leaves in the results and how UsageExecNode.result reads it must agree.

    A reference with a key path (index / unpack) to a node that did not run yields None; the same key path on a node that really
    returned None is the user's error and raises, as in plain Python. Two consistent designs: the scheduler stores *nothing* for a
    deactivated node (an absent id reads as None whatever the key path) - or it stores a marker the accessor tests. The two
    inconsistent ones are reported: a stored None folded over the key path (AttributeError from the scheduler / a worker / the return
    values), and a stored None told apart by `is None` (a real None result is then silently read as None too)."""
    from .sch import model

    r = RuleResult("REF-NONEKEY")
    m = model(ctx)
    stored_values: Set[str] = set()
    deact_paths = 0
    for p in m.paths():
        if not p.feasible:
            continue
        if any(e.kind == "BRANCH" and frozenset([("ACTIVE", False)]) in e.data["clauses"] for e in p.events):
            deact_paths += 1
            for e in p.events:
                if e.kind == "ITEM_WRITE" and e.data.get("selected"):
                    stored_values.add(e.data.get("value"))
    r.require(deact_paths >= 1, "scheduler: no path through the deactivated arm found")
    if len(stored_values) > 1 or (stored_values and stored_values != {"None"}):
        raise Undecided(f"the scheduler stores {sorted(stored_values)} for a deactivated node (marker forms are not modelled)")
    stores_none = stored_values == {"None"}
    r.ob(True, {"scheduler stores for a deactivated node": "None" if stores_none else "nothing (the id stays absent)"})
    f = ctx.method("UsageExecNode", "result")
    folds = [n for n in iter_own_nodes(f.node) if (isinstance(n, ast.Call) and dotted(n.func) in ("reduce", "functools.reduce"))
             or (isinstance(n, ast.For) and norm_src(n.iter) == "self.key")]
    r.require(len(folds) >= 1, "UsageExecNode.result: key-path fold not found")
    chains = _if_chains(f.node)
    stored = {n_.targets[0].id for n_ in iter_own_nodes(f.node) if isinstance(n_, ast.Assign) and isinstance(n_.targets[0], ast.Name)
              and ((isinstance(n_.value, ast.Subscript) and norm_src(n_.value.value).endswith("results"))
                   or (isinstance(n_.value, ast.Call) and isinstance(n_.value.func, ast.Attribute) and n_.value.func.attr == "get"
                       and norm_src(n_.value.func.value).endswith("results")))}

    def none_test_of_stored(t: ast.AST) -> bool:
        for c_ in ast.walk(t):
            if isinstance(c_, ast.Compare) and len(c_.ops) == 1 and isinstance(c_.ops[0], (ast.Is, ast.IsNot, ast.Eq, ast.NotEq)) \
                    and isinstance(c_.comparators[0], ast.Constant) and c_.comparators[0].value is None:
                l_ = c_.left
                if (isinstance(l_, ast.Name) and l_.id in stored) or (isinstance(l_, ast.Subscript) and norm_src(l_.value).endswith("results")):
                    return True
        return False

    for fd in folds:
        st = _innermost_stmt(f.node, fd) if not isinstance(fd, ast.stmt) else fd
        tests = [norm_src(t) for t, v in chains.get(id(st), ()) if none_test_of_stored(t)]
        # or an early exit before the fold: `if <stored value> is None [and <key path>]: return <constant>`
        for g_ in iter_own_nodes(f.node):
            if isinstance(g_, ast.If) and g_.lineno < fd.lineno and g_.body and isinstance(g_.body[-1], ast.Return) and none_test_of_stored(g_.test):
                tests = tests + [norm_src(g_.test) + " -> return"]
        by_none = bool(tests)
        # an absent id (deactivated, or not selected) must read as None BEFORE the fold: `results.get(id)` folded over the key path does not
        src = fd.args[2] if isinstance(fd, ast.Call) and len(fd.args) == 3 else None
        if isinstance(src, ast.Name):
            ds = [n_ for n_ in iter_own_nodes(f.node) if isinstance(n_, ast.Assign) and isinstance(n_.targets[0], ast.Name) and n_.targets[0].id == src.id]
            src = ds[0].value if len(ds) == 1 else src
        absent_as_none = isinstance(src, ast.Call) and isinstance(src.func, ast.Attribute) and src.func.attr == "get" \
            and norm_src(src.func.value).endswith("results") and len(src.args) == 1
        member = any(isinstance(c_, ast.Compare) and len(c_.ops) == 1 and isinstance(c_.ops[0], (ast.In, ast.NotIn)) and norm_src(c_.comparators[0]).endswith("results")
                     for g_ in iter_own_nodes(f.node) if isinstance(g_, ast.If) for c_ in ast.walk(g_.test))
        if absent_as_none and not member and not by_none:
            r.ob(False, {"key-path fold over": norm_src(src), "membership test before it": False})
            r.violate("UsageExecNode.result: the key path is applied to the None of an absent id", f.loc(fd),
                      "a node that did not run (deactivated, or left out of the selection) has no entry in the results: an indexed / "
                      "unpacked part of it must read as None, not raise AttributeError: 'NoneType' object has no attribute '__getitem__' "
                      "from the scheduler, a worker or the return values", norm_src(fd)[:120])
            continue
        ok = not by_none and not stores_none
        r.ob(ok, {"key-path fold": norm_src(fd)[:90], "bypassed when the stored value is None": tests})
        if stores_none and not by_none:
            r.violate("UsageExecNode.result: the key path is applied to the None stored for a deactivated node", f.loc(fd),
                      "a node (or a nested DAG's output) that is an indexed / unpacked part of a deactivated node does not yield None: "
                      "the call fails with AttributeError: 'NoneType' object has no attribute '__getitem__' - in the return value, in a "
                      "dependent's arguments (worker thread) or in the activation test (scheduler loop); an id that is absent from the "
                      "results, by contrast, yields None whatever the key path", norm_src(fd)[:120])
        elif by_none:
            r.violate("UsageExecNode.result: a stored None is read as 'did not run'", f.loc(fd),
                      "the accessor skips the key path when the stored value is None: a node (or DAG argument) that really returned None "
                      "and is indexed / unpacked hands None to its dependents instead of raising like the plain function does - a "
                      "deactivated node cannot be told from one that returned None by the value alone", tests)
    return r


def ref_seedact(ctx: Ctx) -> RuleResult:
    """Splice: values seeded into the outer results for inner nodes (defaults of omitted parameters, constant return values) are
    not seeded when the nested DAG carries an activation flag - a seeded node counts as executed and can never be deactivated."""
    r = RuleResult("REF-SEEDACT")
    sp = _splice(ctx)
    f = sp.fn
    flag = None
    for n in iter_own_nodes(f.node):
        if isinstance(n, ast.Assign) and isinstance(n.targets[0], ast.Name) and isinstance(n.value, ast.Compare) \
                and len(n.value.ops) == 1 and isinstance(n.value.ops[0], ast.In) and "ARG_NAME_ACTIVATE" in norm_src(n.value.left):
            flag = n.targets[0].id
    direct = any(isinstance(n, ast.Compare) and len(n.ops) == 1 and isinstance(n.ops[0], (ast.In, ast.NotIn)) and "ARG_NAME_ACTIVATE" in norm_src(n.left)
                 for n in own_walk(sp.block))
    r.require(flag is not None or direct, "splice: test of the presence of the activation keyword not found")
    flag = flag or "ARG_NAME_ACTIVATE"
    seeds = [n for n in own_walk(sp.block) if isinstance(n, ast.Call) and isinstance(n.func, ast.Attribute) and n.func.attr == "update"
             and norm_src(n.func.value).endswith("results")]
    r.require(len(seeds) >= 1, "splice: seeding of the outer results not found")
    chains = _if_chains(f.node)
    for sd in seeds:
        st = _innermost_stmt(f.node, sd)
        tests = [norm_src(t) for t, v in chains.get(id(st), ())]
        mentions = flag in {x.id for x in ast.walk(sd) if isinstance(x, ast.Name)} or any(flag in t for t in tests)
        # seeding by an explicit loop: the tests around the loop and inside it count as well
        for lp_ in own_walk(sp.block):
            if isinstance(lp_, (ast.For, ast.While)) and any(x is sd for x in ast.walk(lp_)):
                mentions = mentions or any(flag in norm_src(t_) for t_, _v in chains.get(id(lp_), ()))
        r.ob(mentions, {"seeding": norm_src(sd)[:90], "depends on the activation flag": mentions})
        if not mentions:
            r.violate(f"{f.short} splice: inner results are seeded whatever the nested DAG's activation", f.loc(sd),
                      "the default of an omitted parameter and a constant return value are copied into the outer results: those inner "
                      "nodes count as executed, so a deactivated nested DAG still outputs them (e.g. (None, 10) instead of (None, None))",
                      norm_src(sd)[:120])
    return r


def ref_wrapdict(ctx: Ctx) -> RuleResult:
    """update_wrapper on a node / DAG object does not merge the wrapped function's attributes into the object.

    The fields of a (non-slotted) dataclass instance live in its __dict__; functools.update_wrapper, by default, UPDATES that
    __dict__ with the function's own: an attribute of the user's function named like a field (debug, setup, tag, priority, ...)
    silently replaces the configuration the decorator was given."""
    r = RuleResult("REF-WRAPDICT")
    n = 0
    for f in pkg_funcs(ctx):
        sites = []
        for call, q in ctx.calls_in(f):
            d = dotted(call.func) or ""
            if (d.endswith("update_wrapper") or q == "ext:functools.update_wrapper") and call.args:
                sites.append((call, call.args[0], next((k.value for k in call.keywords if k.arg == "updated"), call.args[3] if len(call.args) > 3 else None)))
        # functools.wraps(F)(obj) is update_wrapper(obj, F)
        for call in [x for x in iter_own_nodes(f.node) if isinstance(x, ast.Call) and isinstance(x.func, ast.Call)
                     and (dotted(x.func.func) or "").split(".")[-1] == "wraps" and x.args]:
            sites.append((call, call.args[0], next((k.value for k in call.func.keywords if k.arg == "updated"), None)))
        for call, wrapped_obj, upd in sites:
            t = ctx.type_of(f, wrapped_obj)
            cq = t[1] if t and t[0] in ("cls", "inst") and len(t) > 1 else None
            if cq is None and t and t[0] == "union":
                cq = next((x[1] for x in t[1] if x and x[0] in ("cls", "inst")), None)
            if cq is None or cq not in ctx.P.classes:
                # not an object of the package (e.g. the user's functools.partial, given the attributes of the function it wraps)
                r.ob(True, {"in": f.short, "wraps": norm_src(wrapped_obj), "package object": False})
                continue
            cls = ctx.P.classes[cq]
            fields = sorted(ctx.P.all_fields(cls))
            n += 1
            ok = upd is not None and isinstance(upd, (ast.Tuple, ast.List)) and not upd.elts
            r.ob(ok, {"in": f.short, "wraps": cls.name, "fields in __dict__": len(fields), "updated=": norm_src(upd) if upd is not None else "(default: __dict__)"})
            if not ok and upd is None:
                r.violate(f"{f.short}: update_wrapper merges the function's __dict__ into the {cls.name} it decorates", f.loc(call),
                          f"a function attribute named like one of the {len(fields)} fields ({', '.join(fields[:6])}, ...) replaces the value the "
                          "decorator was given: a plain @xn on a function carrying .debug = True is a debug node and never runs; "
                          "xn(existing_node, setup=True) keeps the old node's options", norm_src(call))
            elif not ok:
                raise Undecided(f"{f.short}: 'updated' argument of update_wrapper not recognised: {norm_src(upd)}")
    r.require(n >= 2, f"only {n} update_wrapper calls on package objects")
    return r


def ref_funcopy(ctx: Ctx) -> RuleResult:
    """The callable a node runs is the object the user passed: wherever a node is rebuilt from asdict(node) - which deep-copies
    every field value - the function is restored from the node itself, uncopied."""
    r = RuleResult("REF-FUNCOPY")
    sites = []
    for f in pkg_funcs(ctx):
        for n in iter_own_nodes(f.node):
            if isinstance(n, ast.Assign) and isinstance(n.targets[0], ast.Name) and isinstance(n.value, ast.Call) \
                    and (dotted(n.value.func) or "").split(".")[-1] == "asdict" and len(n.value.args) == 1 \
                    and is_xn(ctx, ctx.type_of(f, n.value.args[0])):
                sites.append((f, n))
    r.require(len(sites) >= 3, f"only {len(sites)} asdict(node) sites found")
    for f, n in sites:
        vals = n.targets[0].id
        subj = norm_src(n.value.args[0])
        restores = [x for x in iter_own_nodes(f.node) if isinstance(x, ast.Assign) and isinstance(x.targets[0], ast.Subscript)
                    and dotted(x.targets[0].value) == vals and const_str(x.targets[0].slice) == "exec_function"]
        ok = len(restores) >= 1 and all(norm_src(x.value) == f"{subj}.exec_function" for x in restores)
        r.ob(ok, {"in": f.short, "field values from": norm_src(n.value), "function restored as": [norm_src(x.value) for x in restores] or None})
        if not ok:
            copied = [x for x in restores if isinstance(x.value, ast.Call) and (dotted(x.value.func) or "").endswith("copy")]
            r.violate(f"{f.short}: the node rebuilt from asdict({subj}) runs a deep copy of the user's callable", f.loc(copied[0] if copied else n),
                      "asdict deep-copies field values: a bound method is re-bound to a clone of its object and a functools.partial to "
                      "clones of its arguments - the user's callable is never entered; state it keeps (a counter, a log, a connection) is "
                      "per call site: three calls of xn(counter.next) return (1, 1, 1), plain Python returns (1, 2, 3)",
                      norm_src(copied[0]) if copied else norm_src(n))
    # a node that is deep-copied as a whole (compose) gets the original callable back
    for f in pkg_funcs(ctx):
        for n in iter_own_nodes(f.node):
            if isinstance(n, ast.Call) and dotted(n.func) == "deepcopy" and len(n.args) == 1 and is_xn(ctx, ctx.type_of(f, n.args[0])):
                subj = norm_src(n.args[0])
                back = [x for x in iter_own_nodes(f.node) if isinstance(x, ast.Call) and dotted(x.func) in ("object.__setattr__", "setattr")
                        and len(x.args) == 3 and const_str(x.args[1]) == "exec_function" and norm_src(x.args[2]) == f"{subj}.exec_function"]
                r.ob(bool(back), {"in": f.short, "deep copy of a node": norm_src(n), "function restored": bool(back)})
                if not back:
                    r.violate(f"{f.short}: a deep-copied node runs a clone of the user's callable", f.loc(n),
                              "the composed DAG calls a bound method on a clone of its object (or a partial with cloned arguments): it does "
                              "not compute what the original pipeline would compute for these inputs, and the user's object never sees the call",
                              norm_src(n))
    return r


def ref_setupout(ctx: Ctx) -> RuleResult:
    """Every output of a deactivated nested DAG is None - also an output that is (part of) a setup node's result.

    The splice exempts the setup nodes of the nested DAG from its activation flag (they run once, for all calls) and hands the
    nested DAG's return references straight to the outer DAG: an output that refers to a setup node keeps its value when the
    nested DAG is deactivated."""
    from .val import reach_conditions

    r = RuleResult("REF-SETUPOUT")
    call = ctx.own_method("DAG", "__call__")
    r.require(call is not None, "DAG.__call__ not found")
    sites = [n for n in iter_own_nodes(call.node) if isinstance(n, ast.Assign) and isinstance(n.targets[0], ast.Subscript)
             and const_str(n.targets[0].slice) == "active" and isinstance(n.value, ast.Call) and dotted(n.value.func) == "make_active"]
    r.require(len(sites) >= 1, "attachment of the outer flag to inner nodes not found")
    exempt = []
    for st in sites:
        conds = reach_conditions(call.node, st)
        if conds is None:
            raise Undecided("splice: conditions of the flag attachment not understood")
        for c_, pol_ in conds:
            for x in ast.walk(c_):
                if isinstance(x, ast.Attribute) and x.attr == "setup" and is_xn(ctx, ctx.type_of(call, x.value)) and not pol_:
                    exempt.append((st, c_))
    r.ob(True, {"setup nodes exempt from the nested DAG's flag": bool(exempt)})
    if not exempt:
        return r
    # are the outputs routed through something that carries the flag? (a node created per output under the flag)
    rets = [n for n in iter_own_nodes(call.node) if isinstance(n, ast.Return) and n.value is not None
            and any(isinstance(x, ast.Attribute) and x.attr == "return_uxns" for x in ast.walk(n.value))]
    derived = set()
    for n in iter_own_nodes(call.node):
        if isinstance(n, ast.Return) and n.value is not None:
            for x in ast.walk(n.value):
                if isinstance(x, ast.Name):
                    derived.add(x.id)
    direct = bool(rets)
    for n in iter_own_nodes(call.node):
        if isinstance(n, ast.Return) and n.value is not None and any(isinstance(x, ast.Call) and (dotted(x.func) or "") in ("stub", "LazyExecNode")
                                                                      for x in ast.walk(n.value)):
            direct = False
    r.ob(not direct, {"outputs are the nested DAG's own references (prefixed)": direct})
    if direct:
        st, c_ = exempt[0]
        r.violate("splice: an output of the nested DAG that refers to a setup node is exempt from the DAG's activation flag", call.loc(st),
                  "name, pred = scoring(x, twz_active=False) with name = load_model()['name'] (a setup node) yields ('model-v1', None): "
                  "the dependent of `name` computes with the value although the nested DAG is deactivated", norm_src(c_))
    return r


def ref_funtransient(ctx: Ctx) -> RuleResult:
    """The callable of a node is not copied at all - not even into a value that is discarded.

    REF-FUNCOPY makes sure the node that is built runs the original callable. The copy itself still happens when the whole node goes
    through dataclasses.asdict / deepcopy first: a callable that holds state which cannot be copied (a lock, a database connection,
    an open file) makes the describing function fail with TypeError, and a large bound object is cloned once per call site."""
    r = RuleResult("REF-FUNTRANSIENT")
    sites = []
    for f in pkg_funcs(ctx):
        for n in iter_own_nodes(f.node):
            if isinstance(n, ast.Call) and len(n.args) == 1 and (dotted(n.func) or "").split(".")[-1] in ("asdict", "deepcopy") \
                    and is_xn(ctx, ctx.type_of(f, n.args[0])):
                sites.append((f, n))
    for f, n in sites:
        r.ob(False, {"in": f.short, "whole node copied by": norm_src(n)})
    if sites:
        f, n = sites[0]
        r.violate("ExecNode rebuilt through dataclasses.asdict / deepcopy: the callable is deep-copied before it is replaced", f.loc(n),
                  "xn(obj.method) with an obj that owns a threading.Lock, or xn(functools.partial(query, sqlite_connection)), cannot be "
                  "called in a describing function: TypeError: cannot pickle ... (the copy is discarded afterwards, REF-FUNCOPY)",
                  sorted({f"{g.short}: {norm_src(c)}" for g, c in sites}))
    else:
        r.ob(True, {"whole-node copies": 0})
    return r


def ref_resulttry(ctx: Ctx) -> RuleResult:
    """UsageExecNode.result applies the key path the user wrote without catching what that indexing raises.

    'The id is absent from the results' (-> None) is decided by a membership test on the id, never by catching KeyError / IndexError
    around the indexing: a missing key of the USER's dict would then read as None and the dependent node would start on it."""
    r = RuleResult("REF-RESULTTRY")
    f = ctx.method("UsageExecNode", "result")
    tries = [n for n in iter_own_nodes(f.node) if isinstance(n, ast.Try)]
    bad = []
    for t in tries:
        body_folds = any((isinstance(x, ast.Call) and dotted(x.func) in ("reduce", "functools.reduce")) or isinstance(x, ast.Subscript)
                         or (isinstance(x, ast.Attribute) and x.attr == "__getitem__") for st in t.body for x in ast.walk(st))
        if body_folds and t.handlers:
            bad.append(t)
    r.ob(not bad, {"key path applied inside a try with handlers": bool(bad), "try statements": len(tries)})
    if bad:
        h = bad[0].handlers[0]
        r.violate("UsageExecNode.result: the key path is applied inside a try that handles " + (norm_src(h.type) if h.type is not None else "everything"),
                  f.loc(bad[0]),
                  "an exception raised by the indexing the user wrote (a key the dependency's dict lacks, an index out of range) is turned into "
                  "None: the dependent node is entered with a value its dependency never produced instead of the call failing",
                  norm_src(h)[:100])
    return r


def ref_stubexec(ctx: Ctx) -> RuleResult:
    """Splice: how an explicit argument of a nested DAG reaches the inner nodes.

    If it is forwarded by a node that has to be EXECUTED (an identity function), that hidden node is cut by a root selection
    (it does not descend from the roots): the inner nodes then read None for a constant, for another argument of the caller or
    for a setup result - values the same pipeline written flat keeps, because there they are results known before the run."""
    r = RuleResult("REF-STUBEXEC")
    sp = _splice(ctx)
    f = sp.fn
    base = ctx.P.classes[ctx.cls_q("ExecNode")]
    fam = {c.qualname for c in ctx.P.subclasses(base.qualname)}
    stubs = []
    for n in own_walk(sp.block):
        if isinstance(n, ast.Call) and ctx.T.resolve_callee(f, n) in fam:
            fn = next((k.value for k in n.keywords if k.arg == "exec_function"), None)
            if isinstance(fn, ast.Lambda) and len(fn.args.args) == 1 and isinstance(fn.body, ast.Name) and fn.body.id == fn.args.args[0].arg:
                stubs.append(n)
    # whatever forwards the argument forwards the caller's object itself (the inner nodes may update it in place, compare it by identity)
    for n in own_walk(sp.block):
        if isinstance(n, ast.Call) and ctx.T.resolve_callee(f, n) in fam:
            fn = next((k.value for k in n.keywords if k.arg == "exec_function"), None)
            d_ = (dotted(fn) or "") if fn is not None else ""
            body_ = fn.body if isinstance(fn, ast.Lambda) else None
            copies = d_.split(".")[-1] in ("copy", "deepcopy") or (
                isinstance(body_, ast.Call) and (dotted(body_.func) or "").split(".")[-1] in ("copy", "deepcopy", "list", "dict", "set", "tuple"))
            if fn is not None:
                r.ob(not copies, {"hidden forwarding node runs": norm_src(fn)[:60]})
            if copies:
                r.violate(f"{f.short} splice: an explicit argument of a nested DAG reaches the inner nodes as a copy ({norm_src(fn)[:40]})", f.loc(n),
                          "the nested DAG must compute what the inlined body computes: an inner node that updates the caller's object in place "
                          "(or compares it by identity) works on a clone, and the outer DAG reads the untouched original afterwards",
                          norm_src(n)[:120])
    r.ob(not stubs, {"identity nodes created per explicit argument": len(stubs)})
    if stubs:
        r.violate(f"{f.short} splice: explicit arguments are forwarded by executable identity nodes", f.loc(stubs[0]),
                  "executor(root_nodes=R) keeps R and what depends on R: the hidden node of an argument that does not descend from R is cut, "
                  "and the inner nodes receive None for it - ((4, None), (None, 4, None)) where the hand-flattened DAG returns "
                  "((4, 10), ('MODEL', 4, 1)); the same node also takes part in the priority race with the user's nodes",
                  norm_src(stubs[0])[:120])
    return r


def ref_unwrap(ctx: Ctx) -> RuleResult:
    """The decorator never stores an ExecNode as the function of another ExecNode.

    xn(existing_node, priority=...) is how an existing node is given other options. If the new node's exec_function is the old
    node OBJECT, running the new node calls a decorated function outside a description: TawaziUsageError by default (or the
    configured warning / silent direct call)."""
    r = RuleResult("REF-UNWRAP")
    base = ctx.P.classes[ctx.cls_q("ExecNode")]
    fam = {c.qualname for c in ctx.P.subclasses(base.qualname)}
    n = 0
    for f in pkg_funcs(ctx):
        if not f.module.name.endswith("_decorators"):
            continue
        for call, q in ctx.calls_in(f):
            if q not in fam:
                continue
            fn = next((k.value for k in call.keywords if k.arg == "exec_function"), None)
            if not isinstance(fn, ast.Name):
                continue
            n += 1
            # `if isinstance(x, ExecNode): <stored> = x.exec_function` before the construction, where <stored> is the name
            # handed to the constructor (x itself, or a local that is x in the other case)
            unwraps = []
            for x in iter_own_nodes(f.node):
                if not (isinstance(x, ast.If) and isinstance(x.test, ast.Call) and dotted(x.test.func) == "isinstance"
                        and len(x.test.args) == 2 and "ExecNode" in norm_src(x.test.args[1]) and x.lineno < call.lineno):
                    continue
                subj = dotted(x.test.args[0])
                takes = any(isinstance(b, ast.Assign) and dotted(b.targets[0]) == fn.id and isinstance(b.value, ast.Attribute)
                            and b.value.attr == "exec_function" and dotted(b.value.value) == subj for b in x.body)
                other = subj == fn.id or any(isinstance(b, ast.Assign) and dotted(b.targets[0]) == fn.id and dotted(b.value) == subj for b in x.orelse)
                if takes and other:
                    unwraps.append(x)
            refuses = [x for x in iter_own_nodes(f.node) if isinstance(x, ast.If) and "isinstance" in norm_src(x.test) and "ExecNode" in norm_src(x.test)
                       and any(isinstance(b, ast.Raise) for b in x.body) and x.lineno < call.lineno]
            ok = bool(unwraps or refuses)
            r.ob(ok, {"in": f.short, "function stored": fn.id, "an ExecNode is unwrapped / refused first": ok})
            if not ok:
                r.violate(f"{f.short}: the decorated object is stored as the node's function even when it is an ExecNode", f.loc(call),
                          "xn(existing_node, setup=True): the new node runs the OLD NODE as its function; at run time that is a call of a "
                          "decorated function outside a DAG description - TawaziUsageError with the default configuration", norm_src(call)[:100])
    r.require(n >= 1, "construction of the node in the decorator not found")
    # ... and it never hands an existing ExecNode back unchanged: the options given to this call would be dropped
    for f in pkg_funcs(ctx):
        if not f.module.name.endswith("_decorators"):
            continue
        params = {a.arg for a in f.node.args.posonlyargs + f.node.args.args + f.node.args.kwonlyargs}
        for x in iter_own_nodes(f.node):
            if isinstance(x, ast.If) and isinstance(x.test, ast.Call) and dotted(x.test.func) == "isinstance" and len(x.test.args) == 2 \
                    and "ExecNode" in norm_src(x.test.args[1]) and dotted(x.test.args[0]) in params:
                back = [b for b in x.body if isinstance(b, ast.Return) and dotted(b.value) == dotted(x.test.args[0])]
                if back:
                    r.ob(False, {"in": f.short, "returns the ExecNode it was given": norm_src(x.test)})
                    r.violate(f"{f.short}: an existing ExecNode given to the decorator is returned as it is", f.loc(back[0]),
                              "xn(existing_node, is_sequential=True) hands back the old node: the options of this call (is_sequential, "
                              "priority, setup, ...) are silently ignored", norm_src(x)[:100])
    return r


def ref_spliceall(ctx: Ctx) -> RuleResult:
    """The splice re-registers EVERY node of the nested DAG in the outer description, except the inputs that were given an explicit
    argument (those are the stubs registered before). A node skipped for any other reason - e.g. a parameter no inner node reads -
    is still what the nested DAG's returned references (and the copied defaults) name: KeyError at description or at run time."""
    r = RuleResult("REF-SPLICEALL")
    sp = _splice(ctx)
    f = sp.fn
    rebuilt = [n for n in own_walk(sp.block) if isinstance(n, ast.Assign) and isinstance(n.targets[0], ast.Subscript)
               and (dotted(n.targets[0].value) or "").endswith("exec_nodes") and isinstance(n.value, ast.Call)
               and isinstance(n.value.func, ast.Call) and dotted(n.value.func.func) == "type"]
    r.require(len(rebuilt) == 1, "splice: registration of the rebuilt inner node not found")
    loops = [lp for lp in own_walk(sp.block) if isinstance(lp, (ast.For, ast.While)) and any(x is rebuilt[0] for x in ast.walk(lp))]
    r.require(len(loops) >= 1, "splice: loop over the inner nodes not found")
    lp = loops[-1]
    stub_lists = set(sp.appends)
    skips = [n for n in own_walk(lp) if isinstance(n, ast.Continue)]
    chains = _if_chains(f.node)
    for sk in skips:
        tests = [t for t, v in chains.get(id(sk), ()) if any(x is t for x in ast.walk(lp))]
        okk = bool(tests) and all(isinstance(t, ast.Compare) and len(t.ops) == 1 and isinstance(t.ops[0], ast.In) and dotted(t.comparators[0]) in stub_lists
                                  for t in tests)
        r.ob(okk, {"inner node skipped when": [norm_src(t) for t in tests]})
        if not okk:
            r.violate(f"{f.short} splice: an inner node is left out of the outer description when {' and '.join(norm_src(t) for t in tests) or 'always'}",
                      f.loc(sk), "only the inputs that received an explicit argument are skipped (their stubs are already registered); any "
                      "other node of the nested DAG can be named by its returned references or hold a copied default", [norm_src(t) for t in tests])
    r.ob(True, {"loop over the inner nodes": f.loc(lp), "skips": len(skips)})
    return r


def ref_argorder(ctx: Ctx) -> RuleResult:
    """Positional arguments keep their positions: the functions that turn the `*args` of a call into a list of references
    (make_args for a node, construct_subdag_arg_uxns for a nested DAG) start from an empty list and append exactly one reference per
    argument, inside one loop over the arguments - a list pre-filled with 'the references first' or a skipped append shifts every
    later argument into another parameter."""
    r = RuleResult("REF-ARGORDER")
    n_fn = 0
    for name in ("make_args", "construct_subdag_arg_uxns"):
        gs = [g for g in pkg_funcs(ctx) if g.name == name and g.cls is None]
        if len(gs) != 1:
            continue
        g = gs[0]
        va = g.node.args.vararg.arg if g.node.args.vararg else None
        comp = [n for n in iter_own_nodes(g.node) if isinstance(n, ast.Return) and isinstance(n.value, ast.ListComp)]
        if va is not None and len(comp) == 1 and len(comp[0].value.generators) == 1 and va in names_in(comp[0].value.generators[0].iter):
            # one comprehension over the arguments: one element per argument by construction - unless it filters
            n_fn += 1
            flt = comp[0].value.generators[0].ifs
            r.ob(not flt, {"in": g.short, "one comprehension over the arguments, unfiltered": not flt})
            if flt:
                r.violate(f"{g.short}: the comprehension over the arguments filters them ({norm_src(flt[0])})", g.loc(comp[0]),
                          "a skipped argument shifts every later argument into another parameter", norm_src(flt[0]))
            continue
        rets = [n for n in iter_own_nodes(g.node) if isinstance(n, ast.Return) and isinstance(n.value, ast.Name)]
        if va is None or len(rets) != 1:
            continue
        L = rets[0].value.id
        n_fn += 1
        defs = [n for n in iter_own_nodes(g.node) if isinstance(n, (ast.Assign, ast.AnnAssign)) and dotted(n.targets[0] if isinstance(n, ast.Assign) else n.target) == L]
        empty = len(defs) == 1 and defs[0].value is not None and ((isinstance(defs[0].value, ast.List) and not defs[0].value.elts)
                                                                     or (isinstance(defs[0].value, ast.Call) and dotted(defs[0].value.func) == "list" and not defs[0].value.args))
        loops = [n for n in g.node.body if isinstance(n, ast.For) and va in names_in(n.iter)]

        def is_app(x: ast.AST) -> bool:
            return isinstance(x, ast.Expr) and isinstance(x.value, ast.Call) and isinstance(x.value.func, ast.Attribute) \
                and x.value.func.attr in ("append", "extend", "insert") and dotted(x.value.func.value) == L

        def paths(block, acc: Set[int]):
            """(counts of the paths that end the iteration inside the block, counts of the paths that fall through it)."""
            ended: Set[int] = set()
            for st in block:
                if not acc:
                    break
                if is_app(st):
                    acc = {c + 1 for c in acc}
                elif isinstance(st, ast.If):
                    e1, f1 = paths(st.body, set(acc))
                    e2, f2 = paths(st.orelse, set(acc))
                    ended |= e1 | e2
                    acc = f1 | f2
                elif isinstance(st, ast.Continue):
                    ended |= acc  # this argument is done: what was appended so far is its share
                    acc = set()
                elif isinstance(st, ast.Raise):
                    acc = set()  # the whole call is abandoned
                elif isinstance(st, (ast.Break, ast.Return)):
                    ended |= {-100}  # the arguments that follow get nothing
                    acc = set()
                elif any(is_app(x) for x in ast.walk(st)):
                    ended |= {-1}
                    acc = set()
            return ended, acc

        def counts(block) -> Set[int]:
            e_, f_ = paths(block, {0})
            return e_ | f_

        outside = [x for x in iter_own_nodes(g.node) if is_app(x) and not any(any(x is y for y in ast.walk(lp)) for lp in loops)]
        per_iter = counts(loops[0].body) if len(loops) == 1 else {-1}
        ok = empty and len(loops) == 1 and not outside and per_iter == {1}
        r.ob(ok, {"in": g.short, "list starts empty": empty, "appends per argument": sorted(per_iter), "appends outside the loop": len(outside)})
        if not empty and defs:
            r.violate(f"{g.short}: the list of references does not start empty ({norm_src(defs[0].value)[:60]})", g.loc(defs[0]),
                      "elements placed before the loop occupy the first positions whatever the positions of the arguments they came from: "
                      "scale(10, measure()) binds the node result to the first parameter and the constant to the second", norm_src(defs[0])[:100])
        elif len(loops) == 1 and (per_iter != {1} or outside):
            r.violate(f"{g.short}: not exactly one reference is appended per argument", g.loc(loops[0]),
                      "an argument without its element (or with two) shifts every later argument into another parameter", sorted(per_iter))
        elif len(loops) != 1:
            raise Undecided(f"{g.short}: loop over the positional arguments not recognised")
    r.require(n_fn >= 2, f"functions building a list of references from *args: {n_fn} recognised")
    return r


def ref_rebuildall(ctx: Ctx) -> RuleResult:
    """Wherever a node is rebuilt as `<its class>(**values)`, `values` carries EVERY field of the node: it comes from
    dataclasses.asdict(node), or it names all the fields. A field that is left out silently takes its class default in the rebuilt node
    (setup=False, debug=False, call_location='' ...): an embedded setup node runs on every call, a re-configured node loses the call
    location its failures are reported with."""
    r = RuleResult("REF-REBUILDALL")
    base = ctx.P.classes[ctx.cls_q("ExecNode")]
    fam = {c.qualname for c in ctx.P.subclasses(base.qualname)}
    fields = {k for k in ctx.P.all_fields(base) if not k.startswith("_")}
    nofield = {k for k, v in base.field_defaults.items() if isinstance(v, ast.Call) and dotted(v.func) == "field"
               and any(kw.arg == "init" and isinstance(kw.value, ast.Constant) and kw.value.value is False for kw in v.keywords)}
    fields -= nofield
    consts = {}
    for m in ctx.P.modules.values():
        for st in m.tree.body:
            tg = st.targets[0] if isinstance(st, ast.Assign) and len(st.targets) == 1 else (st.target if isinstance(st, ast.AnnAssign) else None)
            v = getattr(st, "value", None)
            if isinstance(tg, ast.Name) and isinstance(v, (ast.Tuple, ast.List)) and v.elts and all(const_str(e) is not None for e in v.elts):
                consts[tg.id] = {const_str(e) for e in v.elts}

    def keys_of(f: FuncInfo, name: str, at: ast.AST, depth: int = 0):
        """(complete: bool | None, keys) for the mapping bound to `name` at `at`."""
        ds = [d for d in ctx.reaching_defs(f, name, at) if isinstance(d, (ast.Assign, ast.AnnAssign)) and d.value is not None]
        if len(ds) != 1:
            return None, set()
        v = ds[0].value
        keys = set()
        if isinstance(v, ast.Call) and (dotted(v.func) or "").split(".")[-1] == "asdict":
            return True, set()
        if isinstance(v, ast.Call) and depth < 2:
            q = next((q for c, q in ctx.calls_in(f) if c is v), None)
            g = ctx.P.funcs.get(q) if q else None
            if g is not None:
                rets = [x for x in iter_own_nodes(g.node) if isinstance(x, ast.Return) and isinstance(x.value, ast.Name)]
                if len(rets) == 1:
                    return keys_of(g, rets[0].value.id, rets[0], depth + 1)
            return None, set()
        if isinstance(v, ast.Dict) and all(k is not None and const_str(k) is not None for k in v.keys):
            keys = {const_str(k) for k in v.keys}
        elif isinstance(v, ast.DictComp) and isinstance(v.generators[0].iter, ast.Name) and v.generators[0].iter.id in consts \
                and dotted(v.key) == dotted(v.generators[0].target) and not v.generators[0].ifs:
            keys = set(consts[v.generators[0].iter.id])
        elif isinstance(v, ast.Call) and dotted(v.func) == "dict" and not v.args and all(k.arg for k in v.keywords):
            keys = {k.arg for k in v.keywords}
        else:
            return None, set()
        for n in iter_own_nodes(f.node):
            if isinstance(n, ast.Assign) and isinstance(n.targets[0], ast.Subscript) and dotted(n.targets[0].value) == name \
                    and const_str(n.targets[0].slice) is not None:
                keys.add(const_str(n.targets[0].slice))
        return False, keys

    n_sites = 0
    for f in pkg_funcs(ctx):
        for c in iter_own_nodes(f.node):
            if not isinstance(c, ast.Call):
                continue
            star = [k.value for k in c.keywords if k.arg is None and isinstance(k.value, ast.Name)]
            if len(star) != 1 or c.args or any(k.arg is not None for k in c.keywords):
                continue
            is_type_of = isinstance(c.func, ast.Call) and dotted(c.func.func) == "type" and len(c.func.args) == 1
            if not (is_type_of or (ctx.T.resolve_callee(f, c) or "") in fam):
                continue
            if is_type_of:
                t_ = ctx.type_of(f, c.func.args[0])
                if not (t_ and t_[0] in ("inst", "cls") and t_[1] in fam):
                    continue
            complete, keys = keys_of(f, star[0].id, c)
            if complete is None:
                continue
            n_sites += 1
            missing = sorted(fields - keys) if complete is False else []
            r.ob(not missing, {"rebuild": norm_src(c)[:60], "in": f.short, "values": "asdict" if complete else sorted(keys)})
            if missing:
                r.violate(f"{f.short}: a node is rebuilt from values that leave out {missing}", f.loc(c),
                          "the rebuilt node takes the class default for each missing field: an embedded setup node is an ordinary node of the "
                          "outer DAG (it runs on every call), a debug node runs with the flag off, a re-configured node has no call location "
                          "and its failure is reported as the bare exception", norm_src(c)[:100])
    r.require(n_sites >= 2, f"only {n_sites} rebuild sites `<node class>(**values)` with a readable origin")
    return r


def ref_callid(ctx: Ctx) -> RuleResult:
    """Everything a call of a decorated function registers is keyed by the id of THAT call: the hidden nodes made for its positional,
    keyword and activation constants take the call's id (`<id><<n>>`), not the function's base id - otherwise two calls of one
    function collide (KeyError at description) or share a constant."""
    r = RuleResult("REF-CALLID")
    f = ctx.own_method("LazyExecNode", "__call__")
    r.require(f is not None, "LazyExecNode.__call__ not found")
    idst = [n for n in iter_own_nodes(f.node) if isinstance(n, ast.Assign) and isinstance(n.targets[0], ast.Subscript)
            and const_str(n.targets[0].slice) == "id_"]
    r.require(len(idst) == 1, "LazyExecNode.__call__: the id of the node built for this call not found")
    call_id = norm_src(idst[0].value)
    makers = [n for n in iter_own_nodes(f.node) if isinstance(n, ast.Call) and (dotted(n.func) or "") in ("make_args", "make_kwargs", "make_active") and n.args]
    r.require(len(makers) >= 3, f"LazyExecNode.__call__: only {len(makers)} of make_args / make_kwargs / make_active found")
    for c in makers:
        ok = norm_src(c.args[0]) == call_id
        r.ob(ok, {dotted(c.func): norm_src(c.args[0]), "id of this call": call_id})
        if not ok:
            r.violate(f"{f.short}: {dotted(c.func)} is given {norm_src(c.args[0])}, not the id of this call ({call_id})", f.loc(c),
                      "the hidden constant nodes of the call are registered under an id that does not contain the call's usage suffix: a "
                      "second call of the same function with a constant of that kind registers the same id again", norm_src(c)[:100])
    # a lazy node registers the hidden constants of a call WHEN IT IS CALLED: a constructor of such a node is never handed what a
    # maker registered for the same id (the call that follows would register `<id>>!>...` a second time: KeyError at description)
    n_ctor = 0
    for g in pkg_funcs(ctx):
        for c in iter_own_nodes(g.node):
            if not (isinstance(c, ast.Call) and (dotted(c.func) or "").split(".")[-1] == "LazyExecNode"):
                continue
            n_ctor += 1
            inner = [x for k in c.keywords for x in ast.walk(k.value)
                     if isinstance(x, ast.Call) and (dotted(x.func) or "") in ("make_args", "make_kwargs", "make_active")]
            r.ob(not inner, {"in": g.short, "lazy node constructed with maker results": [norm_src(x)[:60] for x in inner]})
            if inner:
                r.violate(f"{g.short}: a LazyExecNode is constructed with {norm_src(inner[0])[:60]}", g.loc(inner[0]),
                          "the maker registers the hidden constant node `<id>>!>..` now and the node's own call registers it again under the "
                          "same id: describing a DAG that reaches this site with a constant of that kind raises KeyError", norm_src(c)[:120])
    r.ob(n_ctor >= 1, {"LazyExecNode constructions seen": n_ctor})
    return r


def val_sentinel(ctx: Ctx) -> RuleResult:
    """Sentinels are compared by identity. `x != inspect.Parameter.empty` asks the user's default value (its __ne__): a wildcard
    matcher answers False ('has no default'), a numpy array raises."""
    r = RuleResult("VAL-SENTINEL")
    sentinels = ("inspect.Parameter.empty", "Parameter.empty", "inspect._empty", "inspect.Signature.empty", "Signature.empty")
    n_cmp = 0
    for f in pkg_funcs(ctx):
        for n in iter_own_nodes(f.node):
            if isinstance(n, ast.Compare) and len(n.ops) == 1:
                sides = [n.left, n.comparators[0]]
                hit = [x for x in sides if (dotted(x) or "") in sentinels]
                if not hit:
                    continue
                n_cmp += 1
                ok = isinstance(n.ops[0], (ast.Is, ast.IsNot))
                r.ob(ok, {"in": f.short, "comparison with a sentinel": norm_src(n)})
                if not ok:
                    r.violate(f"{f.short}: a sentinel is compared with {type(n.ops[0]).__name__} ({norm_src(n)})", f.loc(n),
                              "equality is answered by the other operand - a value supplied by the user (a default of a DAG parameter): "
                              "unittest.mock.ANY makes 'has a default' false, an array raises; identity is the test for a sentinel", norm_src(n))
    r.require(n_cmp >= 1, "no comparison with a sentinel found")
    return r


def ref_kwname(ctx: Ctx) -> RuleResult:
    """The name of a keyword argument is the user's parameter name from trace to call: wherever a node's `kwargs` mapping is
    rebuilt or turned into the call's keywords (iteration over `<node>.kwargs.items()`), the key is carried over unchanged."""
    r = RuleResult("REF-KWNAME")
    sites = 0
    for f in pkg_funcs(ctx):
        for n in iter_own_nodes(f.node):
            gens = []
            if isinstance(n, ast.DictComp):
                gens = [(g.target, g.iter, n.key, n) for g in n.generators[:1]]
            elif isinstance(n, ast.For):
                # for k, v in X.kwargs.items(): D[<key>] = ...
                for b in own_walk(n):
                    if isinstance(b, ast.Assign) and len(b.targets) == 1 and isinstance(b.targets[0], ast.Subscript):
                        gens.append((n.target, n.iter, b.targets[0].slice, b))
            for tgt, it, key, where in gens:
                if not (isinstance(it, ast.Call) and isinstance(it.func, ast.Attribute) and it.func.attr == "items" and not it.args
                        and isinstance(it.func.value, ast.Attribute) and it.func.value.attr == "kwargs"):
                    continue
                bt = ctx.type_of(f, it.func.value.value)
                if not (bt[0] == "cls" and bt[1] in ctx.P.classes and ctx.T.is_instance(bt, xn_q(ctx))):
                    continue
                if not (isinstance(tgt, ast.Tuple) and len(tgt.elts) == 2 and isinstance(tgt.elts[0], ast.Name)):
                    continue
                kname = tgt.elts[0].id
                if isinstance(where, ast.Assign):
                    # only stores whose value mentions the iteration variables belong to the rebuild
                    if not ({x.id for x in ast.walk(where.value) if isinstance(x, ast.Name)} & {e.id for e in tgt.elts if isinstance(e, ast.Name)}):
                        continue
                    # a store into something that is not keyed by names (results by id, ...) is not a keyword mapping
                    if kname not in {x.id for x in ast.walk(key) if isinstance(x, ast.Name)}:
                        continue
                sites += 1
                ok = isinstance(key, ast.Name) and key.id == kname
                r.ob(ok, {"in": f.short, "keyword mapping rebuilt from": norm_src(it.func.value), "key": norm_src(key)})
                if not ok:
                    r.violate(f"{f.short}: the name of a keyword argument is rewritten ({norm_src(key)})", f.loc(where),
                              "the key of a node's kwargs is the parameter name the user wrote; prefixing it (sub-DAG) or cutting it at a "
                              "dot (execute) changes the keyword the function is called with: report(**{'train.loss': a, 'val.loss': b}) "
                              "is entered with loss=b only", norm_src(key))
    r.require(sites >= 2, f"sites that rebuild a node's keyword mapping: {sites} found, at least 2 expected (the splice and the call)")
    return r


RULES = {
    "REF-KWNAME": ref_kwname,
    "REF-CALLID": ref_callid,
    "REF-ARGORDER": ref_argorder,
    "REF-SPLICEALL": ref_spliceall,
    "VAL-SENTINEL": val_sentinel, "REF-REBUILDALL": ref_rebuildall,
    "REF-SETUPOUT": ref_setupout,
    "REF-FUNTRANSIENT": ref_funtransient,
    "REF-UNWRAP": ref_unwrap,
    "REF-STUBEXEC": ref_stubexec,
    "REF-RESULTTRY": ref_resulttry,
    "REF-FUNCOPY": ref_funcopy,
    "REF-WRAPDICT": ref_wrapdict,
    "REF-SAMENODE": ref_samenode, "REF-NONEKEY": ref_nonekey, "REF-SEEDACT": ref_seedact,
    "REF-STABLEID": ref_stableid,
    "REF-DEREF": ref_deref, "REF-KEY": ref_key, "REF-FIELDS": ref_fields, "REF-ASDICT": ref_asdict, "REF-MAT": ref_mat,
    "REF-SHAPE": ref_shape, "REF-OPS": ref_ops, "REF-NI": ref_ni, "REF-ACTIVE-BUILD": ref_active_build,
    "REF-FLAGPRED": ref_flagpred, "REF-UNIQ": ref_uniq, "REF-PREFIX": ref_prefix, "REF-SEED": ref_seed, "REF-GETITEM": ref_getitem, "REF-RESERVED": ref_reserved, "REF-TRACE": ref_trace, "REF-REWIRE": ref_rewire, "VAL-GENREUSE": val_genreuse,
}
