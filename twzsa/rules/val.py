"""val rules."""
RULES = {}
