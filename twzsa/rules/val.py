"""VAL - validators: the stated refusal is reachable, unconditional under its test, and the test is not weaker than stated."""
from __future__ import annotations

import ast
from typing import Dict, List, Optional, Set, Tuple

from ..ctx import Ctx, dotted, names_in
from ..loader import FuncInfo, iter_own_nodes, own_walk
from ..report import RuleResult, Undecided, norm_src
from .ref import _if_chains, pkg_funcs


def _raising_ifs(f: FuncInfo) -> List[ast.If]:
    return [n for n in iter_own_nodes(f.node) if isinstance(n, ast.If) and any(isinstance(b, ast.Raise) for b in n.body)]


def val_maxc(ctx: Ctx) -> RuleResult:
    r = RuleResult("VAL-MAXC")
    f = ctx.method("BaseDAG", "__post_init__")
    ifs = _raising_ifs(f)
    ty = [i for i in ifs if norm_src(i.test) == "not isinstance(self.max_concurrency, int)"]
    r.ob(len(ty) == 1, {"type test": norm_src(ty[0].test) if ty else None})
    if not ty:
        r.violate("BaseDAG.__post_init__: max_concurrency is not required to be an int", f.loc(), "", None)
    rng = [i for i in ifs if "self.max_concurrency" in norm_src(i.test) and isinstance(i.test, ast.Compare)]
    r.require(len(rng) <= 1, "several range tests on max_concurrency")
    if not rng:
        r.ob(False)
        r.violate("BaseDAG.__post_init__: max_concurrency is not required to be >= 1", f.loc(),
                  "with a bound of 0 the scheduler's 'in-flight == max' guard holds with nothing in flight: it waits forever", None)
        return r
    t = rng[0].test
    s = norm_src(t)
    ok = s in ("self.max_concurrency < 1", "self.max_concurrency <= 0", "1 > self.max_concurrency", "0 >= self.max_concurrency")
    r.ob(ok, {"range test": s})
    if not ok:
        weaker = isinstance(t, ast.Compare) and len(t.ops) == 1 and isinstance(t.comparators[0], ast.Constant) and norm_src(t.left) == "self.max_concurrency" \
            and ((isinstance(t.ops[0], ast.Lt) and t.comparators[0].value < 1) or (isinstance(t.ops[0], ast.LtE) and t.comparators[0].value < 0)
                 or isinstance(t.ops[0], (ast.Eq,)))
        if weaker:
            r.violate(f"BaseDAG.__post_init__: range test '{s}' is weaker than 'max_concurrency >= 1'", f.loc(rng[0]),
                      "a bound of 0 (or below) is accepted", s)
        else:
            raise Undecided(f"BaseDAG.__post_init__: range test not recognised: {s}")
    # the type test precedes the comparison
    if ty and rng:
        r.ob(ty[0].lineno < rng[0].lineno, {"type test first": True})
    return r


def _validate_deps(ctx: Ctx) -> FuncInfo:
    f = ctx.own_method("LazyExecNode", "_validate_dependencies")
    if f is None:
        raise Undecided("LazyExecNode._validate_dependencies not found")
    return f


def val_debugdep(ctx: Ctx) -> RuleResult:
    r = RuleResult("VAL-DEBUGDEP")
    f = _validate_deps(ctx)
    loops = [n for n in iter_own_nodes(f.node) if isinstance(n, ast.For)]
    r.require(len(loops) == 1, "validation loop not found")
    lp = loops[0]
    ok_src = norm_src(lp.iter) == "self.dependencies"
    r.ob(ok_src, {"validates": norm_src(lp.iter)})
    if not ok_src:
        r.violate(f"{f.short}: validation iterates {norm_src(lp.iter)}, not every dependency", f.loc(lp),
                  "dependencies carried by the other reference fields are not validated", norm_src(lp.iter))
    dv = dotted(lp.target)
    early = [n for n in own_walk(lp) if isinstance(n, (ast.Return, ast.Break))]
    r.ob(not early, {"every dependency is validated (no early exit from the loop)": not early})
    if early:
        r.violate(f"{f.short}: the validation loop is left early ({norm_src(early[0])})", f.loc(early[0]),
                  "dependencies that come after the one that triggers the early exit are never validated: a DAG in which a non-debug "
                  "node depends on a debug node (or a setup node on a non-setup node) is accepted when that dependency is not the first",
                  norm_src(early[0]))
    ifs = [n for n in lp.body if isinstance(n, ast.If) and any(isinstance(b, ast.Raise) for b in n.body)]
    dbg = [i for i in ifs if ".debug" in norm_src(i.test)]
    r.ob(len(dbg) == 1, {"refusal": norm_src(dbg[0].test) if dbg else None})
    if not dbg:
        r.violate(f"{f.short}: a non-debug node depending on a debug node is not refused", f.loc(lp),
                  "production values could then depend on RUN_DEBUG_NODES", None)
        return r
    t = dbg[0].test
    # the dependency's node: the table entry `<nodes>[dep.id]`, or a local bound to it in the loop
    dep_nodes = {n.targets[0].id for n in own_walk(lp) if isinstance(n, ast.Assign) and isinstance(n.targets[0], ast.Name)
                 and norm_src(n.value).endswith(f"[{dv}.id]")}
    ok = isinstance(t, ast.BoolOp) and isinstance(t.op, ast.And) and len(t.values) == 2 and \
        norm_src(t.values[0]) == "not self.debug" and (norm_src(t.values[1]).endswith(f"[{dv}.id].debug")
                                                       or norm_src(t.values[1]) in {f"{n_}.debug" for n_ in dep_nodes})
    r.ob(ok, {"test": norm_src(t)})
    if not ok:
        raise Undecided(f"{f.short}: debug-dependency test not recognised: {norm_src(t)}")
    # the validation is only skipped outside a description
    first = f.node.body[0] if not isinstance(f.node.body[0], ast.Expr) else f.node.body[1]
    gate = isinstance(first, ast.If) and isinstance(first.body[0], ast.Return)
    r.ob(gate, {"skipped only when": norm_src(first.test) if gate else None})
    # the conditions under which the loop is reached say 'a description is in progress' and nothing else
    conds = reach_conditions(f.node, lp)
    if conds is not None:
        # only conditions on the build state / the configuration count: `if not self.dependencies: return` is an optimisation
        from .lck import BuildState

        try:
            bstate = set(ctx.memo("build_state", lambda: BuildState(ctx)).state)
        except Undecided:
            bstate = set()
        watched = bstate | {"cfg", "DAG_PREFIX"}
        extra = [(c_, pol_) for c_, pol_ in conds if "in_dag_description" not in norm_src(c_)
                 and ({x.id for x in ast.walk(c_) if isinstance(x, ast.Name)} | {x.attr for x in ast.walk(c_) if isinstance(x, ast.Attribute)}) & watched]
        r.ob(not extra, {"validation reached under": [("" if pol_ else "not ") + norm_src(c_) for c_, pol_ in conds]})
        if extra:
            c_, pol_ = extra[0]
            r.violate(f"{f.short}: the dependency validation is skipped on a condition other than 'no description in progress'", f.loc(lp),
                      "nodes built under that condition (e.g. the nodes spliced from a nested DAG, which take outer values - a debug node's "
                      "result, an outer activation - as arguments) are never validated: a production node depending on a debug node is "
                      "accepted and its value depends on RUN_DEBUG_NODES", ("" if pol_ else "not ") + norm_src(c_))
    # __post_init__ calls it
    pi = ctx.own_method("LazyExecNode", "__post_init__")
    okc = pi is not None and any(q == f.qualname for _, q in ctx.calls_in(pi))
    r.ob(okc, {"called from __post_init__": okc})
    if not okc:
        r.violate("LazyExecNode.__post_init__: dependency validation not invoked", pi.loc() if pi else f.loc(), "", None)
    return r


def _terminates(stmts) -> bool:
    return bool(stmts) and isinstance(stmts[-1], (ast.Continue, ast.Return, ast.Raise, ast.Break))


def reach_conditions(fn_node: ast.AST, target: ast.AST) -> Optional[List[Tuple[ast.AST, bool]]]:
    """Atomic (expression, polarity) conjuncts under which `target` is reached inside fn_node: tests of the enclosing ifs and
    the negated tests of earlier guards of the same blocks that always leave (continue / return / raise / break)."""
    from ..loader import _neg

    def split(t: ast.AST, v: bool) -> List[Tuple[ast.AST, bool]]:
        if isinstance(t, ast.UnaryOp) and isinstance(t.op, ast.Not):
            return split(t.operand, not v)
        if isinstance(t, ast.BoolOp) and ((isinstance(t.op, ast.And) and v) or (isinstance(t.op, ast.Or) and not v)):
            out: List[Tuple[ast.AST, bool]] = []
            for x in t.values:
                out += split(x, v)
            return out
        return [(t, v)]

    def go(stmts, acc) -> Optional[List[Tuple[ast.AST, bool]]]:
        cur = list(acc)
        for st in stmts:
            if st is target:
                return cur
            inside = any(x is target for x in ast.walk(st))
            if isinstance(st, ast.If):
                if inside:
                    if any(x is target for b in st.body for x in ast.walk(b)):
                        return go(st.body, cur + split(st.test, True))
                    return go(st.orelse, cur + split(st.test, False))
                if _terminates(st.body) and not st.orelse:
                    cur += split(st.test, False)
                elif st.orelse and _terminates(st.orelse) and not _terminates(st.body):
                    cur += split(st.test, True)
            elif inside:
                for fld in ("body", "orelse", "finalbody"):
                    v = getattr(st, fld, None)
                    if isinstance(v, list) and any(x is target for b in v for x in ast.walk(b)):
                        return go(v, cur)
                if isinstance(st, ast.Try):
                    for h in st.handlers:
                        if any(x is target for b in h.body for x in ast.walk(b)):
                            return go(h.body, cur)
                return None
        return None
    return go(fn_node.body, [])  # type: ignore[attr-defined]


def val_setupdep(ctx: Ctx) -> RuleResult:
    """A setup node that depends on a node which is neither a setup node nor a constant/argument holder is refused at build time:
    the refusal is reached exactly under  self.setup  and  not <dependency>.setup  and  not isinstance(<dependency>, ArgExecNode)."""
    r = RuleResult("VAL-SETUPDEP")
    f = _validate_deps(ctx)
    loops = [n for n in iter_own_nodes(f.node) if isinstance(n, ast.For)]
    r.require(len(loops) == 1, "validation loop not found")
    lp = loops[0]
    raises = [n for n in own_walk(lp) if isinstance(n, ast.Raise)]
    cand = []
    for rs in raises:
        conds = reach_conditions(f.node, rs)
        if conds is None:
            continue
        srcs = [(norm_src(t), v) for t, v in conds]
        if ("self.setup", True) in srcs:
            cand.append((rs, srcs))
    r.ob(len(cand) == 1, {"refusal reached under": [f"{'' if v else 'not '}{t}" for t, v in cand[0][1]] if cand else None})
    if not cand:
        r.violate(f"{f.short}: a setup node depending on a non-setup node is not refused", f.loc(lp),
                  "its value, computed once, would freeze a per-call value", None)
        return r
    r.require(len(cand) == 1, "several refusals under 'self.setup'")
    rs, srcs = cand[0]
    dv = dotted(lp.target) or "?"
    # local names standing for the dependency's node (dep_xn = exec_nodes[dep.id])
    depnames = {dv} | {n.targets[0].id for n in own_walk(lp) if isinstance(n, ast.Assign) and isinstance(n.targets[0], ast.Name)
                       and dv in {x.id for x in ast.walk(n.value) if isinstance(x, ast.Name)}}
    conds_ast = reach_conditions(f.node, rs) or []
    rest = [(norm_src(t), v) for t, v in conds_ast if (norm_src(t), v) != ("self.setup", True)
            and depnames & {x.id for x in ast.walk(t) if isinstance(x, ast.Name)}]
    dep_setup = [(t, v) for t, v in rest if t.endswith(".setup") and not t.startswith("self.") and v is False]
    arg_hold = [(t, v) for t, v in rest if t.startswith("isinstance(") and t.endswith(", ArgExecNode)") and v is False]
    # guards of the other refusal of the loop (debug dependencies) may precede this one
    other = [(t, v) for t, v in rest if (t, v) not in dep_setup and (t, v) not in arg_hold and ".debug" not in t]
    widened = [(t, v) for t, v in other if t.startswith("isinstance(") or t.endswith(".setup") or " in " in t]
    ok = len(dep_setup) == 1 and len(arg_hold) == 1 and not other
    if widened or (dep_setup and arg_hold and other):
        r.ob(False, {"extra conditions": other})
        r.violate(f"{f.short}: accepted dependencies of a setup node widened by {[('' if v else 'not ') + t for t, v in other]}", f.loc(rs),
                  "a setup node may depend only on setup nodes and on constants/arguments", [f"{'' if v else 'not '}{t}" for t, v in srcs])
    elif not ok:
        raise Undecided("setup-dependency refusal: conditions not recognised: " + "; ".join(f"{'' if v else 'not '}{t}" for t, v in srcs))
    return r


def val_setuparg(ctx: Ctx) -> RuleResult:
    r = RuleResult("VAL-SETUPARG")
    g = ctx.P.classes[ctx.cls_q("DiGraphEx")]
    f = g.methods.get("from_exec_nodes")
    r.require(f is not None, "from_exec_nodes not found")
    # the refusal: a raise reached under  <node>.setup  and  any(<dependency is an input> ...)  - the two conjuncts may be one test,
    # nested tests or a guard clause (`if not node.setup: continue`) followed by the second test
    refusals = []
    for rs in [n for n in iter_own_nodes(f.node) if isinstance(n, ast.Raise)]:
        conds = reach_conditions(f.node, rs) or []
        if any(pol and norm_src(c).endswith(".setup") for c, pol in conds):
            refusals.append((rs, conds))
    r.ob(len(refusals) == 1, {"refusal reached under": [("" if p_ else "not ") + norm_src(c)[:80] for c, p_ in refusals[0][1]] if refusals else None})
    if not refusals:
        r.violate("DiGraphEx.from_exec_nodes: a setup node reading a DAG argument is not refused", f.loc(),
                  "the first call's argument would be frozen into the setup result", None)
        return r
    rs0, conds0 = refusals[0]
    anys = [c for c, pol in conds0 if pol and isinstance(c, ast.Call) and dotted(c.func) == "any" and c.args
            and isinstance(c.args[0], (ast.GeneratorExp, ast.ListComp))]
    extra = [c for c, pol in conds0 if not (pol and norm_src(c).endswith(".setup")) and not any(c is a_ for a_ in anys)]
    r.require(len(anys) == 1 and not extra, "setup-argument test not recognised: " + " and ".join(("" if p_ else "not ") + norm_src(c) for c, p_ in conds0))
    ifs = [next(x for x in iter_own_nodes(f.node) if isinstance(x, ast.If) and any(y is anys[0] for y in ast.walk(x.test)))]
    gen = anys[0].args[0]
    src = norm_src(gen.generators[0].iter)
    ok_src = src.endswith(".dependencies")
    r.ob(ok_src, {"checks": src})
    if not ok_src:
        r.violate(f"DiGraphEx.from_exec_nodes: setup-argument check iterates {src}, not every dependency", f.loc(ifs[0]),
                  "a DAG argument passed by keyword or as activation flag to a setup node is not refused", src)
    # input ids come from the input nodes
    ids = [n for n in iter_own_nodes(f.node) if isinstance(n, ast.Assign) and "input" in (dotted(n.targets[0]) or "")]
    r.ob(len(ids) >= 1, {"input ids": norm_src(ids[0]) if ids else None})
    # every construction of a DAG graph hands over ALL inputs of the DAG (defaulted ones included)
    ip = f.node.args.args[1].arg
    n_calls = 0
    for f2, call in ctx.callers_of(f.qualname):
        a = next((k.value for k in call.keywords if k.arg == ip), call.args[0] if call.args else None)
        n_calls += 1
        ok_in = a is not None and norm_src(a) == "self.input_uxns"
        if not ok_in and isinstance(a, (ast.ListComp, ast.SetComp, ast.GeneratorExp)) and len(a.generators) == 1 and not a.generators[0].ifs \
                and norm_src(a.generators[0].iter) == "self.input_uxns":
            ok_in = True  # the ids (or the nodes) of ALL inputs, computed on the caller's side
        r.ob(ok_in, {"from_exec_nodes called from": f2.short, ip: norm_src(a) if a is not None else None})
        if not ok_in:
            r.violate(f"{f2.short}: the setup-argument check receives {norm_src(a) if a is not None else 'no inputs'}, not all inputs of the DAG",
                      f2.loc(call), "an input that is left out (e.g. one that has a default value) may feed a setup node without being "
                      "refused: the first call's value is frozen into the setup result", norm_src(call)[:120])
    r.require(n_calls >= 2, "constructions of the DAG graph not found")
    return r


def val_debugsetup(ctx: Ctx) -> RuleResult:
    r = RuleResult("VAL-DEBUGSETUP")
    f = ctx.own_method("ExecNode", "__post_init__")
    r.require(f is not None, "ExecNode.__post_init__ not found")
    ifs = [i for i in _raising_ifs(f) if norm_src(i.test) in ("self.debug and self.setup", "self.setup and self.debug")]
    r.ob(len(ifs) == 1, {"debug and setup mutually exclusive": len(ifs) == 1})
    if not ifs:
        r.violate("ExecNode.__post_init__: a node may be both debug and setup", f.loc(),
                  "the setup-only filter would then run a debug node with RUN_DEBUG_NODES off", None)
    return r


def val_executed(ctx: Ctx) -> RuleResult:
    r = RuleResult("VAL-EXECUTED")
    pre = ctx.method("BaseDAGExecution", "_pre_call")
    post = ctx.method("BaseDAGExecution", "_post_call")
    ifs = [i for i in _raising_ifs(pre) if norm_src(i.test) == "self.executed"]
    r.ob(len(ifs) == 1, {"second run refused": len(ifs) == 1})
    if not ifs:
        r.violate("BaseDAGExecution._pre_call: an executed executor is not refused", pre.loc(), "", None)
    else:
        # every way out of the function has passed the refusal: no return is reached without `not self.executed`
        for rt in [n for n in iter_own_nodes(pre.node) if isinstance(n, ast.Return)]:
            conds = reach_conditions(pre.node, rt)
            if conds is None:
                continue
            passed = any((not pol) and norm_src(c) == "self.executed" for c, pol in conds)
            r.ob(passed, {"return": norm_src(rt)[:60], "reached only after the refusal": passed})
            if not passed:
                r.violate("BaseDAGExecution._pre_call: a return is reached without the 'already executed' refusal", pre.loc(rt),
                          "on that path an executor that has run can run again: it starts from its own complete result map, the scheduler "
                          "prunes every node and the values of the first run come back for the new arguments", norm_src(rt)[:80])
    sets = [n for n in iter_own_nodes(post.node) if isinstance(n, ast.Assign) and norm_src(n.targets[0]) == "self.executed"
            and isinstance(n.value, ast.Constant) and n.value.value is True]
    r.ob(len(sets) == 1, {"flag set after the run": len(sets) == 1})
    if not sets:
        r.violate("BaseDAGExecution._post_call: the executed flag is never set", post.loc(), "the executor can be run twice", None)
    for name in ("DAGExecution", "AsyncDAGExecution"):
        c = ctx.own_method(name, "__call__")
        r.require(c is not None, f"{name}.__call__ not found")
        calls = [q for _, q in ctx.calls_in(c)]
        ok = pre.qualname in calls and post.qualname in calls
        r.ob(ok, {f"{name}.__call__ brackets the run": ok})
        if not ok:
            r.violate(f"{name}.__call__: does not go through _pre_call/_post_call", c.loc(), "", None)
    return r


def val_compose(ctx: Ctx) -> RuleResult:
    r = RuleResult("VAL-COMPOSE")
    f = ctx.method("BaseDAG", "compose")
    nested = {g.name: g for g in ctx.P.funcs.values() if g.parent is f}
    # every alias handed to compose designates ONE node: inside compose no alias goes through a resolver that hands back several ids
    # (a tag carried by two nodes must raise ValueError - it must not become two inputs)
    n_single = 0
    for g_ in [f] + list(nested.values()):
        for c_ in iter_own_nodes(g_.node):
            if isinstance(c_, ast.Call) and isinstance(c_.func, ast.Attribute) and dotted(c_.func.value) == "self":
                if c_.func.attr in ("get_multiple_nodes_aliases", "alias_to_ids", "get_nodes_by_tag"):
                    r.ob(False, {"in": g_.short, "alias resolved by": c_.func.attr})
                    r.violate(f"{g_.short}: an alias given to compose is resolved by {c_.func.attr} (every node the alias designates)", g_.loc(c_),
                              "an ambiguous alias (a tag carried by several nodes) given as an input or output of compose must raise ValueError; "
                              "expanded into several ids it silently becomes several inputs / outputs of the composed DAG", norm_src(c_)[:100])
                elif c_.func.attr == "_get_single_xn_by_alias":
                    n_single += 1
    r.ob(n_single >= 1, {"aliases resolved through the uniqueness check": n_single})
    # the three ValueErrors
    for nm, what in (("_raise_missing_input", "missing input"), ("_raise_input_successor_of_input", "input depends on input")):
        g = nested.get(nm)
        ok = g is not None and any(isinstance(n, ast.Raise) and "ValueError" in norm_src(n) for n in iter_own_nodes(g.node))
        r.ob(ok, {what: "raises ValueError" if ok else None})
        if not ok:
            raise Undecided(f"compose: helper raising for '{what}' not found")
    # missing input: raised when a needed predecessor is an un-defaulted DAG input that is not provided
    amd = nested.get("_add_missing_deps")
    r.require(amd is not None, "compose: dependency collector not found")
    calls = [n for n in iter_own_nodes(amd.node) if isinstance(n, ast.Call) and dotted(n.func) == "_raise_missing_input"]
    chains = _if_chains(amd.node)
    # the DAG inputs that have no default: the list built from self.input_uxns
    di = [n for n in iter_own_nodes(f.node) if isinstance(n, ast.Assign) and isinstance(n.targets[0], ast.Name)
          and "self.input_uxns" in norm_src(n.value) and "self.results" in norm_src(n.value)]
    di_name = di[0].targets[0].id if di else "<inputs without default>"
    ok = False
    for c in calls:
        st = next(s for s in iter_own_nodes(amd.node) if isinstance(s, ast.Expr) and s.value is c)
        ch = [norm_src(t) for t, v in chains.get(id(st), ())]
        ok = any("not in" in x for x in ch) and any(x.endswith(f" in {di_name}") for x in ch)
        r.ob(ok, {"missing input raised under": ch})
    if not calls:
        r.violate("BaseDAG.compose: a needed DAG input that is not provided is not refused", amd.loc(), "ValueError expected", None)
    okdi = len(di) == 1 and "not in self.results" in norm_src(di[0].value)
    r.ob(okdi, {"inputs without default": norm_src(di[0].value) if di else None})
    # what the walk collected stays collected: nothing is taken out of the set afterwards (an ancestor of a supplied input can
    # also feed an output through another path - a shared setup node, a constant)
    coll = set()
    for c in iter_own_nodes(f.node):
        if isinstance(c, ast.Call) and dotted(c.func) == amd.name and len(c.args) >= 2 and isinstance(c.args[1], ast.Name):
            coll.add(c.args[1].id)
    for g_ in (f, amd):
        for n in iter_own_nodes(g_.node):
            shr = None
            if isinstance(n, ast.AugAssign) and isinstance(n.op, (ast.Sub, ast.BitAnd)) and dotted(n.target) in coll:
                shr = n
            elif isinstance(n, ast.Call) and isinstance(n.func, ast.Attribute) and n.func.attr in ("difference_update", "intersection_update", "discard", "remove", "pop", "clear") \
                    and dotted(n.func.value) in coll:
                shr = n
            if shr is not None:
                r.ob(False, {"collected nodes removed again": norm_src(shr)})
                r.violate(f"BaseDAG.compose: nodes collected for the outputs are taken out again ({norm_src(shr)[:60]})", g_.loc(shr),
                          "a node upstream of a supplied input can be needed by an output through another path (a shared setup node feeding "
                          "both the input and the output): without it the composed DAG raises KeyError", norm_src(shr))
    # the walk goes on from EVERY node it collects (work list or recursion): the dependencies of a node whose value is already
    # known (a setup result) are nodes of the composed DAG too - its references name them
    adds = [n for n in iter_own_nodes(amd.node) if isinstance(n, ast.Expr) and isinstance(n.value, ast.Call) and isinstance(n.value.func, ast.Attribute)
            and n.value.func.attr == "add" and n.value.args]
    for ad in adds:
        item = norm_src(ad.value.args[0])
        conts = [n for n in iter_own_nodes(amd.node) if isinstance(n, ast.Expr) and isinstance(n.value, ast.Call) and n.value.args
                 and norm_src(n.value.args[0]) == item
                 and ((isinstance(n.value.func, ast.Attribute) and n.value.func.attr in ("append", "appendleft", "push", "extend") and n is not ad)
                      or dotted(n.value.func) == amd.name)]
        if not conts:
            continue
        ca = reach_conditions(amd.node, ad)
        for cn in conts:
            cc = reach_conditions(amd.node, cn)
            if ca is None or cc is None:
                continue
            sa = {(norm_src(t_), v_) for t_, v_ in ca}
            extra = [(norm_src(t_), v_) for t_, v_ in cc if (norm_src(t_), v_) not in sa]
            r.ob(not extra, {"walk continues from every collected node": not extra, "extra conditions": extra})
            if extra:
                r.violate(f"BaseDAG.compose: a collected node is not walked further when {('' if extra[0][1] else 'not ') + extra[0][0]}", amd.loc(cn),
                          "the node is copied into the composed DAG with references to dependencies that were never collected: calling "
                          "the composed DAG raises KeyError in the scheduler (e.g. a setup node with an argument, composed after setup ran)",
                          extra)
    # `inputs=...` stands for EVERY argument of the original DAG (defaulted ones included)
    ell = [n for n in iter_own_nodes(f.node) if isinstance(n, ast.Compare) and len(n.ops) == 1 and isinstance(n.ops[0], (ast.Is, ast.Eq))
           and isinstance(n.comparators[0], ast.Constant) and n.comparators[0].value is Ellipsis]
    if ell:
        from .ref import _innermost_stmt

        holder = None
        for n in iter_own_nodes(f.node):
            if isinstance(n, ast.IfExp) and n.test is ell[0]:
                holder = n.body
            elif isinstance(n, ast.If) and n.test is ell[0] and n.body and isinstance(n.body[0], ast.Assign):
                holder = n.body[0].value
        if holder is not None:
            v = holder
            if isinstance(v, ast.Name):
                dfn = [x for x in iter_own_nodes(f.node) if isinstance(x, ast.Assign) and dotted(x.targets[0]) == v.id]
                v = dfn[0].value if len(dfn) == 1 else v
            full = isinstance(v, (ast.ListComp, ast.GeneratorExp)) and "self.input_uxns" in norm_src(v.generators[0].iter) \
                and not v.generators[0].ifs
            filtered_ = isinstance(v, (ast.ListComp, ast.GeneratorExp)) and "self.input_uxns" in norm_src(v.generators[0].iter) \
                and bool(v.generators[0].ifs)
            r.ob(full, {"'...' stands for": norm_src(v)[:80]})
            if filtered_:
                r.violate("BaseDAG.compose: '...' stands for a filtered subset of the DAG's arguments", f.loc(holder),
                          "compose(name, ..., outputs) must expose every argument of the original DAG; with the defaulted ones left "
                          "out the composed DAG refuses the values the original accepts (TypeError: takes a maximum of N arguments)",
                          norm_src(v)[:100])
            elif not full:
                raise Undecided("compose: what '...' stands for is not recognised: " + norm_src(v)[:80])
    # ambiguous alias
    gs = ctx.method("BaseDAG", "_get_single_xn_by_alias")
    def _many(t: ast.AST) -> bool:
        return isinstance(t, ast.Compare) and len(t.ops) == 1 and isinstance(t.left, ast.Call) and dotted(t.left.func) == "len" \
            and isinstance(t.comparators[0], ast.Constant) and (
                (isinstance(t.ops[0], (ast.Gt, ast.NotEq)) and t.comparators[0].value == 1)
                or (isinstance(t.ops[0], ast.GtE) and t.comparators[0].value == 2))
    ifs = [i for i in _raising_ifs(gs) if _many(i.test)]
    r.ob(len(ifs) == 1, {"ambiguous alias refused": len(ifs) == 1})
    if not ifs:
        r.violate("BaseDAG._get_single_xn_by_alias: an alias naming several nodes is not refused", gs.loc(), "ValueError expected", None)
    return r


def val_compose_anc(ctx: Ctx) -> RuleResult:
    r = RuleResult("VAL-COMPOSE-ANC")
    f = ctx.method("BaseDAG", "compose")
    # the loop that raises 'input depends on input'
    calls = [n for n in iter_own_nodes(f.node) if isinstance(n, ast.Call) and dotted(n.func) == "_raise_input_successor_of_input"]
    r.require(len(calls) == 1, "compose: input-depends-on-input refusal not found")
    chains = _if_chains(f.node)
    st = next(s for s in iter_own_nodes(f.node) if isinstance(s, ast.Expr) and s.value is calls[0])
    ch = chains.get(id(st), ())
    r.require(len(ch) >= 1 and isinstance(ch[-1][0], ast.Compare) and isinstance(ch[-1][0].ops[0], ast.In),
              "compose: refusal test not recognised")
    setname = dotted(ch[-1][0].comparators[0])
    asg = [n for n in iter_own_nodes(f.node) if isinstance(n, (ast.Assign, ast.AnnAssign))
           and dotted(n.targets[0] if isinstance(n, ast.Assign) else n.target) == setname]
    r.require(len(asg) == 1, f"definition of {setname} not found")
    # the set the inputs are compared with is complete BEFORE the first comparison: not grown by the loop that tests it
    test_loop = next((lp for lp in iter_own_nodes(f.node) if isinstance(lp, (ast.For, ast.While)) and any(st is x for x in own_walk(lp))), None)
    if test_loop is not None:
        grown = [x for x in own_walk(test_loop)
                 if (isinstance(x, ast.AugAssign) and dotted(x.target) == setname)
                 or (isinstance(x, ast.Call) and isinstance(x.func, ast.Attribute) and x.func.attr in ("update", "add") and dotted(x.func.value) == setname)
                 or (isinstance(x, ast.Assign) and dotted(x.targets[0]) == setname)]
        r.ob(not grown, {"closure complete before the loop that tests it": not grown})
        if grown:
            r.violate("BaseDAG.compose: 'input depends on input' is tested against a set that the same loop is still filling", f.loc(grown[0]),
                      "the answer depends on the order in which the inputs are listed: [a, b] with a -> b is refused, [b, a] is accepted and "
                      "the supplied upstream value is silently ignored", norm_src(grown[0]))
            return r
    v = asg[0].value
    src = norm_src(v)
    closure = any(isinstance(n, ast.Call) and (dotted(n.func) or "").split(".")[-1] in ("ancestors_of_iter", "ancestors") for n in ast.walk(v))
    direct = any(isinstance(n, ast.Call) and (dotted(n.func) or "").split(".")[-1] in ("predecessors", "in_edges", "pred") for n in ast.walk(v)) \
        or any(isinstance(n, ast.Attribute) and n.attr in ("pred", "_pred") for n in ast.walk(v))
    r.ob(closure and not direct, {"inputs compared against": src})
    if direct and not closure:
        r.violate("BaseDAG.compose: 'input depends on input' is tested against direct predecessors only", f.loc(asg[0]),
                  "a transitive dependency between two inputs (a -> b -> c with inputs [a, c]) is accepted: the composed DAG "
                  "returns inconsistent outputs", src)
    elif not closure:
        raise Undecided("compose: ancestor set definition not recognised: " + src)
    return r


def val_emptyfold(ctx: Ctx) -> RuleResult:
    """Folds over a possibly empty collection have an identity: `set.union(*xs)` / `reduce(f, xs)` raise TypeError on an empty xs -
    `exclude_nodes=[]` (exclude nothing) or `root_nodes=[]` then fails instead of selecting what the documentation says."""
    r = RuleResult("VAL-EMPTYFOLD")
    n_ok = 0
    for f in pkg_funcs(ctx):
        for n in iter_own_nodes(f.node):
            if not isinstance(n, ast.Call):
                continue
            d = dotted(n.func) or ""
            bad = None
            if d in ("set.union", "set.intersection", "frozenset.union", "frozenset.intersection") and len(n.args) == 1 and isinstance(n.args[0], ast.Starred):
                bad = f"{d}(*...) without a first operand"
            elif d.split(".")[-1] == "reduce" and len(n.args) == 2 and not n.keywords:
                bad = "reduce(f, xs) without an initial value"
            elif d.split(".")[-1] == "reduce" and len(n.args) == 3:
                n_ok += 1
            if bad:
                r.ob(False, {"in": f.short, "fold": norm_src(n)[:100]})
                r.violate(f"{f.short}: {bad}", f.loc(n),
                          "with an empty collection the call raises TypeError: an empty selection list (exclude_nodes=[] excludes nothing, "
                          "root_nodes=[] selects nothing) makes the executor or setup() fail", norm_src(n)[:120])
    r.ob(True, {"folds with an identity seen": n_ok})
    return r


def val_confkeys(ctx: Ctx) -> RuleResult:
    """The top-level keys of a configuration are independent: `max_concurrency` is applied whether or not `nodes` is present."""
    r = RuleResult("VAL-CONFKEYS")
    f = ctx.method("BaseDAG", "config_from_dict")
    conf = f.node.args.args[1].arg if len(f.node.args.args) > 1 else None
    r.require(conf is not None, "config_from_dict: configuration parameter not found")

    def key_test(t: ast.AST):
        if isinstance(t, ast.Compare) and len(t.ops) == 1 and isinstance(t.ops[0], (ast.In, ast.NotIn)) and isinstance(t.left, ast.Constant) \
                and isinstance(t.left.value, str) and dotted(t.comparators[0]) == conf:
            return t.left.value
        return None

    tests = [n for n in iter_own_nodes(f.node) if isinstance(n, ast.If) and key_test(n.test) is not None]
    r.require(len(tests) >= 2, f"config_from_dict: presence tests of top-level keys: {len(tests)} found (nodes, max_concurrency)")
    for n in tests:
        k = key_test(n.test)
        conds = reach_conditions(f.node, n) or []
        others = sorted({key_test(c) for c, pol in conds if key_test(c) not in (None, k)})
        r.ob(not others, {"key": k, "applied only when these other keys are present too": others})
        if others:
            r.violate(f"BaseDAG.config_from_dict: '{k}' is applied only when {others} is configured as well", f.loc(n),
                      f"a configuration that holds '{k}' alone (dict, JSON or YAML) is silently ignored: the DAG keeps its old value", norm_src(n.test))
    return r


def val_conf(ctx: Ctx) -> RuleResult:
    """Re-configuration replaces exactly the configured attributes; everything else (and every absent key) keeps the node's own value."""
    r = RuleResult("VAL-CONF")
    f = ctx.method("ExecNode", "_conf_to_values")
    p = f.node.args.args[1].arg
    seen = set()
    for n in iter_own_nodes(f.node):
        if not (isinstance(n, ast.Assign) and isinstance(n.targets[0], ast.Subscript) and isinstance(n.targets[0].slice, ast.Constant)):
            continue
        key = n.targets[0].slice.value
        v = n.value
        s_ = norm_src(v)
        if p not in names_in(v):
            # restoration of a field from the node itself (REF-ASDICT) - must be the node's own attribute of the same name
            ok = s_ == f"self.{key}"
            r.ob(ok, {key: s_})
            if not ok:
                r.violate(f"ExecNode._conf_to_values: '{key}' rebuilt from {s_}, not from the node's own value", f.loc(n), "", s_)
            continue
        seen.add(key)
        good = s_ in (f"{p}.get('{key}', self.{key})", f"{p}['{key}'] if '{key}' in {p} else self.{key}")
        or_default = isinstance(v, ast.BoolOp) and isinstance(v.op, ast.Or)
        r.ob(good, {key: s_})
        if good:
            continue
        if or_default:
            r.violate(f"ExecNode._conf_to_values: configured '{key}' falls back to the old value when it is falsy", f.loc(n),
                      f"re-configuring {key} to 0 / False is silently ignored: the node (and, for priorities, all its ancestors) keeps "
                      f"stale scheduling attributes", s_)
        else:
            gets = [c for c in ast.walk(v) if isinstance(c, ast.Call) and isinstance(c.func, ast.Attribute) and c.func.attr in ("get", "pop")
                    and dotted(c.func.value) == p and len(c.args) == 2]
            bad = [c for c in gets if norm_src(c.args[1]) != f"self.{key}"]
            if bad:
                r.violate(f"ExecNode._conf_to_values: an absent '{key}' falls back to {norm_src(bad[0].args[1])}, not to the node's own value",
                          f.loc(n), f"re-configuring any other attribute of a node silently resets its {key} (a main-thread node becomes a "
                          f"pool node, a sequential node a parallel one, ...)", s_)
            elif gets:
                r.ob(True, {key: s_ + "  (wrapped)"})
            else:
                raise Undecided(f"_conf_to_values: form of '{key}' not recognised: {s_}")
    # reading the configuration must not consume it: one mapping is applied to every node an alias resolves to
    for n in iter_own_nodes(f.node):
        bad = None
        if isinstance(n, ast.Call) and isinstance(n.func, ast.Attribute) and dotted(n.func.value) == p and \
                n.func.attr in ("pop", "popitem", "clear", "update", "setdefault", "__delitem__", "__setitem__"):
            bad = n
        if isinstance(n, (ast.Assign, ast.Delete)):
            tg = n.targets
            if any(isinstance(t, ast.Subscript) and dotted(t.value) == p for t in tg):
                bad = n
        if bad is not None:
            r.ob(False)
            r.violate(f"ExecNode._conf_to_values: the configuration mapping is modified while it is read ({norm_src(bad)[:50]})", f.loc(bad),
                      "the same mapping object is handed to every node an alias (a shared tag) resolves to, and may be applied again "
                      "later: consuming its keys configures the first node only", norm_src(bad))
    for key in ("priority", "is_sequential"):
        r.ob(key in seen, {"configurable": key})
        if key not in seen:
            r.violate(f"ExecNode._conf_to_values: a configured '{key}' is not applied", f.loc(),
                      f"config_from_dict/yaml/json document '{key}' as configurable per node; the value given in the configuration is "
                      f"silently ignored and the node keeps its old {key}", None)
    return r


def val_argcount(ctx: Ctx) -> RuleResult:
    """Call arguments bind positionally to the DAG's inputs; too many are refused."""
    r = RuleResult("VAL-ARGCOUNT")
    fs = [f for f in pkg_funcs(ctx) if f.name == "extend_results_with_args"]
    r.require(len(fs) == 1, "extend_results_with_args not found")
    f = fs[0]
    ip = f.node.args.args[1].arg
    ap = f.node.args.vararg.arg
    ifs = [i for i in _raising_ifs(f) if norm_src(i.test) in (f"len({ap}) > len({ip})", f"len({ip}) < len({ap})")]
    r.ob(len(ifs) == 1, {"too many arguments refused": len(ifs) == 1})
    if not ifs:
        weak = [i for i in _raising_ifs(f) if ap in names_in(i.test) and ip in names_in(i.test)]
        if weak:
            r.violate("extend_results_with_args: the arity test changed", f.loc(weak[0]), "", norm_src(weak[0].test))
        else:
            r.violate("extend_results_with_args: surplus arguments are not refused", f.loc(), "TypeError expected", None)
    loops = [n for n in iter_own_nodes(f.node) if isinstance(n, ast.For) and isinstance(n.iter, ast.Call) and dotted(n.iter.func) == "enumerate"
             and dotted(n.iter.args[0]) == ap]
    r.require(len(loops) == 1, "argument binding loop not found")
    iv, av = [dotted(x) for x in loops[0].target.elts]
    idv = [n for n in loops[0].body if isinstance(n, ast.Assign) and norm_src(n.value) == f"{ip}[{iv}].id"]
    fs_ = [n for n in ast.walk(loops[0]) if isinstance(n, ast.Call) and isinstance(n.func, ast.Attribute) and n.func.attr == "force_set"]
    ok = len(idv) == 1 and len(fs_) == 1 and dotted(fs_[0].args[0]) == dotted(idv[0].targets[0]) and dotted(fs_[0].args[1]) == av
    r.ob(ok, {"i-th argument -> i-th input": ok})
    if not ok:
        r.violate("extend_results_with_args: the i-th argument is not bound to the i-th input", f.loc(loops[0]), "", norm_src(loops[0].body[0]))
    return r


def val_expand(ctx: Ctx) -> RuleResult:
    """A configuration entry keyed by an alias is applied to EVERY node the alias resolves to; duplicates are refused."""
    r = RuleResult("VAL-EXPAND")
    f = ctx.method("BaseDAG", "_expand_config")
    zips = [n for n in iter_own_nodes(f.node) if isinstance(n, ast.Call) and dotted(n.func) == "zip"]
    comps = [n for n in iter_own_nodes(f.node) if isinstance(n, (ast.ListComp, ast.GeneratorExp))]
    r.require(bool(zips) or bool(comps), "_expand_config: pairing of ids and configuration not found")
    for z in zips:
        fixed = [a for a in z.args if isinstance(a, (ast.List, ast.Tuple))]
        ok = not fixed
        r.ob(ok, {"pairing": norm_src(z)})
        if fixed:
            r.violate("BaseDAG._expand_config: ids are zipped with a fixed-length display", f.loc(z),
                      "zip stops at the shorter sequence: a configuration keyed by a tag shared by several nodes is applied to the first "
                      "node only; the others silently keep their old priority / is_sequential", norm_src(z))
    # alias resolution and duplicate detection
    res = any(isinstance(n, ast.Call) and isinstance(n.func, ast.Attribute) and n.func.attr == "alias_to_ids" for n in iter_own_nodes(f.node))
    r.ob(res, {"aliases resolved by alias_to_ids": res})
    cf = ctx.method("BaseDAG", "config_from_dict")
    dup = any(isinstance(n, ast.Call) and dotted(n.func) == "detect_duplicates" for n in iter_own_nodes(cf.node))
    r.ob(dup, {"duplicate configuration refused": dup})
    loop = [n for n in iter_own_nodes(cf.node) if isinstance(n, ast.For)]
    okl = any("expanded_config" in norm_src(l.iter) for l in loop)
    r.ob(okl, {"every expanded entry is applied": okl})
    return r


def val_synthseq(ctx: Ctx) -> RuleResult:
    """Nodes the library creates on its own (argument, return and sub-DAG stub nodes) say is_sequential explicitly.

    The field's default is the environment setting TAWAZI_IS_SEQUENTIAL: a synthesised node that omits the keyword becomes a
    sequential barrier in an environment whose default is True, whatever the user declared on the nodes they wrote."""
    r = RuleResult("VAL-SYNTHSEQ")
    base = ctx.P.classes[ctx.cls_q("ExecNode")]
    fam = {c.qualname for c in ctx.P.subclasses(base.qualname)}
    d = base.fields.get("is_sequential")
    r.require(d is not None, "ExecNode.is_sequential not found")
    n = 0
    for f in ctx.funcs():
        if f.module.name.endswith("_twzsa_control"):
            continue
        for call, q in ctx.calls_in(f):
            target = None
            if q in fam:
                init = ctx.P.find_method(ctx.P.classes[q], "__init__")
                if init is not None:
                    continue  # the class's own constructor decides (checked where it calls super().__init__)
                target = q
            elif isinstance(call.func, ast.Attribute) and call.func.attr == "__init__" and isinstance(call.func.value, ast.Call) \
                    and dotted(call.func.value.func) == "super" and f.cls is not None and f.cls.qualname in fam and f.name == "__init__":
                target = f.cls.qualname
                # the constructor reached by super() is another hand-written one of the family (an intermediate base class): it is the
                # one that decides, and it is examined where IT calls super().__init__
                nxt = next((c_ for c_ in ctx.P.mro(f.cls)[1:] if "__init__" in c_.methods), None)
                if nxt is not None and nxt.qualname in fam:
                    continue
            if target is None or any(k.arg is None for k in call.keywords):
                continue
            n += 1
            kw = next((k for k in call.keywords if k.arg == "is_sequential"), None)
            r.ob(kw is not None, {"creates": target.split(".")[-1], "in": f.short, "is_sequential": norm_src(kw.value) if kw else None})
            if kw is None:
                r.violate(f"{f.short}: a {target.split('.')[-1]} is created without is_sequential", f.loc(call),
                          "the node takes the environment default (TAWAZI_IS_SEQUENTIAL): with the default True the hidden node is a "
                          "barrier - independent nodes the user declared non-sequential no longer run concurrently", norm_src(call)[:120])
                continue
            # the other direction: a node that runs a function handed in by the caller (the decorator, the operator nodes) is a node
            # of the user's computation - a constant here overrides the environment default the user configured
            fn_kw = next((k for k in call.keywords if k.arg == "exec_function"), None)
            params = set()
            for g in ctx.P.enclosing_chain(f):
                a_ = g.node.args
                params |= {x.arg for x in a_.posonlyargs + a_.args + a_.kwonlyargs}
            if fn_kw is not None and isinstance(fn_kw.value, ast.Name) and fn_kw.value.id in params:
                const = isinstance(kw.value, ast.Constant)
                r.ob(not const, {"runs a caller-supplied function": f.short, "is_sequential": norm_src(kw.value)})
                if const:
                    r.violate(f"{f.short}: a node that runs a caller-supplied function is created with the constant is_sequential={norm_src(kw.value)}",
                              f.loc(call), "with TAWAZI_IS_SEQUENTIAL=true every node is sequential unless declared otherwise; this node (an "
                              "operator on results, or a decorated function) ignores the configured default and overlaps other nodes",
                              norm_src(call)[:120])
    r.require(n >= 3, f"only {n} constructions of library nodes found")
    return r


def val_compose_overlap(ctx: Ctx) -> RuleResult:
    """compose: the returned references name nodes the composed DAG holds.

    The inputs are left out of the node table under their old id and registered under a new one; the outputs are referenced by
    their old id. A node that is both an input and an output is therefore referenced under an id the composed DAG does not have
    (its value reads as None) unless the overlap is refused, or the returned references are re-mapped."""
    r = RuleResult("VAL-COMPOSE-OVERLAP")
    f = ctx.method("BaseDAG", "compose")
    ctor = [n for n in iter_own_nodes(f.node) if isinstance(n, ast.Call) and {"exec_nodes", "return_uxns"} <= {k.arg for k in n.keywords}]
    r.require(len(ctor) >= 1, "compose: construction of the composed DAG not found")
    tables = {dotted(next(k.value for k in c.keywords if k.arg == "exec_nodes")) for c in ctor}
    rets = {dotted(next(k.value for k in c.keywords if k.arg == "return_uxns")) for c in ctor}
    r.require(len(tables) == 1 and len(rets) == 1 and None not in tables | rets, "compose: node table / returned references are not single names")
    table, ret = tables.pop(), rets.pop()
    # ids left out of the table
    tdef = [n for n in iter_own_nodes(f.node) if isinstance(n, ast.Assign) and dotted(n.targets[0]) == table]
    r.require(len(tdef) == 1, f"compose: definition of {table} not found")
    left_out = None
    for c in ast.walk(tdef[0].value):
        if isinstance(c, (ast.GeneratorExp, ast.ListComp, ast.DictComp)):
            for g in c.generators:
                for t in g.ifs:
                    if isinstance(t, ast.Compare) and isinstance(t.ops[0], ast.NotIn) and dotted(t.comparators[0]):
                        left_out = dotted(t.comparators[0])
    if left_out is None:
        raise Undecided(f"compose: {table} is not built by leaving the inputs out")
    # the returned references: built from the aliases the user gave (old ids)?
    rdef = [n for n in iter_own_nodes(f.node) if isinstance(n, ast.Assign) and dotted(n.targets[0]) == ret]
    r.require(len(rdef) == 1, f"compose: definition of {ret} not found")
    rv = rdef[0].value
    out_param = f.node.args.args[3].arg if len(f.node.args.args) > 3 else "outputs"
    plain = isinstance(rv, ast.Call) and len(rv.args) == 1 and dotted(rv.args[0]) == out_param
    if not plain:
        raise Undecided(f"compose: {ret} is not built directly from '{out_param}' (possibly re-mapped): {norm_src(rv)[:80]}")
    # the output ids
    outs = [dotted(n.targets[0]) for n in iter_own_nodes(f.node) if isinstance(n, ast.Assign) and isinstance(n.value, ast.Call)
            and len(n.value.args) == 1 and dotted(n.value.args[0]) == out_param and n is not rdef[0]]
    r.require(len(outs) == 1 and outs[0], "compose: output ids not found")
    out_ids = outs[0]
    # a refusal that relates the two
    loopvars: Dict[str, Set[str]] = {}
    for n in iter_own_nodes(f.node):
        if isinstance(n, (ast.For, ast.comprehension)):
            for nm in names_in(n.target):
                loopvars.setdefault(nm, set()).update(names_in(n.iter))
    guard = None
    for i in _raising_ifs(f) + [n for n in iter_own_nodes(f.node) if isinstance(n, ast.If) and any(
            isinstance(b, ast.Expr) and isinstance(b.value, ast.Call) and (dotted(b.value.func) or "").startswith("_raise") for b in n.body)]:
        nm = set(names_in(i.test))
        for x in list(nm):
            nm |= loopvars.get(x, set())
        if {left_out, out_ids} <= nm:
            guard = i
    r.ob(guard is not None, {"inputs left out of": table, "by": left_out, "returned references from": norm_src(rv),
                             "overlap refused by": norm_src(guard.test) if guard is not None else None})
    if guard is None:
        r.violate(f"BaseDAG.compose: a node given as input and as output is returned under an id the composed DAG does not hold",
                  f.loc(rdef[0]),
                  f"'{left_out}' are left out of '{table}' and re-registered under new ids, '{ret}' keeps the old ids and no test "
                  f"relates '{left_out}' and '{out_ids}': the overlapping output silently reads as None", norm_src(rdef[0]))
    return r


SCHED_ATTRS = ("priority", "is_sequential", "resource", "debug", "setup", "active", "args", "kwargs", "unpack_to", "tag")


def val_postinit(ctx: Ctx) -> RuleResult:
    """ExecNode.__post_init__ validates what the user declared; it never rewrites a scheduling attribute."""
    r = RuleResult("VAL-POSTINIT")
    f = ctx.method("ExecNode", "__post_init__")
    writes = []
    for n in iter_own_nodes(f.node):
        if isinstance(n, ast.Call) and dotted(n.func) in ("object.__setattr__", "setattr") and len(n.args) == 3 and dotted(n.args[0]) == "self":
            k = n.args[1].value if isinstance(n.args[1], ast.Constant) else None
            if k is None:
                raise Undecided(f"{f.short}: attribute written under a computed name: {norm_src(n)[:80]}")
            writes.append((k, n))
        elif isinstance(n, (ast.Assign, ast.AugAssign)):
            for t in (n.targets if isinstance(n, ast.Assign) else [n.target]):
                if isinstance(t, ast.Attribute) and dotted(t.value) == "self":
                    writes.append((t.attr, n))
    r.require(len(writes) >= 1, "no attribute normalisation found in __post_init__ (expected at least the id)")
    for k, n in writes:
        ok = k not in SCHED_ATTRS
        r.ob(ok, {"__post_init__ writes": k})
        if not ok:
            r.violate(f"{f.short}: rewrites the declared '{k}'", f.loc(n),
                      f"the scheduler (and re-configuration, and the nested-DAG splice, which all rebuild nodes through this constructor) "
                      f"then sees another '{k}' than the one declared: e.g. a sequential main-thread node no longer drains the pool "
                      f"before it runs", norm_src(n)[:120])
    return r


def val_confatomic(ctx: Ctx) -> RuleResult:
    """config_from_dict refuses an ambiguous configuration (two entries for one node) BEFORE it applies any entry."""
    r = RuleResult("VAL-CONFATOMIC")
    f = ctx.method("BaseDAG", "config_from_dict")
    loops = [lp for lp in iter_own_nodes(f.node) if isinstance(lp, ast.For)
             and any(isinstance(x, ast.Call) and isinstance(x.func, ast.Attribute) and x.func.attr in ("force_set", "__setitem__") for x in own_walk(lp))]
    r.require(len(loops) == 1, "config_from_dict: the loop applying the entries not found")
    lp = loops[0]
    inner = [x for x in own_walk(lp) if isinstance(x, ast.Raise)]
    dup_before = []
    def _may_refuse(call: ast.AST) -> bool:
        q = next((q for c, q in ctx.calls_in(f) if c is call), None)
        g = ctx.P.funcs.get(q) if q else None
        # a plain function (its body runs to the end before the caller goes on - not a generator) that can raise
        return g is not None and any(isinstance(x, ast.Raise) for x in iter_own_nodes(g.node)) \
            and not any(isinstance(x, (ast.Yield, ast.YieldFrom)) for x in iter_own_nodes(g.node))

    for st in iter_own_nodes(f.node):
        if isinstance(st, (ast.Expr, ast.Assign)) and isinstance(st.value, ast.Call) and st.lineno < lp.lineno and _may_refuse(st.value):
            dup_before.append(st)
    # the refusal written in the function itself, before the applying loop (`dups = find(..); if dups: raise ValueError(..)`)
    for rs_ in [x for x in iter_own_nodes(f.node) if isinstance(x, ast.Raise) and not any(x is y for y in own_walk(lp))
                and getattr(x, "lineno", 0) < getattr(lp, "lineno", 0)]:
        conds_ = reach_conditions(f.node, rs_) or []
        if any(isinstance(c_, (ast.Name, ast.Call, ast.Compare)) for c_, _ in conds_) and "ValueError" in norm_src(rs_):
            dup_before.append(rs_)
    # the iterable of the applying loop is evaluated before its first iteration
    if isinstance(lp.iter, ast.Call) and _may_refuse(lp.iter):
        dup_before.append(lp.iter)
    r.ob(bool(dup_before) and not inner, {"validated before the first entry is applied": [norm_src(x)[:60] for x in dup_before],
                                          "refusals inside the applying loop": len(inner)})
    if inner:
        r.violate("BaseDAG.config_from_dict: a configuration is refused after earlier entries have been applied", f.loc(inner[0]),
                  "a caller that catches the ValueError keeps a DAG in which part of the refused configuration is active (is_sequential "
                  "at once, priorities at the next rebuild): later calls no longer behave like those of a freshly built DAG",
                  norm_src(inner[0])[:100])
    elif not dup_before:
        r.violate("BaseDAG.config_from_dict: two entries for one node are not refused", f.loc(lp),
                  "ambiguous configuration must raise ValueError (which of the two wins would depend on dict order)", None)
    return r


def val_stored(ctx: Ctx) -> RuleResult:
    """Whether a node has a stored value (a default, a constant, a setup result, a cached result) is decided by the membership of its id in
    the results map - never by comparing the dereferenced value with None: None is a value (a default of None, a node that returned None)."""
    r = RuleResult("VAL-STORED")
    n_member = 0

    def is_results(e: ast.AST) -> bool:
        d = dotted(e) or ""
        return d.split(".")[-1] in ("results", "cached_results")

    def deref(e: ast.AST, f, at: ast.AST, depth: int = 0) -> Optional[str]:
        """A description when e reads a value out of a results map."""
        if isinstance(e, ast.Call) and isinstance(e.func, ast.Attribute):
            if e.func.attr == "result" and e.args and is_results(e.args[0]):
                return norm_src(e)
            if e.func.attr == "get" and is_results(e.func.value) and len(e.args) == 1:
                return norm_src(e)
        if isinstance(e, ast.Subscript) and is_results(e.value):
            return norm_src(e)
        if isinstance(e, ast.Name) and depth < 3:
            ds = [d for d in ctx.reaching_defs(f, e.id, at) if isinstance(d, ast.Assign) and len(d.targets) == 1 and isinstance(d.targets[0], ast.Name)]
            outs = [deref(d.value, f, d, depth + 1) for d in ds]
            if outs and all(outs):
                return outs[0]
        return None

    for f in pkg_funcs(ctx):
        if f.cls is not None and f.cls.name == "UsageExecNode":
            continue  # the accessor itself
        for n in iter_own_nodes(f.node):
            if not isinstance(n, ast.Compare) or len(n.ops) != 1:
                continue
            if isinstance(n.ops[0], (ast.In, ast.NotIn)) and is_results(n.comparators[0]):
                n_member += 1
                continue
            if not isinstance(n.ops[0], (ast.Is, ast.IsNot, ast.Eq, ast.NotEq)):
                continue
            a, b = n.left, n.comparators[0]
            if isinstance(a, ast.Constant) and a.value is None:
                a, b = b, a
            if not (isinstance(b, ast.Constant) and b.value is None):
                continue
            try:
                what = deref(a, f, n)
            except Exception:
                what = None
            if what is None:
                continue
            r.ob(False, {"in": f.short, "test": norm_src(n)})
            r.violate(f"{f.short}: a value read out of the results map is compared with None ({norm_src(n)[:80]})", f.loc(n),
                      "a stored None (an argument whose default is None, a node or setup node that returned None, a cached None) is a value "
                      "like any other; 'has a value' is the membership of the id in the map", what)
    r.ob(n_member >= 2, {"membership tests on a results map seen": n_member})
    r.require(n_member >= 2, f"only {n_member} membership tests on results maps found in the package (confirmed by hand: prune, compose, executor)")
    return r


RULES = {
    "VAL-STORED": val_stored,
    "VAL-CONFKEYS": val_confkeys, "VAL-EMPTYFOLD": val_emptyfold, "VAL-POSTINIT": val_postinit, "VAL-CONFATOMIC": val_confatomic,
    "VAL-COMPOSE-OVERLAP": val_compose_overlap,
    "VAL-SYNTHSEQ": val_synthseq,
    "VAL-MAXC": val_maxc, "VAL-DEBUGDEP": val_debugdep, "VAL-SETUPDEP": val_setupdep, "VAL-SETUPARG": val_setuparg,
    "VAL-DEBUGSETUP": val_debugsetup, "VAL-EXECUTED": val_executed, "VAL-COMPOSE": val_compose,
    "VAL-COMPOSE-ANC": val_compose_anc, "VAL-CONF": val_conf, "VAL-ARGCOUNT": val_argcount, "VAL-EXPAND": val_expand,
}
