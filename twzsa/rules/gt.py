"""GT - graph tables (typestate), selection, priorities (DESIGN 4.3)."""
from __future__ import annotations

import ast
import importlib.util
import os
from typing import Dict, FrozenSet, List, Optional, Set, Tuple

from ..cfg import CFG
from ..ctx import Ctx, arg_for_param, const_str, dotted, names_in
from ..loader import FuncInfo, iter_own_nodes, own_walk
from ..report import RuleResult, Undecided, norm_src

State = Tuple[FrozenSet[str], Optional[str]]  # (tables known populated, origin of the loss)


def graph_q(ctx: Ctx) -> str:
    return ctx.cls_q("DiGraphEx")


def tables(ctx: Ctx) -> List[str]:
    """Instance attributes assigned in DiGraphEx.__init__ after super().__init__."""
    def build():
        g = ctx.P.classes[graph_q(ctx)]
        init = g.methods.get("__init__")
        if init is None:
            raise Undecided("DiGraphEx.__init__ not found")
        out = []
        for n in iter_own_nodes(init.node):
            tg = None
            if isinstance(n, ast.AnnAssign):
                tg = n.target
            elif isinstance(n, ast.Assign):
                tg = n.targets[0]
            if isinstance(tg, ast.Attribute) and dotted(tg.value) == "self":
                out.append(tg.attr)
        if len(out) < 4:
            raise Undecided(f"graph tables: expected tag/debug/setup/compound_priority, found {out}")
        return out
    return ctx.memo("graph_tables", build)


TABLE_READERS = {"debug_nodes": "debug", "setup_nodes": "setup", "tags": "tag", "get_tagged_nodes": "tag"}


# --------------------------------------------------------------------------------------------- GT-MODEL
def gt_model(ctx: Ctx) -> RuleResult:
    r = RuleResult("GT-MODEL")
    spec = importlib.util.find_spec("networkx")
    r.require(spec is not None and spec.origin, "networkx not found on the interpreter's path")
    base = os.path.dirname(spec.origin)

    def parse(rel):
        with open(os.path.join(base, rel)) as fh:
            return ast.parse(fh.read())

    def has_class_ctor(fn, recv):
        return any(isinstance(n, ast.Call) and isinstance(n.func, ast.Attribute) and n.func.attr == "__class__"
                   and dotted(n.func.value) == recv and not n.args for n in ast.walk(fn))

    gm = parse("classes/graph.py")
    graph_cls = next(n for n in gm.body if isinstance(n, ast.ClassDef) and n.name == "Graph")
    copy_fn = next(n for n in graph_cls.body if isinstance(n, ast.FunctionDef) and n.name == "copy")
    sub_fn = next(n for n in graph_cls.body if isinstance(n, ast.FunctionDef) and n.name == "subgraph")
    ok1 = has_class_ctor(copy_fn, "self")
    r.ob(ok1, {"networkx Graph.copy builds self.__class__()": ok1})
    ok2 = any(isinstance(n, ast.Attribute) and n.attr == "subgraph_view" for n in ast.walk(sub_fn))
    r.ob(ok2, {"Graph.subgraph returns a subgraph_view": ok2})
    gv = parse("classes/graphviews.py")
    sv = next(n for n in gv.body if isinstance(n, ast.FunctionDef) and n.name == "subgraph_view")
    ok3 = has_class_ctor(sv, "G")
    r.ob(ok3, {"subgraph_view builds G.__class__()": ok3})
    fm = parse("classes/function.py")
    ind = next(n for n in fm.body if isinstance(n, ast.FunctionDef) and n.name == "induced_subgraph")
    ok4 = any(isinstance(n, ast.Attribute) and n.attr == "subgraph_view" for n in ast.walk(ind))
    r.ob(ok4, {"induced_subgraph returns a subgraph_view": ok4})
    dg = parse("classes/digraph.py")
    dcls = next(n for n in dg.body if isinstance(n, ast.ClassDef) and n.name == "DiGraph")
    ok5 = not any(isinstance(n, ast.FunctionDef) and n.name in ("copy", "subgraph") for n in dcls.body)
    r.ob(ok5, {"DiGraph does not override copy/subgraph": ok5})
    # our class does not override them either, nor __copy__/__deepcopy__
    g = ctx.P.classes[graph_q(ctx)]
    ok6 = not any(m in g.methods for m in ("copy", "subgraph", "__copy__", "__deepcopy__", "__reduce__"))
    r.ob(ok6, {"DiGraphEx does not override copy/subgraph/__deepcopy__": ok6})
    if not all([ok1, ok2, ok3, ok4, ok5, ok6]):
        raise Undecided("the networkx copy model does not match the installed source: typestate rules cannot be trusted")
    return r


# --------------------------------------------------------------------------------------------- typestate engine
class TableFlow:
    def __init__(self, ctx: Ctx):
        self.ctx = ctx
        self.GQ = graph_q(ctx)
        self.TABLES = frozenset(tables(ctx))
        self.POP: State = (self.TABLES, None)
        self.field_state: Dict[str, State] = {}
        self.sinks: List[dict] = []
        self._memo: Dict[tuple, Tuple[Optional[State], list]] = {}
        self._stack: List[str] = []
        self.graph_exprs = 0
        # pass 1: fields
        for f in ctx.funcs():
            if f.cls is not None and any(
                isinstance(n, (ast.Assign,)) and isinstance(n.targets[0], ast.Attribute) and dotted(n.targets[0].value) == "self"
                and self.is_graph(ctx.type_of(f, n.targets[0])) for n in iter_own_nodes(f.node)
            ):
                self.analyse(f.qualname, {}, collect=False)

    def is_graph(self, t: tuple) -> bool:
        return self.ctx.T.is_instance(t, self.GQ, maybe=False)

    def join(self, a: Optional[State], b: Optional[State]) -> Optional[State]:
        if a is None:
            return b
        if b is None:
            return a
        t = a[0] & b[0]
        o = a[1] if len(a[0]) <= len(b[0]) else b[1]
        return (t, o if t != self.TABLES else None)

    def fresh(self, origin: str) -> State:
        return (frozenset(), origin)

    # ------------------------------------------------------------------
    def analyse(self, fq: str, param_states: Dict[str, State], collect: bool = True):
        key = (fq, tuple(sorted((k, v[0]) for k, v in param_states.items())))
        if key in self._memo:
            return self._memo[key]
        if fq in self._stack or len(self._stack) > 5:
            return (self.POP, [])
        self._stack.append(fq)
        f = self.ctx.P.funcs[fq]
        cfg = self.ctx.cfg(f)
        env0: Dict[str, object] = {}
        a = f.node.args
        params = [p.arg for p in a.posonlyargs + a.args + a.kwonlyargs]
        for p in params:
            t = self.ctx.T.env(f).get(p, ("any",))
            if self.is_graph(t) or (t[0] == "type" and t[1] == self.GQ):
                env0[p] = param_states.get(p, self.POP)
        state: Dict[int, Dict[str, object]] = {cfg.entry: env0}
        work = [cfg.entry]
        ret: Optional[State] = None
        sinks: List[dict] = []
        seen_sink = set()
        it = 0
        while work and it < 4000:
            it += 1
            n = work.pop()
            env = dict(state[n])
            k = cfg.kind[n]
            node = cfg.node[n]
            if node is not None and k in ("STMT", "COND", "LOOP", "FOR", "WITH"):
                tgt = node.iter if k == "FOR" else node
                if k == "WITH":
                    tgt = None
                if tgt is not None:
                    self._sinks_in(f, tgt, env, sinks, seen_sink)
                    r2 = self._transfer(f, node if k == "STMT" else None, env, sinks)
                    if isinstance(node, ast.Return) and node.value is not None:
                        v = self.ev(f, node.value, env, sinks)
                        if v is not None:
                            ret = self.join(ret, v)
            for m, _ in cfg.succ[n]:
                old = state.get(m)
                if old is None:
                    state[m] = dict(env)
                    work.append(m)
                else:
                    changed = False
                    new = dict(old)
                    for kk in set(old) | set(env):
                        a_, b_ = old.get(kk), env.get(kk)
                        if kk.startswith("@att:"):
                            nv = (a_ or {}) if b_ is None else ((b_ or {}) if a_ is None else
                                                                {t: s for t, s in a_.items() if b_.get(t) == s})
                        else:
                            nv = self.join(a_, b_)
                        if nv != a_:
                            new[kk] = nv
                            changed = True
                    if changed:
                        state[m] = new
                        work.append(m)
        self._stack.pop()
        res = (ret, sinks)
        self._memo[key] = res
        if collect:
            pass
        return res

    # ------------------------------------------------------------------ expressions
    def ev(self, f: FuncInfo, e: ast.AST, env: Dict[str, object], sinks: list) -> Optional[State]:
        ctx = self.ctx
        if isinstance(e, ast.Name):
            v = env.get(e.id)
            return v if isinstance(v, tuple) else None
        if isinstance(e, ast.Await):
            return self.ev(f, e.value, env, sinks)
        if isinstance(e, ast.Attribute):
            t = ctx.type_of(f, e)
            if self.is_graph(t):
                d = dotted(e) or ""
                owner = ctx.type_of(f, e.value)
                if owner[0] == "cls":
                    key = f"{self._field_owner(owner[1], e.attr)}.{e.attr}"
                    return self.field_state.get(key, self.POP)
            return None
        if isinstance(e, ast.Call):
            fn = e.func
            d = dotted(fn) or ""
            last = d.split(".")[-1]
            if last in ("deepcopy", "copy") and isinstance(fn, ast.Name) and e.args:
                return self.ev(f, e.args[0], env, sinks)
            q = ctx.T.resolve_callee(f, e, ctx.env_at(f, e))
            if q == self.GQ:
                # an empty graph has (trivially) complete tables; filling them per added node is GT-POP's obligation
                if not e.args and not e.keywords:
                    return self.POP
                return self.fresh(f"{f.short}: {norm_src(e)}")
            if isinstance(fn, ast.Attribute):
                recv_t = ctx.type_of(f, fn.value)
                recv = self.ev(f, fn.value, env, sinks)
                if self.is_graph(recv_t) or recv is not None:
                    if fn.attr in ("copy", "subgraph", "reverse", "to_directed", "edge_subgraph"):
                        return self.fresh(f"{f.short}: {norm_src(e)}")
                    mq = f"{self.GQ}.{fn.attr}"
                    if mq in ctx.P.funcs:
                        callee = ctx.P.funcs[mq]
                        rt = ctx.T.ann(callee.module, callee.node.returns)
                        ps: Dict[str, State] = {}
                        cparams = [a.arg for a in callee.node.args.args]
                        if cparams:
                            ps[cparams[0]] = recv or self.POP
                        for pn in cparams[1:]:
                            a = arg_for_param(callee.node, e, pn, skip_self=True)
                            if a is not None:
                                v = self.ev(f, a, env, sinks)
                                if v is not None:
                                    ps[pn] = v
                        rr, s2 = self.analyse(mq, ps)
                        for s in s2:
                            sinks.append(dict(s, via=s.get("via", []) + [f"{f.short}:{getattr(e, 'lineno', 0)}"]))
                        if rt == ("self",) or self.is_graph(rt):
                            return rr if rr is not None else self.POP
                        return None
                if recv_t[0] == "type" and recv_t[1] == self.GQ and fn.attr == "from_exec_nodes":
                    return self.POP
                if d in ("nx.induced_subgraph", "networkx.induced_subgraph", "nx.subgraph_view", "nx.subgraph",
                         "nx.dfs_tree", "nx.reverse", "nx.DiGraph"):
                    return self.fresh(f"{f.short}: {norm_src(e)}")
            if q in ctx.P.funcs:
                callee = ctx.P.funcs[q]
                rt = ctx.T.ann(callee.module, callee.node.returns)
                ps = {}
                skip = callee.cls is not None
                cparams = [a.arg for a in callee.node.args.posonlyargs + callee.node.args.args + callee.node.args.kwonlyargs]
                for pn in (cparams[1:] if skip else cparams):
                    a = arg_for_param(callee.node, e, pn, skip_self=skip)
                    if a is not None:
                        v = self.ev(f, a, env, sinks)
                        if v is not None:
                            ps[pn] = v
                if ps or self.is_graph(rt) or rt == ("self",):
                    rr, s2 = self.analyse(q, ps)
                    for s in s2:
                        sinks.append(dict(s, via=s.get("via", []) + [f"{f.short}:{getattr(e, 'lineno', 0)}"]))
                    if self.is_graph(rt):
                        return rr if rr is not None else self.POP
            return None
        return None

    def _field_owner(self, cls_q: str, attr: str) -> str:
        c = self.ctx.P.classes.get(cls_q)
        if c is None:
            return cls_q.split(".")[-1]
        for ci in self.ctx.P.mro(c):
            if attr in ci.fields:
                return ci.name
            for m in ci.methods.values():
                for n in iter_own_nodes(m.node):
                    if isinstance(n, ast.Assign) and isinstance(n.targets[0], ast.Attribute) and n.targets[0].attr == attr \
                            and dotted(n.targets[0].value) == "self":
                        return ci.name
        return c.name

    def _sinks_in(self, f: FuncInfo, node: ast.AST, env, sinks, seen) -> None:
        stores = {id(x.value) for x in own_walk(node) if isinstance(x, ast.Subscript) and isinstance(x.ctx, (ast.Store, ast.Del))}
        for sub in own_walk(node):
            if id(sub) in stores:
                continue
            need = None
            base = None
            if isinstance(sub, ast.Attribute) and isinstance(sub.ctx, ast.Load):
                if sub.attr in self.TABLES:
                    need, base = sub.attr, sub.value
                elif sub.attr in TABLE_READERS:
                    need, base = TABLE_READERS[sub.attr], sub.value
            if need is None:
                continue
            if not (self.is_graph(self.ctx.type_of(f, base)) or (isinstance(base, ast.Name) and isinstance(env.get(base.id), tuple))):
                continue
            self.graph_exprs += 1
            st = self.ev(f, base, env, [])
            if st is None:
                st = self.POP if not isinstance(base, ast.Name) else None
            if st is not None and need not in st[0]:
                key = (id(sub), st[0])
                if key in seen:
                    continue
                seen.add(key)
                sinks.append({"func": f.short, "where": f.loc(sub), "read": norm_src(sub), "table": need, "origin": st[1], "via": []})

    def _attach_summary(self, callee: FuncInfo) -> List[Tuple[str, str, str]]:
        """(destination parameter, source parameter, table) for every unconditional `dst.<table> = src.<table>` (possibly copied)
        among the top-level statements of a helper: what a call of it re-attaches to the graph it is given."""
        out = []
        a = callee.node.args
        params = {x.arg for x in a.posonlyargs + a.args + a.kwonlyargs}
        for st in callee.node.body:
            if not (isinstance(st, ast.Assign) and len(st.targets) == 1 and isinstance(st.targets[0], ast.Attribute)):
                continue
            tg, v = st.targets[0], st.value
            if isinstance(v, ast.Call) and dotted(v.func) in ("deepcopy", "copy", "dict") and v.args:
                v = v.args[0]
            if tg.attr in self.TABLES and isinstance(tg.value, ast.Name) and tg.value.id in params \
                    and isinstance(v, ast.Attribute) and v.attr == tg.attr and isinstance(v.value, ast.Name) and v.value.id in params:
                out.append((tg.value.id, v.value.id, tg.attr))
        return out

    def _apply_attach_summary(self, f: FuncInfo, e: ast.AST, env, sinks) -> None:
        if not isinstance(e, ast.Call):
            return
        ctx = self.ctx
        q = ctx.T.resolve_callee(f, e, ctx.env_at(f, e))
        if q is None and isinstance(e.func, ast.Attribute) and self.is_graph(ctx.type_of(f, e.func.value)):
            q = f"{self.GQ}.{e.func.attr}"
        if q not in ctx.P.funcs:
            return
        callee = ctx.P.funcs[q]
        summ = self._attach_summary(callee)
        if not summ:
            return
        is_method = callee.cls is not None and isinstance(e.func, ast.Attribute)
        cparams = [x.arg for x in callee.node.args.posonlyargs + callee.node.args.args + callee.node.args.kwonlyargs]

        def actual(pn: str) -> Optional[ast.AST]:
            if is_method and cparams and pn == cparams[0]:
                return e.func.value  # type: ignore[union-attr]
            return arg_for_param(callee.node, e, pn, skip_self=is_method)

        for dst, src, table in summ:
            d_e, s_e = actual(dst), actual(src)
            if not (isinstance(d_e, ast.Name) and isinstance(env.get(d_e.id), tuple)) or s_e is None:
                continue
            sst = self.ev(f, s_e, env, sinks)
            if sst is None and self.is_graph(ctx.type_of(f, s_e)):
                sst = self.POP
            cur: State = env[d_e.id]  # type: ignore[assignment]
            if sst is not None and table in sst[0]:
                nt = cur[0] | {table}
                env[d_e.id] = (nt, cur[1] if nt != self.TABLES else None)

    def _transfer(self, f: FuncInfo, s: Optional[ast.AST], env, sinks) -> None:
        if s is None:
            return
        # calls evaluated for their sinks (expression statements, arguments)
        if isinstance(s, ast.Expr):
            self.ev(f, s.value, env, sinks)
            for c in own_walk(s.value):
                if isinstance(c, ast.Call) and c is not s.value:
                    self.ev(f, c, env, sinks)
            self._apply_attach_summary(f, s.value, env, sinks)
            return
        if isinstance(s, (ast.Assign, ast.AnnAssign)):
            value = s.value
            if value is None:
                return
            tgs = s.targets if isinstance(s, ast.Assign) else [s.target]
            v = self.ev(f, value, env, sinks)
            # nested calls with graph arguments (e.g. inside await / tuple unpacking)
            if v is None:
                for c in own_walk(value):
                    if isinstance(c, ast.Call) and c is not value:
                        self.ev(f, c, env, sinks)
            for tg in tgs:
                if isinstance(tg, ast.Subscript) and isinstance(tg.value, ast.Attribute) and tg.value.attr in self.TABLES \
                        and isinstance(tg.value.value, ast.Name) and isinstance(env.get(tg.value.value.id), tuple):
                    # writing an entry of a table of a freshly built graph populates that table (the producer pattern)
                    g = tg.value.value.id
                    cur = env[g]
                    nt = cur[0] | {tg.value.attr}
                    env[g] = (nt, cur[1] if nt != self.TABLES else None)
                    continue
                if isinstance(tg, ast.Name):
                    if v is not None or self.is_graph(self.ctx.type_of(f, value)):
                        env[tg.id] = v if v is not None else self.POP
                        env.pop("@att:" + tg.id, None)
                    elif tg.id in env:
                        env.pop(tg.id, None)
                elif isinstance(tg, ast.Attribute):
                    if tg.attr in self.TABLES and isinstance(tg.value, ast.Name) and isinstance(env.get(tg.value.id), tuple):
                        # re-attachment  g.<table> = src.<table>
                        g = tg.value.id
                        cur: State = env[g]  # type: ignore[assignment]
                        src_ok = False
                        if isinstance(value, ast.Attribute) and value.attr == tg.attr:
                            sst = self.ev(f, value.value, env, sinks)
                            if sst is None and self.is_graph(self.ctx.type_of(f, value.value)):
                                sst = self.POP
                            src_ok = sst is not None and tg.attr in sst[0]
                        elif isinstance(value, ast.Call) and dotted(value.func) in ("deepcopy", "copy", "dict") and value.args \
                                and isinstance(value.args[0], ast.Attribute) and value.args[0].attr == tg.attr:
                            sst = self.ev(f, value.args[0].value, env, sinks)
                            if sst is None and self.is_graph(self.ctx.type_of(f, value.args[0].value)):
                                sst = self.POP
                            src_ok = sst is not None and tg.attr in sst[0]
                        if src_ok:
                            nt = cur[0] | {tg.attr}
                            env[g] = (nt, cur[1] if nt != self.TABLES else None)
                        else:
                            nt = cur[0] - {tg.attr}
                            env[g] = (nt, cur[1] or f"{f.short}: {norm_src(s)}")
                    elif dotted(tg.value) == "self" and f.cls is not None and (v is not None or self.is_graph(self.ctx.type_of(f, tg))):
                        key = f"{self._field_owner(f.cls.qualname, tg.attr)}.{tg.attr}"
                        old = self.field_state.get(key)
                        nv = v if v is not None else self.POP
                        self.field_state[key] = nv if old is None else self.join(old, nv)
            return
        if isinstance(s, ast.Return):
            if s.value is not None:
                for c in own_walk(s.value):
                    if isinstance(c, ast.Call) and c is not s.value:
                        self.ev(f, c, env, sinks)
            return
        for c in own_walk(s):
            if isinstance(c, ast.Call):
                self.ev(f, c, env, sinks)


def table_flow(ctx: Ctx) -> Tuple[TableFlow, List[dict]]:
    def build():
        tf = TableFlow(ctx)
        allsinks: List[dict] = []
        seen = set()
        for f in ctx.funcs():
            if f.module.name.endswith("_twzsa_control"):
                continue
            _, sinks = tf.analyse(f.qualname, {})
            for s in sinks:
                k = (s["where"], s["table"], s["origin"])
                if k not in seen:
                    seen.add(k)
                    allsinks.append(s)
        return tf, allsinks
    return ctx.memo("table_flow", build)


def gt_carry(ctx: Ctx) -> RuleResult:
    r = RuleResult("GT-CARRY")
    m = gt_model(ctx)  # raises Undecided if the model does not hold
    tf, sinks = table_flow(ctx)
    r.require(tf.graph_exprs >= 6, f"only {tf.graph_exprs} table reads on graph values found")
    by_origin: Dict[Tuple[str, str], List[dict]] = {}
    for s in sinks:
        by_origin.setdefault((s["origin"] or "?", s["table"]), []).append(s)
    for (origin, table), ss in sorted(by_origin.items()):
        r.ob(False, {"origin": origin, "table": table, "reads": [x["read"] + " @ " + x["where"] for x in ss]})
        r.violate(f"{origin} loses table '{table}'", ss[0]["where"],
                  f"a graph derived by a networkx copy/sub-graph operation (built with G.__class__(): empty tables) reaches a read "
                  f"of '{table}' without that table having been re-attached: priorities read as 0 / debug and setup markers as "
                  f"False / tags as absent",
                  [{"read": x["read"], "at": x["where"], "via": x["via"]} for x in ss])
    # what was examined
    for k, v in sorted(tf.field_state.items()):
        r.ob(v[0] == tf.TABLES or True, {"graph field": k, "tables carried": sorted(v[0])})
    r.ob(True, {"table reads examined": tf.graph_exprs, "contexts analysed": len(tf._memo)})
    return r


def gt_prio_sink(ctx: Ctx) -> RuleResult:
    """Every call of the scheduler receives a graph whose compound-priority table is populated."""
    from .sch import model

    r = RuleResult("GT-PRIO-SINK")
    m = model(ctx)
    tf, sinks = table_flow(ctx)
    hits = [s for s in sinks if s["func"] == m.fn.short and s["table"] == "compound_priority"]
    n_calls = 0
    for f in ctx.funcs():
        for call, q in ctx.calls_in(f):
            if q == m.fn.qualname or (q in ctx.P.funcs and _forwards_to(ctx, q, m.fn.qualname)):
                a = arg_for_param(ctx.P.funcs[q].node, call, m.G)
                if a is not None:
                    n_calls += 1
                    r.ob(True, {"scheduler entered from": f.short, "graph argument": norm_src(a)})
    r.require(n_calls >= 4, f"only {n_calls} entries into the scheduler found")
    for s in hits:
        r.ob(False)
        r.violate(f"scheduler reads compound priorities of a graph that lost them: {s['origin']}", s["where"],
                  "all priorities read as 0: the choice degenerates", s)
    return r


def _forwards_to(ctx: Ctx, q: str, target: str) -> bool:
    f = ctx.P.funcs.get(q)
    if f is None:
        return False
    return any(cq == target for _, cq in ctx.calls_in(f))


# --------------------------------------------------------------------------------------------- GT-POP
def gt_pop(ctx: Ctx) -> RuleResult:
    r = RuleResult("GT-POP")
    g = ctx.P.classes[graph_q(ctx)]
    fe = g.methods.get("from_exec_nodes")
    r.require(fe is not None, "from_exec_nodes not found")
    tbls = tables(ctx)
    loops = [n for n in fe.node.body if isinstance(n, ast.For)]
    r.require(len(loops) >= 1, "from_exec_nodes: node loop not found")
    loop = loops[0]
    lv = dotted(loop.target)
    written = {}
    for n in own_walk(loop):
        if isinstance(n, ast.Assign) and isinstance(n.targets[0], ast.Subscript) and isinstance(n.targets[0].value, ast.Attribute) \
                and n.targets[0].value.attr in tbls:
            written.setdefault(n.targets[0].value.attr, []).append(n)
    for t in tbls:
        ok = t in written
        r.ob(ok, {"table": t, "written per node": ok})
        if not ok:
            r.violate(f"DiGraphEx.from_exec_nodes: table '{t}' not filled", fe.loc(loop),
                      f"the per-node table '{t}' is not written for the nodes added", None)
    # the tag table holds a LIST of tags per node (membership on a bare string would be substring matching)
    for w in written.get("tag", []):
        v = w.value

        def _is_list(e: ast.AST) -> Optional[bool]:
            if isinstance(e, (ast.List, ast.ListComp)) or (isinstance(e, ast.Call) and dotted(e.func) in ("list", "sorted")):
                return True
            if isinstance(e, ast.IfExp):
                a_, b_ = _is_list(e.body), _is_list(e.orelse)
                return False if False in (a_, b_) else (True if a_ and b_ else None)
            if isinstance(e, (ast.Attribute, ast.Name, ast.Constant, ast.JoinedStr)):
                return False  # the node's tag itself (a str, or whatever the user passed)
            return None
        okl = _is_list(v)
        if okl is None:
            raise Undecided(f"from_exec_nodes: form of the tag table entry not recognised: {norm_src(v)}")
        r.ob(okl, {"tag table entry": norm_src(v)})
        if not okl:
            r.violate("DiGraphEx.from_exec_nodes: a node's tags are stored as a bare value, not as a list of tags", fe.loc(w),
                      "tag lookup tests 'tag in tags': on a bare string that is substring matching, so an alias that is contained in "
                      "another node's tag (or id) selects that other node", norm_src(w))
    # own priority is what seeds the compound table
    cp = written.get("compound_priority", [])
    if cp:
        v = cp[0].value
        ok = isinstance(v, ast.Attribute) and v.attr == "priority" and dotted(v.value) == lv
        r.ob(ok, {"compound table seeded with": norm_src(v)})
        if not ok:
            r.violate("DiGraphEx.from_exec_nodes: compound table not seeded with the node's own priority", fe.loc(cp[0]), "", norm_src(cp[0]))
    dbg = written.get("debug", [])
    if dbg:
        ok = isinstance(dbg[0].value, ast.Attribute) and dbg[0].value.attr == "debug"
        r.ob(ok, {"debug table written with": norm_src(dbg[0].value)})
        if not ok:
            r.violate("DiGraphEx.from_exec_nodes: debug marker not the node's debug attribute", fe.loc(dbg[0]), "", norm_src(dbg[0]))
    st = written.get("setup", [])
    if st:
        ok = isinstance(st[0].value, ast.Attribute) and st[0].value.attr == "setup"
        r.ob(ok, {"setup table written with": norm_src(st[0].value)})
        if not ok:
            r.violate("DiGraphEx.from_exec_nodes: setup marker not the node's setup attribute", fe.loc(st[0]), "", norm_src(st[0]))
    # compound priorities computed before returning, after the loop
    calls = [n for n in fe.node.body if isinstance(n, ast.Expr) and isinstance(n.value, ast.Call)
             and isinstance(n.value.func, ast.Attribute) and n.value.func.attr == "assign_compound_priority"]
    ok = len(calls) == 1 and fe.node.body.index(calls[0]) > fe.node.body.index(loop)
    r.ob(ok, {"assign_compound_priority called after the node loop": ok})
    if not ok:
        r.violate("DiGraphEx.from_exec_nodes: compound priorities not computed on every path", fe.loc(),
                  "the graph is returned with own priorities only", None)
    # the computation is not idempotent (it reads own priorities from the table it overwrites): it may run only once per
    # freshly seeded table, i.e. only from from_exec_nodes
    acp = g.methods.get("assign_compound_priority")
    if acp is not None:
        for f2, call in ctx.callers_of(acp.qualname):
            okc = f2.qualname == fe.qualname
            r.ob(okc, {"assign_compound_priority called from": f2.short})
            if not okc:
                r.violate(f"{f2.short}: assign_compound_priority called outside from_exec_nodes", f2.loc(call),
                          "the computation reads each node's OWN priority from the table it then overwrites with the compound value; on a "
                          "table that already holds compound values (e.g. one shared with the DAG's graph) it compounds a second time, "
                          "in place, for every later run", norm_src(call))
    # a sparse table whose default is None (declared `defaultdict(lambda: None)`) is never INDEXED for reading: `table[key]` on a
    # defaultdict inserts the default for every key it is asked about, and the readers that iterate the table's values (the set of all
    # tags, built while the 'node or tag not found' error is formatted) do not expect None entries
    init = g.methods.get("__init__")
    sparse = set()
    if init is not None:
        for n in iter_own_nodes(init.node):
            tg = n.targets[0] if isinstance(n, ast.Assign) else (n.target if isinstance(n, ast.AnnAssign) else None)
            v = getattr(n, "value", None)
            if isinstance(tg, ast.Attribute) and dotted(tg.value) == "self" and isinstance(v, ast.Call) and (dotted(v.func) or "").endswith("defaultdict") \
                    and v.args and isinstance(v.args[0], ast.Lambda) and isinstance(v.args[0].body, ast.Constant) and v.args[0].body.value is None:
                sparse.add(tg.attr)
    for tname in sorted(sparse):
        reads = [(f2, n) for f2 in ctx.funcs() if not f2.module.name.endswith("_twzsa_control") for n in iter_own_nodes(f2.node)
                 if isinstance(n, ast.Subscript) and isinstance(n.ctx, ast.Load) and isinstance(n.value, ast.Attribute) and n.value.attr == tname
                 and ctx.T.is_instance(ctx.type_of(f2, n.value.value) or ("any",), g.qualname, maybe=False)]
        r.ob(not reads, {"sparse table": tname, "indexed reads": [norm_src(n)[:50] for _, n in reads]})
        for f2, n in reads[:1]:
            r.violate(f"{f2.short}: the sparse table '{tname}' (default None) is indexed for reading ({norm_src(n)[:50]})", f2.loc(n),
                      "every key looked up is inserted with the value None; the next reader that walks the table's values - the set of all tags, "
                      "computed to word the 'alias not found' ValueError - fails with TypeError: an unknown alias no longer raises ValueError",
                      norm_src(n)[:80])
    return r


# --------------------------------------------------------------------------------------------- GT-FORMULA
def gt_formula(ctx: Ctx) -> RuleResult:
    r = RuleResult("GT-FORMULA")
    g = ctx.P.classes[graph_q(ctx)]
    f = g.methods.get("assign_compound_priority")
    r.require(f is not None, "assign_compound_priority not found")
    fn = f.node
    # the accumulation is unconditional: no way out of the function that depends on the priorities (a "nothing to do" shortcut keyed on
    # their sum / on all of them being zero is wrong as soon as values of both signs cancel)
    for rt in [n for n in iter_own_nodes(fn) if isinstance(n, ast.Return)]:
        from .val import reach_conditions

        conds = reach_conditions(fn, rt) or []
        dep = [c for c, _ in conds if any(isinstance(x, ast.Call) and dotted(x.func) in ("sum", "any", "all", "max", "min") for x in ast.walk(c))
               or any(isinstance(x, ast.Attribute) and x.attr in ("compound_priority", "priority") for x in ast.walk(c))
               or any(isinstance(x, ast.Name) and "prior" in x.id for x in ast.walk(c))]
        r.ob(not dep, {"early exit of the accumulation under": [norm_src(c)[:60] for c, _ in conds]})
        if dep:
            r.violate("DiGraphEx.assign_compound_priority: the accumulation is skipped when " + norm_src(dep[0])[:60], f.loc(rt),
                      "a shortcut keyed on an aggregate of the priorities (their sum, any/all of them) also fires for vectors it was not meant "
                      "for (+3, +1, -4 sum to 0): every compound priority then stays the node's own priority and the start order changes",
                      norm_src(dep[0]))
    # aliases / snapshots of the compound table
    alias: Dict[str, str] = {}  # name -> 'alias' | 'snapshot'
    for n in iter_own_nodes(fn):
        if isinstance(n, (ast.Assign, ast.AnnAssign)):
            tg = n.targets[0] if isinstance(n, ast.Assign) else n.target
            v = n.value
            if isinstance(tg, ast.Name) and v is not None:
                if isinstance(v, ast.Attribute) and v.attr == "compound_priority":
                    alias[tg.id] = "alias"
                elif any(isinstance(x, ast.Attribute) and x.attr == "compound_priority" for x in ast.walk(v)) and \
                        isinstance(v, (ast.DictComp, ast.Call)):
                    alias[tg.id] = "snapshot"
                elif isinstance(v, (ast.Dict, ast.DictComp)) or (isinstance(v, ast.Call) and dotted(v.func) in ("dict", "defaultdict")):
                    alias.setdefault(tg.id, "local")

    def table_of(e: ast.AST) -> Optional[str]:
        """canonical table name of the container in a subscript"""
        if isinstance(e, ast.Attribute) and e.attr == "compound_priority":
            return "T"
        if isinstance(e, ast.Name) and e.id in alias:
            return "T" if alias[e.id] == "alias" else e.id
        return None

    writes = []
    for n in iter_own_nodes(fn):
        if isinstance(n, (ast.Assign, ast.AugAssign)):
            tg = n.targets[0] if isinstance(n, ast.Assign) else n.target
            if isinstance(tg, ast.Subscript) and table_of(tg.value) is not None:
                writes.append((n, table_of(tg.value), tg.slice))
    # T.update({key: value for key in it}): one write per key, all values computed before any of them is stored
    import copy as _copy

    def _as_dictcomp(e: ast.AST) -> Optional[ast.DictComp]:
        """The dict comprehension an update argument stands for: itself, or the single definition of a local; a comprehension over
        `OWN.items()` with target (k, v) is read with v replaced by OWN[k]."""
        if isinstance(e, ast.Name):
            ds = [d for d in iter_own_nodes(fn) if isinstance(d, (ast.Assign, ast.AnnAssign)) and dotted(d.targets[0] if isinstance(d, ast.Assign) else d.target) == e.id]
            e = ds[0].value if len(ds) == 1 and ds[0].value is not None else e
        if not (isinstance(e, ast.DictComp) and len(e.generators) == 1):
            return None
        g0 = e.generators[0]
        if isinstance(g0.target, ast.Tuple) and len(g0.target.elts) == 2 and all(isinstance(t_, ast.Name) for t_ in g0.target.elts) \
                and isinstance(g0.iter, ast.Call) and isinstance(g0.iter.func, ast.Attribute) and g0.iter.func.attr == "items" and not g0.iter.args:
            kv, vv = g0.target.elts[0].id, g0.target.elts[1].id
            src = g0.iter.func.value

            class _S(ast.NodeTransformer):
                def visit_Name(self, n_):
                    if n_.id == vv and isinstance(n_.ctx, ast.Load):
                        return ast.Subscript(value=_copy.deepcopy(src), slice=ast.Name(id=kv, ctx=ast.Load()), ctx=ast.Load())
                    return n_

            e2 = _copy.deepcopy(e)
            e2.value = _S().visit(e2.value)
            e2.key = _S().visit(e2.key)
            e2.generators[0].target = ast.Name(id=kv, ctx=ast.Store())
            e2.generators[0].iter = _copy.deepcopy(src)
            ast.fix_missing_locations(e2)
            return e2
        return e

    for n in iter_own_nodes(fn):
        if isinstance(n, ast.Call) and isinstance(n.func, ast.Attribute) and n.func.attr == "update" and table_of(n.func.value) is not None \
                and len(n.args) == 1 and _as_dictcomp(n.args[0]) is not None:
            dc = _as_dictcomp(n.args[0])
            pseudo = ast.copy_location(ast.Assign(targets=[ast.Subscript(value=n.func.value, slice=dc.key, ctx=ast.Store())], value=dc.value), n)
            ast.fix_missing_locations(pseudo)
            writes.append((pseudo, table_of(n.func.value), dc.key))
    r.require(bool(writes), "assign_compound_priority: no write into a priority table found")
    # values that carry a table read (one level of local assignment)
    carries: Dict[str, List[Tuple[str, ast.AST]]] = {}
    for n in iter_own_nodes(fn):
        if isinstance(n, ast.Assign) and isinstance(n.targets[0], ast.Name):
            rd = [(table_of(x.value), x.slice) for x in ast.walk(n.value) if isinstance(x, ast.Subscript) and table_of(x.value)]
            if rd:
                carries[n.targets[0].id] = rd
    viol = False
    for n, tbl, key in writes:
        rhs = n.value
        reads = [(table_of(x.value), x.slice) for x in ast.walk(rhs) if isinstance(x, ast.Subscript) and table_of(x.value)]
        for nm in names_in(rhs):
            reads += carries.get(nm, [])
        cross = [(t, k) for t, k in reads if t == tbl and norm_src(k) != norm_src(key)]
        if cross:
            viol = True
            r.ob(False, {"write": norm_src(n)})
            r.violate("DiGraphEx.assign_compound_priority: a node's value accumulates another node's accumulated value", f.loc(n),
                      "the value written for one node is computed from the value already accumulated for another node of the same "
                      "table: a descendant reachable by k paths is counted k times (exact only on trees), and with set iteration "
                      "the result can depend on the hash seed", norm_src(n))
    # (a) iteration over a set with a loop-carried dependence on the table
    for n in iter_own_nodes(fn):
        if isinstance(n, ast.For):
            it_t = ctx.type_of(f, n.iter)
            body_w = [w for w in writes if any(w[0] is x for s in n.body for x in ast.walk(s))]
            body_r = [x for s in n.body for x in ast.walk(s) if isinstance(x, ast.Subscript) and isinstance(x.ctx, ast.Load)
                      and table_of(x.value)]
            if it_t[0] == "set" and body_w and body_r:
                lv = dotted(n.target)
                carried = any(table_of(x.value) == w[1] and norm_src(w[2]) != lv for w in body_w for x in body_r)
                if carried:
                    viol = True
                    r.ob(False)
                    r.violate("DiGraphEx.assign_compound_priority: iteration over a set with a loop-carried dependence", f.loc(n),
                              "the loop reads and writes the same table for different keys while iterating a set: the result depends "
                              "on set order, i.e. on PYTHONHASHSEED", norm_src(n.iter))
    if viol:
        return r
    # (c) accepted shape: T[n] = OWN[n] + sum(OWN[d] for d in <reachability closure of n>)
    ok_shape = False
    for n, tbl, key in writes:
        if tbl != "T" or not isinstance(n, ast.Assign):
            continue
        v = n.value
        if isinstance(v, ast.BinOp) and isinstance(v.op, ast.Add):
            parts = [v.left, v.right]
            own = [p for p in parts if isinstance(p, ast.Subscript) and table_of(p.value) not in (None, "T")
                   and norm_src(p.slice) == norm_src(key)]
            sums = [p for p in parts if isinstance(p, ast.Call) and dotted(p.func) == "sum" and p.args
                    and isinstance(p.args[0], (ast.GeneratorExp, ast.ListComp))]
            if own and sums:
                gen = sums[0].args[0]
                it = gen.generators[0].iter
                clos = isinstance(it, ast.Call) and (dotted(it.func) or "").split(".")[-1] in ("descendants",) \
                    and norm_src(key) in [norm_src(a) for a in list(it.args) + [k.value for k in it.keywords]]
                elt_ok = isinstance(gen.elt, ast.Subscript) and table_of(gen.elt.value) == table_of(own[0].value) \
                    and dotted(gen.elt.slice) == dotted(gen.generators[0].target) and not gen.generators[0].ifs
                snap = alias.get(table_of(own[0].value) or "") == "snapshot"
                if clos and elt_ok and snap:
                    ok_shape = True
                    r.ob(True, {"formula": norm_src(n), "own priorities": table_of(own[0].value), "closure": norm_src(it)})
    if not ok_shape:
        # (d) recognised defect: the sum ranges over an enumeration of EDGES (a node reachable through k edges is counted k times)
        per_edge = ("edge_bfs", "edge_dfs", "out_edges", "edges", "all_simple_paths", "all_simple_edge_paths")
        for n, tbl, key in writes:
            for c_ in ast.walk(n.value) if isinstance(n, (ast.Assign, ast.AugAssign)) else []:
                if isinstance(c_, (ast.GeneratorExp, ast.ListComp)):
                    it = c_.generators[0].iter
                    if isinstance(it, ast.Call) and (dotted(it.func) or "").split(".")[-1] in per_edge:
                        r.ob(False, {"summed over": norm_src(it)})
                        r.violate("DiGraphEx.assign_compound_priority: the priorities are summed over an enumeration of edges", f.loc(n),
                                  f"{norm_src(it.func)} yields one item per reachable edge: a descendant with several incoming edges (a "
                                  "diamond, a node that is child and grand-child) is counted once per edge, not once", norm_src(n)[:140])
                        return r
        raise Undecided("assign_compound_priority: neither a recognised defect pattern nor the accepted shape "
                        "'T[n] = OWN[n] + sum(OWN[d] for d in descendants(n))'")
    # the snapshot holds own priorities: built before any write
    first_w = min(w[0].lineno for w in writes)
    for nm, kind in alias.items():
        if kind == "snapshot":
            st = next(n for n in iter_own_nodes(fn) if isinstance(n, (ast.Assign, ast.AnnAssign)) and
                      dotted(n.targets[0] if isinstance(n, ast.Assign) else n.target) == nm)
            ok = st.lineno < first_w
            r.ob(ok, {"snapshot of own priorities taken before the first write": ok})
            if not ok:
                r.violate("DiGraphEx.assign_compound_priority: own priorities snapshotted after the table was modified", f.loc(st), "", None)
    return r


# --------------------------------------------------------------------------------------------- GT-RECONF
def gt_reconf(ctx: Ctx) -> RuleResult:
    r = RuleResult("GT-RECONF")
    f = ctx.method("BaseDAG", "config_from_dict")
    body = f.node.body
    rebuilds = [s for s in body if isinstance(s, ast.Assign) and isinstance(s.targets[0], ast.Attribute)
                and s.targets[0].attr == "graph_ids" and isinstance(s.value, ast.Call)
                and (dotted(s.value.func) or "").endswith("from_exec_nodes")]
    rets = [n for n in iter_own_nodes(f.node) if isinstance(n, ast.Return)]
    if not rebuilds:
        nested = [n for n in iter_own_nodes(f.node) if isinstance(n, ast.Assign) and isinstance(n.targets[0], ast.Attribute)
                  and n.targets[0].attr == "graph_ids"]
        r.ob(False)
        if nested:
            r.violate("BaseDAG.config_from_dict: graph rebuilt only on some paths", f.loc(nested[0]),
                      "after re-configuration the graph (and its compound priorities) must be rebuilt on every normal exit", norm_src(nested[0]))
        else:
            r.violate("BaseDAG.config_from_dict: graph not rebuilt after re-configuration", f.loc(),
                      "re-configured priorities never reach the compound-priority table", None)
        return r
    rb = rebuilds[-1]
    early = [x for x in rets if x.lineno < rb.lineno]
    ok = not early
    r.ob(ok, {"rebuild": norm_src(rb), "early returns": len(early)})
    if early:
        r.violate("BaseDAG.config_from_dict: return before the graph is rebuilt", f.loc(early[0]), "", norm_src(early[0]))
    # the rebuild uses the (possibly replaced) node table of the DAG
    a = next((k.value for k in rb.value.keywords if k.arg == "exec_nodes"), rb.value.args[1] if len(rb.value.args) > 1 else None)
    ok2 = a is not None and norm_src(a) == "self.exec_nodes"
    r.ob(ok2, {"rebuilt from": norm_src(a) if a is not None else None})
    if not ok2:
        raise Undecided("config_from_dict: rebuild source not self.exec_nodes")
    # nodes are replaced in the DAG's node table
    repl = [n for n in iter_own_nodes(f.node) if isinstance(n, ast.Call) and isinstance(n.func, ast.Attribute)
            and n.func.attr == "force_set" and norm_src(n.func.value) == "self.exec_nodes"]
    r.ob(len(repl) == 1, {"node replacement": norm_src(repl[0]) if repl else None})
    for name in ("config_from_yaml", "config_from_json"):
        g = ctx.method("BaseDAG", name)
        ok3 = any(q == f.qualname for _, q in ctx.calls_in(g))
        r.ob(ok3, {name: "delegates to config_from_dict" if ok3 else "does not"})
        if not ok3:
            r.violate(f"BaseDAG.{name}: does not go through config_from_dict", g.loc(), "", None)
    return r


def gt_staleexec(ctx: Ctx) -> RuleResult:
    """An executor schedules with the priority tables of the graph the DAG has when the executor RUNS.

    Re-configuration replaces the DAG's graph object (new compound priorities). An executor that derived its own graph from the
    DAG's graph when it was created, and hands that copy to the DAG's run method (which reads the node table live), runs the
    re-configured nodes in the order of the old priorities."""
    r = RuleResult("GT-STALEEXEC")
    cf = ctx.method("BaseDAG", "config_from_dict")
    rebinds = [n for n in iter_own_nodes(cf.node) if isinstance(n, ast.Assign) and isinstance(n.targets[0], ast.Attribute)
               and n.targets[0].attr == "graph_ids" and dotted(n.targets[0].value) == "self"]
    r.ob(True, {"re-configuration re-binds the DAG's graph": bool(rebinds)})
    if not rebinds:
        return r  # tables updated in place (or not at all: GT-RECONF): nothing captured can go stale
    base = ctx.P.classes.get(ctx.cls_q("BaseDAGExecution"))
    r.require(base is not None, "executor base class not found")
    captured: Dict[str, Tuple[FuncInfo, ast.AST]] = {}
    for ci in ctx.P.subclasses(base.qualname):
        for mth in ci.methods.values():
            if mth.name not in ("__post_init__", "__init__"):
                continue
            for n in iter_own_nodes(mth.node):
                if isinstance(n, ast.Assign) and isinstance(n.targets[0], ast.Attribute) and dotted(n.targets[0].value) == "self":
                    srcs = set()
                    stack = [n.value]
                    seen = set()
                    while stack:
                        e = stack.pop()
                        for x in ast.walk(e):
                            if isinstance(x, ast.Attribute) and x.attr == "graph_ids":
                                srcs.add(norm_src(x))
                            if isinstance(x, ast.Name) and x.id not in seen:
                                seen.add(x.id)
                                for d in ctx.reaching_defs(mth, x.id, n):
                                    if isinstance(d, ast.Assign):
                                        stack.append(d.value)
                    if srcs:
                        captured[n.targets[0].attr] = (mth, n)
    r.ob(True, {"executor fields derived from the DAG's graph at construction": sorted(captured)})
    uses = []
    for ci in ctx.P.subclasses(base.qualname):
        for mth in ci.methods.values():
            if mth.name in ("__post_init__", "__init__"):
                continue
            for call, q in ctx.calls_in(mth):
                if q is None or q not in ctx.P.funcs or ctx.P.funcs[q].cls is None:
                    continue
                if not (isinstance(call.func, ast.Attribute) and norm_src(call.func.value) == "self.dag"):
                    continue
                for a in list(call.args) + [k.value for k in call.keywords]:
                    for x in ast.walk(a):
                        if isinstance(x, ast.Attribute) and dotted(x.value) == "self" and x.attr in captured:
                            uses.append((mth, call, x.attr, ctx.P.funcs[q]))
                            r.ob(False, {"in": mth.short, "hands": f"self.{x.attr}", "to": ctx.P.funcs[q].short})
    if uses:
        flds = sorted({u[2] for u in uses})
        mth, call = uses[0][0], uses[0][1]
        r.violate(f"executors: the graph captured when the executor was created (self.{', self.'.join(flds)}) is executed on the DAG's "
                  f"current nodes", mth.loc(call),
                  "dag.config_from_dict(...) after dag.executor(...) replaces the DAG's graph (new compound priorities) and nodes; the "
                  "executor then runs the new nodes (their new is_sequential, the new max_concurrency) in the order of the OLD compound "
                  "priorities", sorted({f"{u[0].short} -> {u[3].short}" for u in uses}))
    return r


def gt_execsetup(ctx: Ctx) -> RuleResult:
    """`executor.setup()` sets up the executor's OWN selection: the graph it reduces to setup nodes is (a copy of) the graph the
    executor derived when it was created - not a selection derived again from some of its fields (a cache_deps_of executor has
    target / exclude / root all None: re-deriving from them selects the whole DAG)."""
    r = RuleResult("GT-EXECSETUP")
    base = ctx.P.classes.get(ctx.cls_q("BaseDAGExecution"))
    r.require(base is not None, "executor base class not found")
    n = 0
    for ci in [base] + list(ctx.P.subclasses(base.qualname)):
        m = ci.methods.get("setup")
        if m is None:
            continue
        n += 1
        uses_own = any(isinstance(x, ast.Attribute) and x.attr == "graph" and dotted(x.value) == "self" for x in iter_own_nodes(m.node))
        rederive = [c for c in iter_own_nodes(m.node) if isinstance(c, ast.Call) and (dotted(c.func) or "").split(".")[-1] in ("make_subgraph", "_pre_setup", "setup")
                    and (dotted(c.func) or "").startswith("self.dag")]
        ok = uses_own and not rederive
        r.ob(ok, {"in": m.short, "reduces the executor's own graph": uses_own, "derives a selection again": [norm_src(c)[:80] for c in rederive]})
        if rederive:
            r.violate(f"{m.short}: the selection is derived again instead of taken from the executor's own graph", m.loc(rederive[0]),
                      "executor(cache_deps_of=[n]).setup() must run the setup nodes n depends on; derived again from target / exclude / "
                      "root (all None for such an executor) the selection is the whole DAG: every setup node runs", norm_src(rederive[0])[:120])
        elif not uses_own:
            raise Undecided(f"{m.short}: where the graph of the setup run comes from is not recognised")
    r.require(n >= 2, f"executor setup methods found: {n}")
    return r


def gt_gateexact(ctx: Ctx) -> RuleResult:
    """The debug gate returns the graph induced by exactly the nodes it computed: the selection (plus / minus debug nodes).

    The gate is the last step before the scheduler for every executor. Deriving its result with a closure-adding helper
    (`minimal_induced_subgraph` adds every ancestor of the listed nodes) silently widens a selection that is not ancestor-closed -
    a `root_nodes` executor then also runs the other ancestors of the root's dependents, setup nodes included."""
    r = RuleResult("GT-GATEEXACT")
    g = ctx.P.classes[graph_q(ctx)]
    gate = g.methods.get("extend_graph_with_debug_nodes")
    r.require(gate is not None, "debug gate not found")
    widening = ("minimal_induced_subgraph", "ancestors", "ancestors_of_iter", "descendants", "multiple_nodes_successors", "dfs_tree", "bfs_tree")
    derived = [n for n in iter_own_nodes(gate.node) if isinstance(n, ast.Call) and isinstance(n.func, ast.Attribute)
               and n.func.attr in ("subgraph", "induced_subgraph") + widening]
    grows = [n for n in iter_own_nodes(gate.node) if isinstance(n, ast.Call) and isinstance(n.func, ast.Attribute)
             and n.func.attr in ("add_edges_from", "add_edge", "add_nodes_from", "add_node", "add_weighted_edges_from", "update")
             and not (isinstance(n.func.value, ast.Attribute) and n.func.value.attr in ("tag", "debug", "setup", "compound_priority"))]
    for c in grows:
        r.ob(False, {"gate grows its result with": norm_src(c)[:100]})
        r.violate(f"DiGraphEx.extend_graph_with_debug_nodes: the result is grown with {c.func.attr}", gate.loc(c),
                  "adding an edge adds both its end points: the incoming edges of the selection's own leaves bring their unselected "
                  "predecessors into the graph (a root_nodes selection then runs nodes outside it, and differs between the two settings of "
                  "RUN_DEBUG_NODES)", norm_src(c)[:120])
    if grows:
        return r
    r.require(len(derived) >= 1, "gate: derivation of the returned graph not found")
    for c in derived:
        ok = c.func.attr in ("subgraph", "induced_subgraph")
        r.ob(ok, {"gate derives its result with": norm_src(c.func), "argument": norm_src(c.args[0]) if c.args else None})
        if not ok:
            r.violate(f"DiGraphEx.extend_graph_with_debug_nodes: the result is derived with {c.func.attr}, which adds nodes to the selection",
                      gate.loc(c), "executor(root_nodes=[r]) must run r and what depends on r; the other ancestors of those dependents "
                      "(setup nodes among them) are outside the selection and now run as well", norm_src(c))
    return r


def gt_stalegate(ctx: Ctx) -> RuleResult:
    """The debug gate is decided with the configuration that holds when the graph RUNS.

    A plain call applies the gate (RUN_DEBUG_NODES) at every call. An executor that applies it once, when it is created, and stores
    the gated graph, runs debug nodes after the flag was switched off (and skips them after it was switched on)."""
    r = RuleResult("GT-STALEGATE")
    g = ctx.P.classes[graph_q(ctx)]
    gate = g.methods.get("extend_graph_with_debug_nodes")
    r.require(gate is not None, "debug gate not found")
    sites = [(f, call) for f in ctx.funcs() for call, q in ctx.calls_in(f) if q == gate.qualname]
    r.require(len(sites) >= 3, f"only {len(sites)} applications of the debug gate found")
    for f, call in sites:
        at_init = f.cls is not None and f.name in ("__init__", "__post_init__")
        stored = None
        if at_init:
            st = None
            for n in iter_own_nodes(f.node):
                if isinstance(n, ast.Assign) and any(x is call for x in ast.walk(n.value)):
                    st = n
            if st is not None and isinstance(st.targets[0], ast.Attribute) and dotted(st.targets[0].value) == "self":
                stored = st.targets[0].attr
            elif st is not None and isinstance(st.targets[0], ast.Name):
                # through a local
                for n in iter_own_nodes(f.node):
                    if isinstance(n, ast.Assign) and isinstance(n.targets[0], ast.Attribute) and dotted(n.targets[0].value) == "self" \
                            and st.targets[0].id in names_in(n.value) and n.lineno > st.lineno:
                        stored = n.targets[0].attr
        r.ob(stored is None, {"gate applied in": f.short, "stored on the object at construction": stored})
        if stored is not None:
            r.violate(f"executors: the debug gate is applied when the executor is created (self.{stored}), not when it runs", f.loc(call),
                      "an executor created while RUN_DEBUG_NODES is on and run after it was switched off still executes the debug "
                      "nodes (a plain call at that moment does not); created while off and run while on it skips them all",
                      norm_src(call)[:100])
    return r


def gt_norecurse(ctx: Ctx) -> RuleResult:
    """No function of the package walks the dependency graph by recursing along its edges.

    A DAG may hold dependency paths longer than the interpreter's recursion limit (a 1500-node chain builds and runs); a helper
    that calls itself once per edge of such a path raises RecursionError - the walk must use an explicit work list (or networkx)."""
    from .ref import control_funcs, pkg_funcs

    r = RuleResult("GT-NORECURSE")
    edge_attrs = {"predecessors", "successors", "dependencies", "pred", "succ", "neighbors"}

    def walks(funcs):
        """(function, self-calls inside its loops over graph edges) for every function that iterates over graph edges."""
        for f in funcs:
            loops = [n for n in iter_own_nodes(f.node) if isinstance(n, (ast.For, ast.While, ast.ListComp, ast.SetComp, ast.GeneratorExp, ast.DictComp))]
            along = []
            for lp in loops:
                srcs = [lp.iter] if isinstance(lp, ast.For) else ([g.iter for g in lp.generators] if not isinstance(lp, ast.While) else [lp])
                hit = False
                for src in srcs:
                    for x in ast.walk(src):
                        if isinstance(x, ast.Attribute) and x.attr in edge_attrs:
                            hit = True
                        if isinstance(x, ast.Name):
                            for d in (ctx.reaching_defs(f, x.id, src) if isinstance(lp, ast.For) else []):
                                if isinstance(d, ast.Assign) and any(isinstance(y, ast.Attribute) and y.attr in edge_attrs for y in ast.walk(d.value)):
                                    hit = True
                if hit:
                    along.append(lp)
            if not along:
                continue
            selfcalls = [c for lp in along for c in ast.walk(lp) if isinstance(c, ast.Call) and isinstance(c.func, ast.Name) and c.func.id == f.name
                         or (isinstance(c, ast.Call) and isinstance(c.func, ast.Attribute) and c.func.attr == f.name and dotted(c.func.value) == "self"
                             and f.cls is not None)]
            yield f, selfcalls

    cf = control_funcs(ctx)
    if cf:
        r.require(any(sc for _, sc in walks(cf)), "positive control for GT-NORECURSE did not match")
    n_walks = 0
    for f, selfcalls in walks(pkg_funcs(ctx)):
        n_walks += 1
        r.ob(not selfcalls, {"walk along graph edges in": f.short, "recursive": bool(selfcalls)})
        if selfcalls:
            r.violate(f"{f.short}: the dependency graph is walked by recursion along its edges", f.loc(selfcalls[0]),
                      "one Python frame per edge of a dependency path: a chain longer than the recursion limit (about 1000 nodes), which the "
                      "library builds and runs, raises RecursionError here", norm_src(selfcalls[0]))
    r.require(n_walks >= 3, f"functions iterating over graph edges: {n_walks} found")
    return r


# --------------------------------------------------------------------------------------------- GT-CYCLE
def gt_cycle(ctx: Ctx) -> RuleResult:
    r = RuleResult("GT-CYCLE")
    g = ctx.P.classes[graph_q(ctx)]
    fe = g.methods.get("from_exec_nodes")
    r.require(fe is not None, "from_exec_nodes not found")
    found = False
    for n in iter_own_nodes(fe.node):
        if isinstance(n, ast.Try):
            calls = [x for s in n.body for x in ast.walk(s) if isinstance(x, ast.Call) and (dotted(x.func) or "").endswith("find_cycle")]
            # the rejection is the last statement of the try body, or its else arm (run exactly when find_cycle returned)
            raises = [s for s in n.body if isinstance(s, ast.Raise)] + [s for s in n.orelse if isinstance(s, ast.Raise)]
            handlers = [h for h in n.handlers if h.type is not None and "NoCycle" in ast.unparse(h.type)]
            if calls:
                found = True
                # the search covers the WHOLE graph: networkx's find_cycle(G, source=..) only explores what is reachable from the
                # given sources - a cycle has no root inside it, so a search started at the roots misses a cycle no root leads to
                for c_ in calls:
                    src_ = c_.args[1] if len(c_.args) > 1 else next((k.value for k in c_.keywords if k.arg == "source"), None)
                    whole = src_ is None or (isinstance(src_, ast.Constant) and src_.value is None)
                    r.ob(whole, {"cycle search restricted to": None if whole else norm_src(src_)})
                    if not whole:
                        r.violate("DiGraphEx.from_exec_nodes: the cycle search only explores what is reachable from given sources", fe.loc(c_),
                                  "a cycle that no explored source leads to is accepted at build time: the DAG can be called and the scheduler "
                                  "then spins forever (graph not empty, nothing runnable, nothing in flight)", norm_src(c_))
                ok = bool(raises) and bool(handlers) and all(isinstance(b, ast.Pass) for h in handlers for b in h.body) \
                    and len(n.handlers) == len(handlers)
                r.ob(ok, {"cycle test": "find_cycle -> raise; only NetworkXNoCycle is swallowed"})
                if not raises:
                    r.violate("DiGraphEx.from_exec_nodes: a found cycle is not rejected", fe.loc(n),
                              "a cyclic dependency must raise at build time, otherwise the scheduler never terminates", None)
                elif not ok:
                    r.violate("DiGraphEx.from_exec_nodes: the cycle error can be swallowed", fe.loc(n),
                              "a handler other than 'no cycle found' encloses the raise", [ast.unparse(h.type) if h.type else "bare" for h in n.handlers])
    for n in iter_own_nodes(fe.node):
        if isinstance(n, ast.If) and "is_directed_acyclic_graph" in ast.unparse(n.test) and any(isinstance(b, ast.Raise) for b in n.body):
            found = True
            r.ob(True, {"cycle test": "is_directed_acyclic_graph"})
    if not found:
        r.ob(False)
        r.violate("DiGraphEx.from_exec_nodes: no cycle test on graph construction", fe.loc(),
                  "cycles are not rejected at build time: the scheduler would wait forever with an empty runnable set", None)
        return r
    # every DAG graph is built through from_exec_nodes
    n_build = 0
    for f in ctx.funcs():
        for n in iter_own_nodes(f.node):
            if isinstance(n, ast.Assign) and isinstance(n.targets[0], ast.Attribute) and n.targets[0].attr == "graph_ids":
                n_build += 1
                ok = isinstance(n.value, ast.Call) and (dotted(n.value.func) or "").endswith("from_exec_nodes")
                r.ob(ok, {"graph_ids built in": f.short, "by": norm_src(n.value)})
                if not ok:
                    r.violate(f"{f.short}: graph_ids built without from_exec_nodes", f.loc(n), "no cycle test", norm_src(n))
    r.require(n_build >= 2, "graph_ids constructions not found")
    return r


# --------------------------------------------------------------------------------------------- GT-SELECT
def gt_select(ctx: Ctx) -> RuleResult:
    r = RuleResult("GT-SELECT")
    g = ctx.P.classes[graph_q(ctx)]
    f = g.methods.get("make_subgraph")
    r.require(f is not None, "make_subgraph not found")
    params = [a.arg for a in f.node.args.args[1:]]
    role = {}
    for p in params:
        for k in ("target", "exclude", "root"):
            if k in p:
                role[k] = p
    r.require(len(role) == 3, f"make_subgraph parameters not recognised: {params}")
    steps: Dict[str, ast.If] = {}
    order = []
    for s in f.node.body:
        if isinstance(s, ast.If):
            t = norm_src(s.test)
            for k, p in role.items():
                if t in (f"{p} is not None", f"{p} != None"):
                    steps[k] = s
                    order.append(k)
                elif t in (p, f"len({p}) > 0", f"len({p})") or (p in names_in(s.test) and k not in steps):
                    if (t == p or t.startswith("len(")) and k == "exclude":
                        steps[k] = s  # an empty exclusion excludes nothing, exactly like an absent one
                        order.append(k)
                    elif t == p or t.startswith("len("):
                        r.ob(False)
                        r.violate(f"DiGraphEx.make_subgraph: step '{k}' guarded by truthiness of {p}", f.loc(s),
                                  "an explicitly empty selection must select nothing, not everything ('is not None' is the "
                                  "documented presence test)", t)
                        steps[k] = s
                        order.append(k)
    r.require(set(steps) == {"target", "exclude", "root"}, f"make_subgraph: steps found {sorted(steps)}")
    ok = order == ["root", "exclude", "target"]
    r.ob(ok, {"order of the three steps": order})
    if not ok:
        r.violate(f"DiGraphEx.make_subgraph: steps applied in order {order}", f.loc(), "documented order: roots -> descendants, "
                  "exclude -> minus descendants, targets -> ancestors; another order selects a different node set", order)
    # the working copy
    first = f.node.body[0]
    docfirst = first if not (isinstance(first, ast.Expr) and isinstance(first.value, ast.Constant)) else f.node.body[1]
    okc = isinstance(docfirst, ast.Assign) and isinstance(docfirst.value, ast.Call) and dotted(docfirst.value.func) == "deepcopy" \
        and dotted(docfirst.value.args[0]) == "self"
    r.ob(okc, {"works on": norm_src(docfirst)})
    if not okc:
        raise Undecided("make_subgraph: does not start from deepcopy(self)")
    gv = dotted(docfirst.targets[0])
    # --- roots: validation + descendants closure (including the roots)
    rs = steps["root"]
    val = [s for s in rs.body if isinstance(s, ast.If) and any(isinstance(b, ast.Raise) for b in s.body)]
    r.ob(len(val) == 1, {"root validation present": len(val) == 1})
    if not val:
        r.violate("DiGraphEx.make_subgraph: non-root in root_nodes is not refused", f.loc(rs), "ValueError expected", None)
    else:
        t = val[0].test
        okv = _is_not_subset_test(t, role["root"])
        r.ob(okv is True, {"root validation": norm_src(t)})
        if okv is False:
            r.violate("DiGraphEx.make_subgraph: root validation is weaker than 'every given node is a root'", f.loc(val[0]),
                      "a non-root next to a real root is accepted: it runs with None in place of inputs that lie outside the selection",
                      norm_src(t))
        elif okv is None:
            raise Undecided("make_subgraph: root validation form not recognised: " + norm_src(t))
        rz = [b for b in val[0].body if isinstance(b, ast.Raise)]
        okr = rz and isinstance(rz[0].exc, ast.Call) and dotted(rz[0].exc.func) == "ValueError"
        r.ob(bool(okr), {"raises": norm_src(rz[0].exc) [:40] if rz else None})
    clos = _closure_calls(rs)
    okcl = any(c == ("multiple_nodes_successors", role["root"]) for c in clos)
    r.ob(okcl, {"roots closure": clos})
    if not okcl:
        backwards = [c for c in clos if c[0] in ("ancestors", "ancestors_of_iter", "predecessors", "minimal_induced_subgraph")]
        wrong_arg = [c for c in clos if c[0] == "multiple_nodes_successors" and c[1] != role["root"]]
        trees = [n_ for st_ in rs.body for n_ in ast.walk(st_) if isinstance(n_, ast.Call)
                 and (dotted(n_.func) or "").split(".")[-1] in ("dfs_tree", "bfs_tree", "dfs_edges", "bfs_edges", "dfs_successors", "bfs_successors")]
        if backwards or wrong_arg:
            r.violate("DiGraphEx.make_subgraph: roots step does not keep 'roots and everything depending on them'", f.loc(rs),
                      f"closure used: {clos}", clos)
        elif trees:
            r.violate("DiGraphEx.make_subgraph: the roots step rebuilds the graph from search trees", f.loc(trees[0]),
                      "a search tree keeps the nodes reachable from the root but only the tree edges: the second parent of a join is "
                      "lost, so the exclusion and target steps that follow compute descendants / ancestors on the wrong edges "
                      "(a target loses an ancestor and runs with None, an excluded node's dependents still run)", norm_src(trees[0]))
        else:
            raise Undecided("make_subgraph: roots closure not recognised")
    # --- exclude: remove the descendants closure (including the excluded nodes), as one set
    xs = steps["exclude"]
    loops = [s for s in xs.body if isinstance(s, (ast.For, ast.While))]
    rem = [n for s in xs.body for n in ast.walk(s) if isinstance(n, ast.Call) and isinstance(n.func, ast.Attribute)
           and n.func.attr.startswith("remove")]
    okx = len(rem) == 1 and rem[0].func.attr == "remove_nodes_from" and dotted(rem[0].func.value) == gv and not loops \
        and rem[0].args and isinstance(rem[0].args[0], ast.Call) and isinstance(rem[0].args[0].func, ast.Attribute) \
        and rem[0].args[0].func.attr == "multiple_nodes_successors" and dotted(rem[0].args[0].args[0]) == role["exclude"]
    if not okx and len(loops) == 1 and isinstance(loops[0], ast.For) and isinstance(loops[0].iter, ast.Call) \
            and isinstance(loops[0].iter.func, ast.Attribute) and loops[0].iter.func.attr == "multiple_nodes_successors" \
            and dotted(loops[0].iter.args[0]) == role["exclude"] and len(rem) == 1 and rem[0].func.attr == "remove_node" \
            and dotted(rem[0].args[0]) == dotted(loops[0].target):
        okx = True  # the closure is computed once (a set), then its nodes are removed one by one
    r.ob(okx, {"exclusion": [norm_src(x) for x in rem]})
    if not okx:
        per_item_closure = loops and rem and dotted(getattr(loops[0], "iter", None)) == role["exclude"] and any(
            x.func.attr in ("remove_recursively",) or "successors" in norm_src(x) for x in rem)
        if loops and rem and not per_item_closure:
            raise Undecided("make_subgraph: exclusion implemented by a loop that is not modelled")
        if loops and rem:
            guarded = any(isinstance(n, ast.If) and any(isinstance(o, (ast.In, ast.NotIn)) for c in ast.walk(n.test)
                                                        if isinstance(c, ast.Compare) for o in c.ops) for l in loops for n in ast.walk(l))
            if not guarded:
                r.violate("DiGraphEx.make_subgraph: exclusion removes closures one node at a time without a membership guard", f.loc(loops[0]),
                          "a node listed after one of its ancestors (or twice, through two aliases) is already gone when its turn "
                          "comes: the per-node removal raises instead of producing the documented closure", norm_src(loops[0]))
            else:
                raise Undecided("make_subgraph: per-node exclusion with a guard (not modelled)")
        elif rem:
            r.violate("DiGraphEx.make_subgraph: exclusion does not remove 'the excluded nodes and everything depending on them'",
                      f.loc(xs), f"found {[norm_src(x) for x in rem]}", None)
        else:
            r.violate("DiGraphEx.make_subgraph: exclude step removes nothing", f.loc(xs), "", None)
    # --- targets: ancestors closure plus the targets, unknown target refused
    ts = steps["target"]
    mis = [n for s in ts.body for n in ast.walk(s) if isinstance(n, ast.Call) and isinstance(n.func, ast.Attribute)
           and n.func.attr == "minimal_induced_subgraph"]
    okt = len(mis) == 1 and dotted(mis[0].args[0]) == role["target"]
    r.ob(okt, {"targets closure": [norm_src(x) for x in mis]})
    if not okt:
        raise Undecided("make_subgraph: targets step not recognised")
    mi = g.methods.get("minimal_induced_subgraph")
    r.require(mi is not None, "minimal_induced_subgraph not found")
    np_ = mi.node.args.args[1].arg
    chk = [s for s in mi.node.body if isinstance(s, ast.If) and any(isinstance(b, ast.Raise) for b in s.body)]
    if len(chk) == 1 and isinstance(chk[0].test, ast.Name):
        # `unknown = [n for n in nodes if n not in self.nodes]` / `if unknown: raise`: truthiness of the list of absent targets
        dfn = [n for n in mi.node.body if isinstance(n, (ast.Assign, ast.AnnAssign))
               and dotted(n.targets[0] if isinstance(n, ast.Assign) else n.target) == chk[0].test.id]
        if len(dfn) == 1 and isinstance(dfn[0].value, (ast.ListComp, ast.SetComp)) and dfn[0].value.generators[0].ifs \
                and "not in" in norm_src(dfn[0].value.generators[0].ifs[0]) and dotted(dfn[0].value.generators[0].iter) == np_:
            chk = [ast.copy_location(ast.If(test=ast.Call(func=ast.Name(id="any", ctx=ast.Load()), args=[dfn[0].value], keywords=[]),
                                            body=chk[0].body, orelse=[]), chk[0])]
            ast.fix_missing_locations(chk[0])
    okchk = len(chk) == 1 and ("not in" in norm_src(chk[0].test)) and "any(" in norm_src(chk[0].test)
    r.ob(okchk, {"absent target refused": norm_src(chk[0].test) if chk else None})
    if not chk:
        r.violate("DiGraphEx.minimal_induced_subgraph: absent target not refused", mi.loc(), "a target removed by the exclusion must raise ValueError", None)
    elif not okchk:
        if "all(" in norm_src(chk[0].test):
            r.violate("DiGraphEx.minimal_induced_subgraph: refuses only when ALL targets are absent", mi.loc(chk[0]), "", norm_src(chk[0].test))
        else:
            raise Undecided("minimal_induced_subgraph: validation form not recognised")
    ind = [n for n in iter_own_nodes(mi.node) if isinstance(n, ast.Call) and (dotted(n.func) or "").endswith("induced_subgraph")]
    r.require(len(ind) == 1, "minimal_induced_subgraph: induced_subgraph call not found")
    setarg = ind[0].args[1] if len(ind[0].args) > 1 else None
    # the ancestor closure of the targets: the one name assigned from ancestors_of_iter(<targets>)
    anc = [n for n in iter_own_nodes(mi.node) if isinstance(n, ast.Assign) and isinstance(n.targets[0], ast.Name)
           and isinstance(n.value, ast.Call) and isinstance(n.value.func, ast.Attribute) and n.value.func.attr == "ancestors_of_iter"]
    okanc = len(anc) == 1 and bool(anc[0].value.args) and dotted(anc[0].value.args[0]) == np_
    anc_name = anc[0].targets[0].id if anc else "<ancestors>"
    oks = isinstance(setarg, ast.BinOp) and isinstance(setarg.op, ast.BitOr) and \
        {norm_src(setarg.left), norm_src(setarg.right)} == {anc_name, f"set({np_})"}
    r.ob(bool(oks and okanc), {"kept": norm_src(setarg) if setarg is not None else None})
    if setarg is not None and not oks:
        if isinstance(setarg, ast.Name) or (isinstance(setarg, ast.Call)):
            r.violate("DiGraphEx.minimal_induced_subgraph: keeps the ancestors without the targets (or the reverse)", mi.loc(ind[0]),
                      "the selection must be 'the targets and their ancestors'", norm_src(setarg))
        else:
            raise Undecided("minimal_induced_subgraph: kept set not recognised")
    # closure primitives
    ai = g.methods.get("ancestors_of_iter")
    ss = g.methods.get("single_node_successors")
    ms = g.methods.get("multiple_nodes_successors")
    r.require(ai and ss and ms, "closure primitives not found")
    def _refs(fn_, names) -> bool:
        """The function mentions one of the primitives - called, or handed to map / partial as a value."""
        return any((isinstance(n, ast.Attribute) and n.attr in names) or (isinstance(n, ast.Name) and n.id in names) for n in iter_own_nodes(fn_.node))
    oka = _refs(ai, ("ancestors",)) and not _refs(ai, ("descendants", "successors", "dfs_tree", "bfs_tree"))
    okd = any(isinstance(n, ast.Call) and (dotted(n.func) or "").split(".")[-1] in ("dfs_tree", "descendants", "bfs_tree")
              for n in iter_own_nodes(ss.node)) and not any(
        isinstance(n, ast.Call) and (dotted(n.func) or "").split(".")[-1] in ("ancestors", "reverse", "predecessors") for n in iter_own_nodes(ss.node))
    okm = _refs(ms, ("single_node_successors",))
    r.ob(oka, {"ancestors_of_iter uses nx.ancestors": oka})
    r.ob(okd, {"single_node_successors is a forward closure including the node": okd})
    r.ob(okm, {"multiple_nodes_successors unions single_node_successors": okm})
    if not oka and not _refs(ai, ("descendants", "successors", "dfs_tree", "bfs_tree", "predecessors")):
        raise Undecided("DiGraphEx.ancestors_of_iter: closure primitive not recognised")
    if not oka:
        r.violate("DiGraphEx.ancestors_of_iter: not the ancestor closure", ai.loc(), "", None)
    if not okd:
        r.violate("DiGraphEx.single_node_successors: not the descendant closure", ss.loc(), "", None)
    if okd and any(isinstance(n, ast.Call) and (dotted(n.func) or "").endswith("descendants") for n in iter_own_nodes(ss.node)):
        src = ast.unparse(ss.node)
        if "node_id]" not in src and "[node_id" not in src and "{node_id" not in src:
            r.violate("DiGraphEx.single_node_successors: closure does not include the node itself", ss.loc(), "", None)
    return r


def _is_not_subset_test(t: ast.AST, p: str) -> Optional[bool]:
    """True: test is 'not every element of p is a root'; False: recognised weaker test; None: unknown."""
    s = norm_src(t)
    if isinstance(t, ast.UnaryOp) and isinstance(t.op, ast.Not) and isinstance(t.operand, ast.Call) \
            and isinstance(t.operand.func, ast.Attribute):
        c = t.operand
        if c.func.attr == "issubset" and p in names_in(c.func.value) and "root_nodes" in norm_src(c.args[0]):
            return True
        if c.func.attr == "issuperset" and "root_nodes" in norm_src(c.func.value) and p in names_in(c.args[0]):
            return True
        if c.func.attr in ("issubset", "issuperset"):
            return False
    if isinstance(t, ast.Call) and isinstance(t.func, ast.Attribute) and t.func.attr == "isdisjoint":
        return False
    if isinstance(t, ast.UnaryOp) and isinstance(t.op, ast.Not) and isinstance(t.operand, ast.Call) and isinstance(t.operand.func, ast.Attribute) \
            and t.operand.func.attr == "intersection":
        return False
    if isinstance(t, ast.Call) and dotted(t.func) == "any" and "not in" in s and "root_nodes" in s:
        return True
    if isinstance(t, ast.Call) and dotted(t.func) == "all" and "not in" in s:
        return False
    if isinstance(t, ast.BinOp) and isinstance(t.op, ast.Sub) and p in names_in(t.left) and "root_nodes" in norm_src(t.right):
        return True
    if isinstance(t, ast.Compare) and len(t.ops) == 1 and isinstance(t.ops[0], (ast.LtE,)) and p in names_in(t.left):
        return False
    if isinstance(t, ast.UnaryOp) and isinstance(t.op, ast.Not) and isinstance(t.operand, ast.Compare) and \
            isinstance(t.operand.ops[0], ast.LtE) and p in names_in(t.operand.left) and "root_nodes" in norm_src(t.operand.comparators[0]):
        return True
    return None


def _closure_calls(step: ast.If) -> List[Tuple[str, Optional[str]]]:
    out = []
    for s in step.body:
        for n in ast.walk(s):
            if isinstance(n, ast.Call) and isinstance(n.func, ast.Attribute) and n.func.attr in (
                    "multiple_nodes_successors", "single_node_successors", "ancestors_of_iter", "minimal_induced_subgraph",
                    "successors", "predecessors") or (isinstance(n, ast.Call) and (dotted(n.func) or "").split(".")[-1] in ("descendants", "ancestors", "dfs_tree")):
                fn = n.func.attr if isinstance(n.func, ast.Attribute) else dotted(n.func)
                out.append((fn, dotted(n.args[0]) if n.args else None))
    return out


# --------------------------------------------------------------------------------------------- GT-ALIAS
def gt_alias(ctx: Ctx) -> RuleResult:
    r = RuleResult("GT-ALIAS")
    f = ctx.method("BaseDAG", "alias_to_ids")
    p = f.node.args.args[1].arg
    tops = [s for s in f.node.body if isinstance(s, ast.If)]
    r.require(len(tops) >= 2, "alias_to_ids: branches not recognised")
    # 1. node reference
    t0 = norm_src(tops[0].test)
    ok0 = t0 == f"isinstance({p}, ExecNode)"
    r.ob(ok0, {"first branch": t0})
    if not ok0:
        raise Undecided("alias_to_ids: first branch is not the node-reference case")
    foreign = [s for s in tops[0].body if isinstance(s, ast.If) and any(isinstance(b, ast.Raise) for b in s.body)]
    okf = len(foreign) == 1 and norm_src(foreign[0].test) == f"{p}.id not in self.exec_nodes" and \
        "ValueError" in norm_src(foreign[0].body[0])
    r.ob(okf, {"foreign node refused": norm_src(foreign[0].test) if foreign else None})
    if not foreign:
        r.violate("BaseDAG.alias_to_ids: a node of another DAG is not refused", f.loc(tops[0]), "ValueError expected", None)
    elif not okf:
        raise Undecided("alias_to_ids: foreign-node test not recognised")
    # 2. tag before id, unknown refused
    b = tops[1]
    tag_i = id_i = None
    for i, s in enumerate(b.body):
        src = norm_src(s)
        if "get_tagged_nodes" in src and tag_i is None:
            tag_i = i
        if isinstance(s, ast.If) and f"{p} in self.exec_nodes" in norm_src(s.test) and id_i is None:
            id_i = i
    r.require(tag_i is not None and id_i is not None, "alias_to_ids: tag / id resolution not recognised")
    tag_ret = next((i for i, s in enumerate(b.body) if i > tag_i and isinstance(s, ast.If) and any(isinstance(x, ast.Return) for x in s.body)), None)
    ok1 = tag_ret is not None and tag_ret < id_i
    r.ob(ok1, {"tag resolved before id": ok1})
    if not ok1:
        r.violate("BaseDAG.alias_to_ids: id is tried before tag", f.loc(b), "documented: a tag wins over an id of the same value", None)
    # the id branch is taken only for an id the DAG holds: membership must be a conjunct of its test, not an alternative
    idt = b.body[id_i].test
    conj = idt.values if isinstance(idt, ast.BoolOp) and isinstance(idt.op, ast.And) else [idt]
    member = any(norm_src(c_) == f"{p} in self.exec_nodes" for c_ in conj)
    r.ob(member, {"id branch requires": norm_src(idt)})
    if not member:
        r.violate("BaseDAG.alias_to_ids: the id branch does not require the id to be a node of the DAG", f.loc(b.body[id_i]),
                  "an unknown string alias is taken for an id: the selection fails with KeyError (or silently selects nothing) instead of "
                  "the documented ValueError", norm_src(idt))
    raises = [s for s in b.body if isinstance(s, ast.Raise)]
    ok2 = bool(raises) and "ValueError" in norm_src(raises[-1]) and b.body.index(raises[-1]) > id_i
    r.ob(ok2, {"unknown alias refused": ok2})
    if not raises:
        r.violate("BaseDAG.alias_to_ids: unknown alias not refused", f.loc(b), "ValueError expected", None)
    # multiple-alias helper chains alias_to_ids
    gm = ctx.method("BaseDAG", "get_multiple_nodes_aliases")
    ok3 = any(q == f.qualname for _, q in ctx.calls_in(gm))
    r.ob(ok3, {"get_multiple_nodes_aliases resolves every alias": ok3})
    # ... and keeps every id of every alias: no loop of the helper is left early
    early = [n for n in iter_own_nodes(gm.node) if isinstance(n, (ast.Break,))] + \
        [n for lp in iter_own_nodes(gm.node) if isinstance(lp, (ast.For, ast.While)) for n in own_walk(lp) if isinstance(n, ast.Return)]
    r.ob(not early, {"get_multiple_nodes_aliases keeps every id (no early exit from its loops)": not early})
    if early:
        r.violate("BaseDAG.get_multiple_nodes_aliases: a loop over the resolved ids is left early", gm.loc(early[0]),
                  "the ids an alias resolves to after the point of exit are dropped: with a tag naming several nodes (or a node named twice) "
                  "part of the selection is silently lost - excluded nodes run, targeted nodes do not", norm_src(early[0]))
    return r


# --------------------------------------------------------------------------------------------- GT-GATE / GT-DEBUGINC
def gt_gate(ctx: Ctx) -> RuleResult:
    from .sch import model

    r = RuleResult("GT-GATE")
    m = model(ctx)
    g = ctx.P.classes[graph_q(ctx)]
    gate = g.methods.get("extend_graph_with_debug_nodes")
    r.require(gate is not None, "debug gate not found")
    # --- entries into the scheduler and the origin of their graph
    entries = []
    sched_like = {m.fn.qualname} | {q for q in ctx.P.funcs if _forwards_to(ctx, q, m.fn.qualname) and ctx.P.funcs[q].cls is None}
    run_sub = [f for f in ctx.funcs() if f.name == "run_subgraph"]
    for f in ctx.funcs():
        for call, q in ctx.calls_in(f):
            if q in sched_like:
                a = arg_for_param(ctx.P.funcs[q].node, call, m.G)
                if a is not None:
                    entries.append((f, call, a, "scheduler"))
            elif q in {x.qualname for x in run_sub}:
                a = arg_for_param(ctx.P.funcs[q].node, call, ctx.P.funcs[q].node.args.args[1].arg, skip_self=True)
                if a is not None:
                    entries.append((f, call, a, "run_subgraph"))
    r.require(len(entries) >= 6, f"only {len(entries)} entries found")
    for f, call, a, kind in entries:
        origin = _graph_origin(ctx, f, a)
        parts = origin[len("mixed:"):].split(",") if origin.startswith("mixed:") else [origin]
        ok = all(x in ("gate", "setup-only", "param", "gated-field") for x in parts)
        r.ob(ok, {"entry": f.short, "graph": norm_src(a), "origin": origin})
        if not ok:
            r.violate(f"{f.short}: graph reaches the scheduler without the debug gate: {norm_src(a)}", f.loc(call),
                      "every graph handed to the scheduler must come from extend_graph_with_debug_nodes or from the setup-only "
                      "filter; otherwise debug nodes run with RUN_DEBUG_NODES off", origin)
    # --- the gate itself
    ifs = [s for s in gate.node.body if isinstance(s, ast.If)]
    flag_ok = len(ifs) == 1 and "RUN_DEBUG_NODES" in norm_src(ifs[0].test)
    if len(ifs) == 1 and not flag_ok:
        # the flag handed in as a parameter: every caller passes the configuration's RUN_DEBUG_NODES for it
        t_ = ifs[0].test.operand if isinstance(ifs[0].test, ast.UnaryOp) and isinstance(ifs[0].test.op, ast.Not) else ifs[0].test
        pnames = [x.arg for x in gate.node.args.posonlyargs + gate.node.args.args + gate.node.args.kwonlyargs]
        if isinstance(t_, ast.Name) and t_.id in pnames:
            callers = ctx.callers_of(gate.qualname)
            vals = [arg_for_param(gate.node, c_, t_.id, skip_self=True) for _, c_ in callers]
            flag_ok = bool(callers) and all(v_ is not None and "RUN_DEBUG_NODES" in norm_src(v_) for v_ in vals)
    r.require(flag_ok, "gate: flag test not recognised")
    flag_if = ifs[0]
    neg = isinstance(flag_if.test, ast.UnaryOp)
    on, off = (flag_if.orelse, flag_if.body) if neg else (flag_if.body, flag_if.orelse)
    offsrc = " ".join(norm_src(s) for s in off)
    ok_off = "debug_nodes" in offsrc and " - " in offsrc
    r.ob(ok_off, {"flag off": offsrc})
    if not ok_off:
        r.violate("DiGraphEx.extend_graph_with_debug_nodes: flag-off arm does not subtract the debug nodes", gate.loc(flag_if),
                  "with RUN_DEBUG_NODES off no debug node may be part of the executed graph", offsrc)
    onsrc = " ".join(norm_src(s) for s in on)
    ok_on = "include_debug_nodes" in onsrc and "debug_nodes" not in onsrc.replace("include_debug_nodes", "")
    r.ob("include_debug_nodes" in onsrc, {"flag on": onsrc})
    if "include_debug_nodes" not in onsrc:
        if " - " in onsrc and "debug_nodes" in onsrc:
            r.violate("DiGraphEx.extend_graph_with_debug_nodes: the flag test is inverted", gate.loc(flag_if), "", onsrc)
        else:
            raise Undecided("gate: flag-on arm not recognised")
    return r


def _callee_of(ctx: Ctx, f: FuncInfo, call: ast.Call) -> Optional[str]:
    for c, q in ctx.calls_in(f):
        if c is call:
            return q
    return None


def _mix(kinds) -> str:
    flat: Set[str] = set()
    for k in kinds:
        flat |= set(k[len("mixed:"):].split(",")) if k.startswith("mixed:") else {k}
    return flat.pop() if len(flat) == 1 else "mixed:" + ",".join(sorted(flat))


def _graph_origin(ctx: Ctx, f: FuncInfo, a: ast.AST, depth: int = 0) -> str:
    if isinstance(a, ast.Call) and dotted(a.func) in ("deepcopy", "copy") and a.args:
        return _graph_origin(ctx, f, a.args[0], depth)
    if isinstance(a, ast.Call) and isinstance(a.func, ast.Attribute):
        if a.func.attr == "extend_graph_with_debug_nodes":
            return "gate"
        q = _callee_of(ctx, f, a)
        if q is not None and q in _setup_filter_funcs(ctx):
            return "setup-only"
        if _is_setup_restriction(ctx, f, a):
            return "setup-only"
        if a.func.attr == "_pre_setup":
            return "unfiltered _pre_setup"
    if isinstance(a, ast.Name):
        # filtered down to the setup nodes in this very function (a filter written, or expanded, in place)
        if _filters_in_place(f, a.id):
            return "setup-only"
        cp = [n for n in ctx.reaching_defs(f, a.id, a) if isinstance(n, ast.Assign)]
        if cp and depth < 3 and all(isinstance(n.value, ast.Name) and isinstance(n.targets[0], ast.Name) for n in cp) \
                and all(_filters_in_place(f, n.value.id) for n in cp):
            return "setup-only"
        params = [x.arg for x in f.node.args.posonlyargs + f.node.args.args + f.node.args.kwonlyargs]
        asg = [n for n in ctx.reaching_defs(f, a.id, a) if isinstance(n, ast.Assign)]
        if asg and depth < 3:
            kinds_ = []
            for n in asg:
                tg = n.targets[0]
                v_ = n.value.value if isinstance(n.value, ast.Await) else n.value
                if isinstance(tg, (ast.Tuple, ast.List)) and isinstance(v_, ast.Call):
                    # `g, r = self.helper()`: the element of the helper's returned tuple at the position of the name
                    pos = next((i for i, t in enumerate(tg.elts) if isinstance(t, ast.Name) and t.id == a.id), None)
                    q_ = _callee_of(ctx, f, v_)
                    g_ = ctx.P.funcs.get(q_) if q_ else None
                    rets_ = [x for x in iter_own_nodes(g_.node) if isinstance(x, ast.Return) and x.value is not None] if g_ is not None else []
                    if pos is not None and rets_ and all(isinstance(x.value, ast.Tuple) and len(x.value.elts) == len(tg.elts) for x in rets_):
                        kinds_.append(_mix(_graph_origin(ctx, g_, x.value.elts[pos], depth + 1) for x in rets_))
                        continue
                kinds_.append(_graph_origin(ctx, f, n.value, depth + 1))
            return _mix(kinds_)
        if a.id in params:
            # a parameter: every caller must hand in the same kind of graph
            callers = ctx.callers_of(f.qualname)
            if callers and depth < 3:
                kinds = set()
                for cf, call in callers:
                    x = arg_for_param(f.node, call, a.id, skip_self=f.cls is not None)
                    kinds.add("param" if x is None else _graph_origin(ctx, cf, x, depth + 1))
                return _mix(kinds)
            return "param"
    if isinstance(a, ast.Attribute) and dotted(a.value) == "self":
        # a field: every assignment of it in the class must come from the gate
        cls = f.cls
        if cls is not None:
            srcs = []
            for ci in ctx.P.mro(cls):
                for mth in ci.methods.values():
                    for n in iter_own_nodes(mth.node):
                        if isinstance(n, ast.Assign) and isinstance(n.targets[0], ast.Attribute) and n.targets[0].attr == a.attr \
                                and dotted(n.targets[0].value) == "self":
                            srcs.append(_graph_origin(ctx, mth, n.value, depth + 1))
            if srcs and all(s == "gate" for s in srcs):
                return "gated-field"
            return "field:" + ",".join(sorted(set(srcs)))
    return "other:" + norm_src(a)


def _filters_in_place(fn: FuncInfo, gname: str) -> bool:
    """fn removes from the graph named gname every node of THAT graph that is not a setup node."""
    single: Dict[str, ast.AST] = {}
    for n in iter_own_nodes(fn.node):
        if isinstance(n, (ast.Assign, ast.AnnAssign)):
            tg = n.targets[0] if isinstance(n, ast.Assign) else n.target
            if isinstance(tg, ast.Name) and n.value is not None:
                single[tg.id] = n.value if tg.id not in single else None  # type: ignore[assignment]
    # names that hold the set of setup nodes: x = [frozen]set(<...>.setup_nodes) / x = <...>.setup_nodes
    setup_sets = {"setup_nodes"}
    for nm, v in single.items():
        if v is None:
            continue
        core = v.args[0] if isinstance(v, ast.Call) and dotted(v.func) in ("set", "frozenset", "list", "tuple") and len(v.args) == 1 else v
        if isinstance(core, ast.Attribute) and core.attr == "setup_nodes":
            setup_sets.add(nm)
    for n in iter_own_nodes(fn.node):
        if isinstance(n, ast.Call) and isinstance(n.func, ast.Attribute) and n.func.attr == "remove_nodes_from" and n.args \
                and dotted(n.func.value) == gname:
            a = n.args[0]
            if isinstance(a, ast.Name) and single.get(a.id) is not None:
                a = single[a.id]
            if isinstance(a, (ast.ListComp, ast.SetComp, ast.GeneratorExp)) and len(a.generators) == 1 and len(a.generators[0].ifs) == 1:
                gen = a.generators[0]
                it = gen.iter
                over_graph = dotted(it) == gname or (isinstance(it, ast.Attribute) and dotted(it.value) == gname and it.attr == "nodes") or \
                    (isinstance(it, ast.Call) and dotted(it.func) in ("list", "set", "tuple") and it.args and dotted(it.args[0]) in (gname, f"{gname}.nodes"))
                flt = norm_src(gen.ifs[0])
                var = dotted(gen.target)
                if over_graph and flt.startswith(f"{var} not in ") and flt.split(".")[-1].split(" ")[-1] in setup_sets and dotted(a.elt) == var:
                    return True
    return False


def _is_setup_restriction(ctx: Ctx, fn: FuncInfo, call: ast.AST) -> bool:
    """`G.keep(<...>.setup_nodes)` where keep(self, kept) removes from self, in place, every node that is not in `kept` and returns self."""
    if not (isinstance(call, ast.Call) and isinstance(call.func, ast.Attribute) and len(call.args) == 1 and not call.keywords):
        return False
    a = call.args[0]
    core = a.args[0] if isinstance(a, ast.Call) and dotted(a.func) in ("set", "frozenset", "list", "tuple") and len(a.args) == 1 else a
    if not (isinstance(core, ast.Attribute) and core.attr == "setup_nodes"):
        return False
    g = ctx.P.funcs.get(_callee_of(ctx, fn, call) or "")
    if g is None:
        # receiver of unknown type (a deep copy, a local): the method of that name of the graph class
        g = ctx.P.classes[graph_q(ctx)].methods.get(call.func.attr)
    if g is None or g.cls is None or len(g.node.args.args) != 2:
        return False
    me, kept = g.node.args.args[0].arg, g.node.args.args[1].arg
    rets = [n for n in iter_own_nodes(g.node) if isinstance(n, ast.Return) and n.value is not None]
    if len(rets) != 1 or dotted(rets[0].value) != me:
        return False
    for n in iter_own_nodes(g.node):
        if isinstance(n, ast.Call) and isinstance(n.func, ast.Attribute) and n.func.attr == "remove_nodes_from" and dotted(n.func.value) == me and n.args:
            c = n.args[0]
            if isinstance(c, (ast.ListComp, ast.SetComp, ast.GeneratorExp)) and len(c.generators) == 1 and len(c.generators[0].ifs) == 1 \
                    and dotted(c.generators[0].iter) in (me, f"{me}.nodes") :
                t = c.generators[0].ifs[0]
                if isinstance(t, ast.Compare) and len(t.ops) == 1 and isinstance(t.ops[0], ast.NotIn) and dotted(t.comparators[0]) == kept \
                        and dotted(t.left) == dotted(c.generators[0].target) == dotted(c.elt):
                    return True
    return False


def _setup_filter_funcs(ctx: Ctx) -> Set[str]:
    """Functions whose (single) returned graph holds setup nodes only: they filter it in place, or return the result of one that does."""
    def build():
        out: Set[str] = set()
        changed = True
        while changed:
            changed = False
            for fn in ctx.funcs():
                if fn.qualname in out:
                    continue
                rets = [n for n in iter_own_nodes(fn.node) if isinstance(n, ast.Return) and n.value is not None]
                if len(rets) != 1:
                    continue
                v = rets[0].value
                ok = False
                if isinstance(v, ast.Name):
                    ok = _filters_in_place(fn, v.id)
                    if not ok:
                        asg = [n for n in ctx.reaching_defs(fn, v.id, v) if isinstance(n, ast.Assign)]
                        ok = bool(asg) and all(isinstance(n.value, ast.Call) and _callee_of(ctx, fn, n.value) in out for n in asg)
                elif isinstance(v, ast.Call):
                    ok = _callee_of(ctx, fn, v) in out or _is_setup_restriction(ctx, fn, v)
                if ok:
                    out.add(fn.qualname)
                    changed = True
        return out
    return ctx.memo("gt.setup_filter_funcs", build)


def _pre_setup_filters(ctx: Ctx) -> bool:
    """The graph _pre_setup returns holds setup nodes only."""
    return ctx.method("BaseDAG", "_pre_setup").qualname in _setup_filter_funcs(ctx)


def gt_debuginc(ctx: Ctx) -> RuleResult:
    """Flag on: a debug successor is pulled in only when ALL its predecessors are selected."""
    from .ref import _if_chains

    r = RuleResult("GT-DEBUGINC")
    g = ctx.P.classes[graph_q(ctx)]
    f = g.methods.get("include_debug_nodes")
    r.require(f is not None, "include_debug_nodes not found")
    p = f.node.args.args[1].arg
    adds = [n for n in iter_own_nodes(f.node) if isinstance(n, ast.Expr) and isinstance(n.value, ast.Call)
            and isinstance(n.value.func, ast.Attribute) and n.value.func.attr in ("append", "add") and dotted(n.value.func.value) == p]
    r.require(len(adds) == 1, "include_debug_nodes: inclusion site not found")
    chains = _if_chains(f.node)
    tests = [t for t, v in chains.get(id(adds[0]), ()) if v]
    local = {}
    for n in iter_own_nodes(f.node):
        if isinstance(n, ast.Assign) and isinstance(n.targets[0], ast.Name):
            local.setdefault(n.targets[0].id, []).append(n.value)

    def expand(e: ast.AST) -> List[ast.AST]:
        out = [e]
        for nm in names_in(e):
            for v in local.get(nm, []):
                if not isinstance(v, ast.Constant):
                    out.append(v)
        return out

    exprs = [x for t in tests for x in expand(t)]
    # counting form: "number of selected predecessors seen == in-degree".  Exact only when the counter starts from zero in every pass of
    # the fix-point loop; a counter that lives across passes counts the same edge again and reaches the in-degree with a parent missing
    for t in tests:
        if isinstance(t, ast.Compare) and len(t.ops) == 1 and isinstance(t.ops[0], (ast.Eq, ast.GtE)):
            sides = [t.left, t.comparators[0]]
            cnt = next((x for x in sides if isinstance(x, ast.Subscript) and isinstance(x.value, ast.Name)), None)
            deg = next((x for x in sides if isinstance(x, ast.Call) and ("in_degree" in norm_src(x.func) or "predecessors" in norm_src(x))), None)
            if cnt is None or deg is None:
                continue
            cname = cnt.value.id
            loops_ = [n for n in iter_own_nodes(f.node) if isinstance(n, ast.While)]
            inits = [n for n in iter_own_nodes(f.node) if isinstance(n, (ast.Assign, ast.AnnAssign))
                     and dotted(n.targets[0] if isinstance(n, ast.Assign) else n.target) == cname]
            r.require(bool(inits) and bool(loops_), "include_debug_nodes: counting form without a recognisable counter / fix-point loop")
            inside = all(any(x is i_ for x in own_walk(loops_[0])) for i_ in inits)
            r.ob(inside, {"inclusion by counting": norm_src(t), "counter reset in every pass": inside})
            if not inside:
                r.violate("DiGraphEx.include_debug_nodes: the per-candidate count of selected predecessors is kept across the passes of the "
                          "fix-point loop", f.loc(inits[0]),
                          "a second pass counts the same selected parent again: a debug node with a parent outside the selection reaches its "
                          "in-degree and is pulled into the run, where it reads the missing input as None", norm_src(t))
            return r
    pred_exprs = [x for x in exprs if "predecessors" in norm_src(x)]
    r.require(len(pred_exprs) >= 1, "include_debug_nodes: no test on the predecessors of the candidate guards its inclusion")
    filtered = [c for x in pred_exprs for c in ast.walk(x) if isinstance(c, (ast.GeneratorExp, ast.ListComp, ast.SetComp))
                and "predecessors" in norm_src(c.generators[0].iter) and c.generators[0].ifs]
    # the tested set must be ALL predecessors: a difference / intersection / filtered comprehension removes some of them
    for x in pred_exprs:
        for c in ast.walk(x):
            if isinstance(c, ast.BinOp) and isinstance(c.op, (ast.Sub, ast.BitAnd)) and "predecessors" in norm_src(c.left):
                filtered.append(c)
            if isinstance(c, ast.Call) and isinstance(c.func, ast.Attribute) and c.func.attr in ("difference", "intersection") \
                    and "predecessors" in norm_src(c.func.value):
                filtered.append(c)
    weak = [x for x in exprs if (isinstance(x, ast.Call) and dotted(x.func) == "any") or "isdisjoint" in norm_src(x) or ".intersection(" in norm_src(x)]
    subset = [x for x in exprs if isinstance(x, ast.Call) and isinstance(x.func, ast.Attribute) and x.func.attr == "issubset" and p in names_in(x)] + \
        [x for x in exprs if isinstance(x, ast.Call) and dotted(x.func) == "all" and "predecessors" in norm_src(x)]
    # ... and they must be contained in the SELECTION: a superset widened by anything else takes unselected predecessors for provided
    for x in subset:
        if isinstance(x.func, ast.Attribute) and x.func.attr == "issubset" and x.args:
            sup = x.args[0]
            wide = [c for c in ast.walk(sup) if (isinstance(c, ast.BinOp) and isinstance(c.op, ast.BitOr))
                    or (isinstance(c, ast.Call) and isinstance(c.func, ast.Attribute) and c.func.attr == "union")]
            if wide:
                filtered.append(sup)
    ok = bool(subset) and not filtered and not weak
    r.ob(ok, {"inclusion guarded by": [norm_src(t) for t in tests], "expanded": [norm_src(x)[:120] for x in pred_exprs]})
    if filtered or weak:
        bad = (filtered or weak)[0]
        r.violate("DiGraphEx.include_debug_nodes: a debug node is pulled in although only SOME of its predecessors are selected",
                  f.loc(bad), "a debug node pulled into a sub-graph run must have all its inputs available; a predecessor that is "
                  "filtered out of the test (or an 'any' test) is not computed and the debug node runs on None", norm_src(bad)[:200])
    elif not subset:
        raise Undecided("include_debug_nodes: inclusion test not recognised: " + "; ".join(norm_src(t) for t in tests))
    # termination of the fix-point loop: the "something changed" flag is raised only together with an addition
    wl = [n for n in iter_own_nodes(f.node) if isinstance(n, ast.While) and isinstance(n.test, ast.Name)]
    if wl:
        flag = wl[0].test.id
        sets = [n for n in own_walk(wl[0]) if isinstance(n, ast.Assign) and dotted(n.targets[0]) == flag
                and isinstance(n.value, ast.Constant) and n.value.value is True]
        for st in sets:
            okp = chains.get(id(st), ()) == chains.get(id(adds[0]), ())
            r.ob(okp, {"fix-point flag raised under the same conditions as the addition": okp})
            if not okp:
                r.violate("DiGraphEx.include_debug_nodes: the fix-point flag is raised without an addition", f.loc(st),
                          "the loop repeats while 'something was discovered'; raising the flag for a candidate that is not added makes "
                          "the loop spin forever (executor construction never returns)", [norm_src(t) for t, v in chains.get(id(st), ())])
    # only debug successors not already selected are candidates
    cand = [t for t in tests if "debug_nodes" in norm_src(t) or ".debug" in norm_src(t)]
    r.ob(len(cand) >= 1, {"candidate test": norm_src(cand[0]) if cand else None})
    if not cand:
        r.violate("DiGraphEx.include_debug_nodes: successors are pulled in without being debug nodes", f.loc(adds[0]),
                  "only debug nodes may be added to a selection", None)
    return r


def gt_presence(ctx: Ctx) -> RuleResult:
    """The selection lists are tested for presence ('is not None'), never for truthiness: an explicitly empty selection selects nothing."""
    from .sib import PARALLEL

    r = RuleResult("GT-PRESENCE")
    n = 0
    for f in ctx.funcs():
        if f.module.name.endswith("_twzsa_control"):
            continue
        a = f.node.args
        fparams = {x.arg for x in a.posonlyargs + a.args + a.kwonlyargs}
        names = {x for x in PARALLEL if x in fparams} | ({f"self.{x}" for x in PARALLEL} if f.cls is not None else set())
        if not names:
            continue
        for node in iter_own_nodes(f.node):
            tests = []
            if isinstance(node, (ast.If, ast.While, ast.IfExp)):
                tests.append(node.test)
            elif isinstance(node, ast.BoolOp):
                tests += list(node.values)
            elif isinstance(node, ast.UnaryOp) and isinstance(node.op, ast.Not):
                tests.append(node.operand)
            for t in tests:
                for sub in (t.values if isinstance(t, ast.BoolOp) else [t]):
                    inner = sub.operand if isinstance(sub, ast.UnaryOp) and isinstance(sub.op, ast.Not) else sub
                    d = dotted(inner)
                    if d in names and "exclude" in d:
                        # an empty exclusion excludes nothing, exactly like an absent one: truthiness is equivalent here
                        n += 1
                        r.ob(True, {"truthiness test (equivalent for exclusions)": norm_src(t), "in": f.short})
                    elif d in names and isinstance(node, ast.If) and not node.orelse and len(node.body) == 1 \
                            and isinstance(node.body[0], ast.Assign) and dotted(node.body[0].targets[0]) == d \
                            and d in {dotted(x) for x in ast.walk(node.body[0].value) if isinstance(x, (ast.Name, ast.Attribute))}:
                        # `if sel: sel = normalise(sel)`: an empty selection stays empty - truthiness is equivalent here
                        n += 1
                        r.ob(True, {"truthiness test (normalisation only)": norm_src(t), "in": f.short})
                    elif d in names:
                        n += 1
                        r.ob(False, {"truthiness test": norm_src(t), "in": f.short})
                        r.violate(f"{f.short}: selection list '{d}' tested for truthiness", f.loc(node),
                                  "'no selection given' (None) and 'an empty selection' ([]) are different requests: with a truthiness "
                                  "test an explicitly empty list runs everything instead of nothing", norm_src(t))
                    if isinstance(inner, ast.Compare) and len(inner.ops) == 1 and isinstance(inner.ops[0], (ast.Is, ast.IsNot)) \
                            and dotted(inner.left) in names and isinstance(inner.comparators[0], ast.Constant) and inner.comparators[0].value is None:
                        n += 1
                        r.ob(True, {"presence test": norm_src(inner), "in": f.short})
    r.require(n >= 8, f"only {n} tests on the selection lists found")
    return r


RES_BASE = ("get_multiple_nodes_aliases", "alias_to_ids")


def _resolver_funcs(ctx: Ctx) -> Set[str]:
    """Qualnames of the alias resolvers and of every package function that only returns what a resolver returns for one of its
    own parameters (wrappers such as 'None stays None, anything else is resolved')."""
    def build():
        out = {f.qualname for f in ctx.funcs() if f.name in RES_BASE and f.cls is not None}
        changed = True
        while changed:
            changed = False
            for f in ctx.funcs():
                if f.qualname in out:
                    continue
                a = f.node.args
                params = {x.arg for x in a.posonlyargs + a.args + a.kwonlyargs}
                rets = [n for n in iter_own_nodes(f.node) if isinstance(n, ast.Return) and n.value is not None
                        and not (isinstance(n.value, ast.Constant) and n.value.value is None)]
                if not rets:
                    continue
                ok = True
                for rt in rets:
                    v = rt.value
                    if not (isinstance(v, ast.Call) and v.args and isinstance(v.args[0], ast.Name) and v.args[0].id in params):
                        ok = False
                        break
                    q = next((q for c, q in ctx.calls_in(f) if c is v), None)
                    if q not in out:
                        ok = False
                        break
                if ok:
                    out.add(f.qualname)
                    changed = True
        return out
    return ctx.memo("gt.resolver_funcs", build)


def _is_resolution(ctx: Ctx, f: FuncInfo, call: ast.AST) -> bool:
    if not (isinstance(call, ast.Call) and call.args):
        return False
    if isinstance(call.func, ast.Attribute) and call.func.attr in RES_BASE:
        return True
    q = next((q for c, q in ctx.calls_in(f) if c is call), None)
    return q in _resolver_funcs(ctx)


def _record_resolvers(ctx: Ctx) -> Set[str]:
    """Package functions that hand back a record / tuple every component of which is 'None, or what a resolver returned'."""
    def build():
        out: Set[str] = set()
        for f in ctx.funcs():
            rets = [n for n in iter_own_nodes(f.node) if isinstance(n, ast.Return) and n.value is not None]
            if not rets:
                continue

            def comp_ok(e: ast.AST, depth: int = 0) -> bool:
                if isinstance(e, ast.Constant) and e.value is None:
                    return True
                if isinstance(e, ast.IfExp):
                    return comp_ok(e.body, depth) and comp_ok(e.orelse, depth)
                if _is_resolution(ctx, f, e):
                    return True
                if isinstance(e, ast.Name) and depth < 2:
                    asg = [x for x in iter_own_nodes(f.node) if isinstance(x, ast.Assign) and dotted(x.targets[0]) == e.id]
                    return bool(asg) and all(comp_ok(x.value, depth + 1) for x in asg)
                return False
            good = True
            for rt in rets:
                v = rt.value
                comps = list(v.elts) if isinstance(v, ast.Tuple) else (list(v.args) + [k.value for k in v.keywords]
                                                                        if isinstance(v, ast.Call) and isinstance(v.func, ast.Name)
                                                                        and v.func.id[:1].isupper() or (isinstance(v, ast.Call) and isinstance(v.func, ast.Name) and v.func.id.startswith("_")) else None)
                if not comps or not all(comp_ok(c) for c in comps) or not any(not (isinstance(c, ast.Constant)) for c in comps):
                    good = False
                    break
            if good:
                out.add(f.qualname)
        return out
    return ctx.memo("gt.record_resolvers", build)


def gt_aliasnorm(ctx: Ctx) -> RuleResult:
    """Every user-supplied selection list (aliases: node, tag or id) is resolved to ids before it reaches make_subgraph."""
    from .sib import PARALLEL

    r = RuleResult("GT-ALIASNORM")
    g = ctx.P.classes[graph_q(ctx)]
    ms = g.methods.get("make_subgraph")
    r.require(ms is not None, "make_subgraph not found")
    n = 0
    for f in ctx.funcs():
        if f.module.name.endswith("_twzsa_control") or f.cls is g:
            continue
        for call, q in ctx.calls_in(f):
            if q != ms.qualname:
                continue
            for p in PARALLEL:
                a = arg_for_param(ms.node, call, p, skip_self=True)
                if a is None or (isinstance(a, ast.Constant) and a.value is None):
                    continue
                d = dotted(a)
                if d is None:
                    raise Undecided(f"{f.short}: selection argument {norm_src(a)} is not a name")
                # the argument must have been (re)assigned from the alias resolver in this function, or come from a field
                # that the object resolves in its own initialiser
                norm = [x for x in iter_own_nodes(f.node) if isinstance(x, ast.Assign) and dotted(x.targets[0]) == d
                        and _is_resolution(ctx, f, x.value)]
                internal = [x for x in iter_own_nodes(f.node) if isinstance(x, ast.Assign) and dotted(x.targets[0]) == d
                            and isinstance(x.value, ast.Attribute) and x.value.attr in ("setup_nodes", "debug_nodes", "root_nodes", "leaf_nodes")]
                n += 1
                ok = bool(norm)
                if not ok:
                    # the argument is a plain copy of a name / field that was resolved (a record field, an explaining variable)
                    def _resolved_copy(name: str, depth: int = 0) -> bool:
                        asg = [x for x in iter_own_nodes(f.node) if isinstance(x, ast.Assign) and dotted(x.targets[0]) == name]
                        if any(_is_resolution(ctx, f, x.value) for x in asg):
                            return True
                        srcs = [dotted(x.value) for x in asg]
                        return depth < 3 and bool(asg) and all(s_ is not None and s_ != name and _resolved_copy(s_, depth + 1) for s_ in srcs)
                    ok = _resolved_copy(d)
                    if not ok and "." in d:
                        # a field of a record that a helper filled with resolved ids (or None) only
                        base_ = d.rsplit(".", 1)[0]
                        asg_ = [x for x in iter_own_nodes(f.node) if isinstance(x, ast.Assign) and dotted(x.targets[0]) == base_]
                        ok = bool(asg_) and all(isinstance(x.value, ast.Call) and next((q_ for c_, q_ in ctx.calls_in(f) if c_ is x.value), None)
                                                in _record_resolvers(ctx) for x in asg_)
                    if ok:
                        norm = [x for x in iter_own_nodes(f.node) if isinstance(x, ast.Assign) and dotted(x.targets[0]) == d]
                r.ob(ok, {"call": norm_src(call)[:80], "in": f.short, "selection": p, "argument": d,
                          "resolved by": norm_src(norm[0]) if norm else None})
                if not ok:
                    r.violate(f"{f.short}: selection list '{d}' reaches make_subgraph without alias resolution", f.loc(call),
                              "users may name nodes by reference, tag or id; a list that is not passed through the alias resolver is "
                              "compared with node ids as is: tags and node references select nothing or raise", norm_src(call))
    r.require(n >= 6, f"only {n} selection arguments reaching make_subgraph")
    # ... and reaches it WHOLE: between the user's list and the closure computed by make_subgraph no element is filtered out (a target
    # that is itself not executed - a debug node with the flag off - still demands its ancestors; they are production nodes)
    for f in ctx.funcs():
        if f.module.name.endswith("_twzsa_control") or f.cls is g:
            continue
        for x in iter_own_nodes(f.node):
            if not (isinstance(x, ast.Assign) and len(x.targets) == 1):
                continue
            d = dotted(x.targets[0]) or ""
            if d.split(".")[-1] not in PARALLEL:
                continue
            v = x.value
            if isinstance(v, ast.Call) and dotted(v.func) in ("list", "set", "tuple") and len(v.args) == 1:
                v = v.args[0]
            if isinstance(v, (ast.ListComp, ast.SetComp, ast.GeneratorExp)) and len(v.generators) == 1 and v.generators[0].ifs \
                    and dotted(v.generators[0].iter) == d and dotted(v.elt) == dotted(v.generators[0].target):
                r.ob(False, {"in": f.short, "selection filtered": norm_src(x)[:100]})
                r.violate(f"{f.short}: the selection list '{d.split('.')[-1]}' is filtered before it reaches make_subgraph ({norm_src(v.generators[0].ifs[0])[:50]})",
                          f.loc(x), "make_subgraph turns the list into a closure (ancestors of the targets, descendants of the roots / of the "
                          "exclusions): an element removed beforehand takes its whole closure with it - production ancestors of a debug "
                          "target no longer run with the flag off, and the returned values differ between the two modes", norm_src(x)[:120])
    # resolution is not idempotent (a tag wins over an id of the same value): what was resolved is never resolved again
    RES = ("get_multiple_nodes_aliases", "alias_to_ids")
    resolved_fields: Dict[str, Set[str]] = {}
    for f in ctx.funcs():
        if f.cls is None:
            continue
        for x in iter_own_nodes(f.node):
            if isinstance(x, ast.Assign) and isinstance(x.targets[0], ast.Attribute) and dotted(x.targets[0].value) == "self" \
                    and _is_resolution(ctx, f, x.value):
                for ci in ctx.P.subclasses(f.cls.qualname):
                    resolved_fields.setdefault(ci.qualname, set()).add(x.targets[0].attr)
    for f in ctx.funcs():
        if f.cls is None or f.cls.qualname not in resolved_fields or f.module.name.endswith("_twzsa_control"):
            continue
        flds = resolved_fields[f.cls.qualname]
        for call, q in ctx.calls_in(f):
            if not _is_resolution(ctx, f, call):
                continue
            a = call.args[0]
            src = None
            if isinstance(a, ast.Attribute) and dotted(a.value) == "self" and a.attr in flds:
                src = a.attr
            elif isinstance(a, ast.Name):
                for d in ctx.reaching_defs(f, a.id, call):
                    if isinstance(d, (ast.For, ast.AsyncFor)) and isinstance(d.iter, ast.Attribute) and dotted(d.iter.value) == "self" \
                            and d.iter.attr in flds:
                        src = d.iter.attr
            if src is None:
                continue
            # the statement that performs the first resolution (self.x = resolve(self.x)) is fine
            first = any(isinstance(x, ast.Assign) and x.value is call and isinstance(x.targets[0], ast.Attribute)
                        and x.targets[0].attr == src for x in iter_own_nodes(f.node))
            r.ob(first, {"resolution of": f"self.{src}", "in": f.short, "first resolution": first})
            if not first:
                r.violate(f"{f.short}: ids already resolved from aliases (self.{src}) are resolved again", f.loc(call),
                          "alias resolution tries 'tag' before 'id': an id that happens to equal another node's tag resolves to that other "
                          "node the second time, so the wrong nodes are excluded / selected", norm_src(call))
    # ... nor handed to a function whose parameter ends in the resolver (interprocedural: fixpoint over the call graph)
    resolving: Set[Tuple[str, str]] = set()
    changed = True
    while changed:
        changed = False
        for f in ctx.funcs():
            a = f.node.args
            fparams = {x.arg for x in a.posonlyargs + a.args + a.kwonlyargs}
            for call, q in ctx.calls_in(f):
                sinks: List[ast.AST] = []
                if _is_resolution(ctx, f, call) and f.qualname not in _resolver_funcs(ctx):
                    sinks.append(call.args[0])
                elif q is not None and q in ctx.P.funcs:
                    for (q2, p2) in list(resolving):
                        if q2 == q:
                            x = arg_for_param(ctx.P.funcs[q].node, call, p2, skip_self=ctx.P.funcs[q].cls is not None)
                            if x is not None:
                                sinks.append(x)
                for x in sinks:
                    if isinstance(x, ast.Name) and x.id in fparams and ctx.entry_reaches(f, x.id, call) and (f.qualname, x.id) not in resolving:
                        resolving.add((f.qualname, x.id))
                        changed = True
    r.ob(len(resolving) >= 3, {"parameters that end in the alias resolver": sorted(f"{q.split('.')[-2]}.{q.split('.')[-1]}({p})" for q, p in resolving)})
    for f in ctx.funcs():
        if f.cls is None or f.cls.qualname not in resolved_fields or f.module.name.endswith("_twzsa_control"):
            continue
        flds = resolved_fields[f.cls.qualname]
        for call, q in ctx.calls_in(f):
            if q is None or q not in ctx.P.funcs:
                continue
            callee = ctx.P.funcs[q]
            for (q2, p2) in sorted(resolving):
                if q2 != q:
                    continue
                x = arg_for_param(callee.node, call, p2, skip_self=callee.cls is not None)
                if isinstance(x, ast.Attribute) and dotted(x.value) == "self" and x.attr in flds:
                    r.ob(False, {"resolved field": f"self.{x.attr}", "handed to": f"{callee.short}({p2})", "in": f.short})
                    r.violate(f"{f.short}: ids already resolved from aliases (self.{x.attr}) are handed to {callee.short}, which resolves them again",
                              f.loc(call),
                              "alias resolution tries 'tag' before 'id': an id that happens to equal another node's tag resolves to that other "
                              "node the second time, so the wrong nodes are set up / selected", norm_src(call))
    # a resolved list is stored under the name of the list it was resolved from
    for f in ctx.funcs():
        if f.module.name.endswith("_twzsa_control"):
            continue
        for x in iter_own_nodes(f.node):
            if isinstance(x, ast.Assign) and _is_resolution(ctx, f, x.value):
                t = dotted(x.targets[0])
                a0 = dotted(x.value.args[0])
                if t is None or a0 is None:
                    continue
                tl, al = t.split(".")[-1], a0.split(".")[-1]
                if tl in PARALLEL and al in PARALLEL:
                    r.ob(tl == al, {"resolution": norm_src(x), "in": f.short})
                    if tl != al:
                        r.violate(f"{f.short}: the resolution of '{a0}' is stored as '{t}'", f.loc(x),
                                  "each selection list (target / exclude / root) has its own meaning in the closure: storing the ids of one "
                                  "under the name of another selects the wrong nodes", norm_src(x))
    return r


def gt_defaultsel(ctx: Ctx) -> RuleResult:
    """An absent selection list stays None (no restriction): it is never replaced by a synthesised list of nodes.

    make_subgraph treats every listed target as a demand of the user and refuses the call when the exclusion or the root
    selection removed one of them; a default such as 'all setup nodes' therefore turns every effective exclusion into ValueError."""
    from .sib import PARALLEL

    r = RuleResult("GT-DEFAULTSEL")
    g = ctx.P.classes[graph_q(ctx)]
    ms = g.methods.get("make_subgraph")
    r.require(ms is not None, "make_subgraph not found")
    graph_attrs = set(g.methods) | set(ctx.P.all_fields(g))
    n = 0
    for f in ctx.funcs():
        if f.module.name.endswith("_twzsa_control") or f.cls is g:
            continue
        for call, q in ctx.calls_in(f):
            if q != ms.qualname:
                continue
            args = {p: arg_for_param(ms.node, call, p, skip_self=True) for p in PARALLEL}
            others = lambda p: [x for x in PARALLEL if x != p and args[x] is not None
                                and not (isinstance(args[x], ast.Constant) and args[x].value is None)]
            for p, a in args.items():
                if not isinstance(a, ast.Name):
                    continue
                n += 1
                def _on_graph(e: ast.AST) -> bool:
                    # the attribute is read from a graph (self.graph_ids.setup_nodes), not from the object's own selection field
                    if dotted(e) == "self":
                        return False
                    try:
                        t_ = ctx.type_of(f, e)
                    except Exception:
                        return True
                    return not t_ or t_[0] != "inst" or ctx.T.is_instance(t_, g.qualname)
                synth = [d for d in ctx.reaching_defs(f, a.id, call) if isinstance(d, ast.Assign) and isinstance(d.value, ast.Attribute)
                         and d.value.attr in graph_attrs and d.value.attr.endswith("_nodes") and _on_graph(d.value.value)]
                bad = bool(synth) and bool(others(p))
                r.ob(not bad, {"call": norm_src(call)[:70], "in": f.short, "selection": p,
                               "synthesised default": norm_src(synth[0]) if synth else None})
                if bad:
                    r.violate(f"{f.short}: absent '{p}' is replaced by a synthesised node list while {others(p)} restrict the same graph",
                              f.loc(synth[0]),
                              "make_subgraph refuses a target the exclusion / root selection removed: with the synthesised list every "
                              "selection that removes one of the listed nodes raises ValueError although the user named no target",
                              norm_src(synth[0]))
    r.require(n >= 3, f"only {n} selection arguments by name reach make_subgraph")
    return r


def gt_refalias(ctx: Ctx) -> RuleResult:
    """A node given by reference selects THAT node: the table entry found under its id is compared with the reference."""
    r = RuleResult("GT-REFALIAS")
    f = ctx.method("BaseDAG", "alias_to_ids")
    p = f.node.args.args[1].arg
    br = [s for s in f.node.body if isinstance(s, ast.If) and "isinstance" in norm_src(s.test) and "ExecNode" in norm_src(s.test)]
    r.require(len(br) == 1, "alias_to_ids: reference branch not found")
    rets = [n for n in own_walk(br[0]) if isinstance(n, ast.Return)]
    by_id = [n for n in rets if norm_src(n.value) in (f"[{p}.id]", f"[{p}.id_]")]
    related = [n for n in own_walk(br[0]) if isinstance(n, ast.Compare) and any(
        isinstance(x, ast.Subscript) and norm_src(x.value).endswith("exec_nodes") for x in ast.walk(n))
        and any(isinstance(o, (ast.Is, ast.IsNot, ast.Eq, ast.NotEq)) for o in n.ops)]
    ok = not by_id or bool(related)
    r.ob(ok, {"reference resolved as": [norm_src(n.value) for n in rets], "table entry compared with the reference": bool(related)})
    if not ok:
        r.violate("BaseDAG.alias_to_ids: a node reference is resolved through its id alone", f.loc(by_id[0]),
                  "the id is the function's qualname: two distinct decorated functions with one qualname (made by a factory, two lambdas, "
                  "two partials) are indistinguishable - target_nodes=[triple] runs 'double', exclude_nodes=[triple] excludes 'double'",
                  norm_src(by_id[0]))
    return r


def gt_rootconst(ctx: Ctx) -> RuleResult:
    """A user node whose only inputs are constants is a root for the selection (it depends on no other node)."""
    r = RuleResult("GT-ROOTCONST")
    g = ctx.P.classes[graph_q(ctx)]
    ms = g.methods.get("make_subgraph")
    fe = g.methods.get("from_exec_nodes")
    rn = g.methods.get("root_nodes")
    r.require(ms is not None and fe is not None and rn is not None, "make_subgraph / from_exec_nodes / root_nodes not found")
    # (1) the validation of root_nodes compares with the in-degree-0 nodes
    val = [n for n in iter_own_nodes(ms.node) if isinstance(n, ast.If) and any(isinstance(b, ast.Raise) for b in n.body)
           and "root_nodes" in norm_src(n.test)]
    uses_indeg = bool(val) and any(isinstance(x, ast.Attribute) and x.attr == "root_nodes" for x in ast.walk(val[0].test)) \
        and "in_degree" in ast.unparse(rn.node)
    # (2) the graph holds one node per ExecNode, argument holders included
    filtered = any(isinstance(x, ast.Call) and dotted(x.func) == "isinstance" and "ArgExecNode" in norm_src(x) for x in iter_own_nodes(fe.node))
    if not val:
        raise Undecided("make_subgraph: validation of root_nodes not recognised")
    bad = uses_indeg and not filtered
    r.ob(not bad, {"root validation": norm_src(val[0].test)[:80], "roots are in-degree-0 nodes": uses_indeg,
                   "constant holders kept out of the graph": filtered})
    if bad:
        r.violate("DiGraphEx.make_subgraph: a root is an in-degree-0 node of a graph that holds the constant-argument nodes", ms.loc(val[0]),
                  "load('data.csv') depends on no node, yet root_nodes=['load'] raises ValueError: its hidden argument node is the in-degree-0 "
                  "one; only the internal id 'load>!>0th argument' is accepted", norm_src(val[0].test)[:100])
    return r


RULES = {
    "GT-REFALIAS": gt_refalias, "GT-ROOTCONST": gt_rootconst,
    "GT-STALEEXEC": gt_staleexec,
    "GT-STALEGATE": gt_stalegate,
    "GT-GATEEXACT": gt_gateexact,
    "GT-EXECSETUP": gt_execsetup,
    "GT-NORECURSE": gt_norecurse,
    "GT-DEFAULTSEL": gt_defaultsel,
    "GT-MODEL": gt_model, "GT-CARRY": gt_carry, "GT-PRIO-SINK": gt_prio_sink, "GT-POP": gt_pop, "GT-FORMULA": gt_formula,
    "GT-RECONF": gt_reconf, "GT-CYCLE": gt_cycle, "GT-SELECT": gt_select, "GT-ALIAS": gt_alias, "GT-GATE": gt_gate,
    "GT-DEBUGINC": gt_debuginc, "GT-PRESENCE": gt_presence, "GT-ALIASNORM": gt_aliasnorm,
}
