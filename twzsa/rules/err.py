"""err rules."""
RULES = {}
