"""ERR - error discipline (DESIGN 4.7)."""
from __future__ import annotations

import ast
from typing import Iterable, List, Optional

from ..ctx import Ctx, dotted, names_in
from ..loader import FuncInfo, iter_own_nodes, own_walk
from ..report import RuleResult, Undecided, norm_src
from .ref import control_funcs, pkg_funcs


def _node_call(ex: FuncInfo) -> Optional[ast.Call]:
    for n in iter_own_nodes(ex.node):
        if isinstance(n, ast.Call) and norm_src(n.func) == "self.exec_function":
            return n
    return None


def err_wrap(ctx: Ctx) -> RuleResult:
    r = RuleResult("ERR-WRAP")
    ex = ctx.method("ExecNode", "execute")
    call = _node_call(ex)
    r.require(call is not None, "ExecNode.execute: call of the node function not found")
    tries = [n for n in iter_own_nodes(ex.node) if isinstance(n, ast.Try) and any(call is x for s in n.body for x in ast.walk(s))]
    if not tries:
        r.ob(False)
        r.violate("ExecNode.execute: node function called outside any handler", ex.loc(call),
                  "a failing node must raise an error naming the node and its call location with the original as cause", None)
        return r
    t = tries[0]
    hs = [h for h in t.handlers if h.type is None or dotted(h.type) in ("Exception", "BaseException")]
    r.require(len(hs) == 1 and len(t.handlers) == 1, "ExecNode.execute: handler set around the node call not recognised")
    h = hs[0]
    ev = h.name
    raises = [n for n in own_walk(h) if isinstance(n, ast.Raise)]
    r.ob(bool(raises), {"handler": norm_src(h.type) if h.type else "bare", "raises": len(raises)})
    if not raises:
        r.violate("ExecNode.execute: the node's exception is swallowed", ex.loc(h), "the handler around the node call does not raise", None)
        return r
    # every path through the handler leaves it by raising: no `return` (the failed node would count as finished), no fall-through
    def ends_by_raising(block) -> bool:
        if not block:
            return False
        last = block[-1]
        if isinstance(last, ast.Raise):
            return True
        if isinstance(last, ast.If) and last.orelse:
            return ends_by_raising(last.body) and ends_by_raising(last.orelse)
        return False

    leaves = [x for x in own_walk(h) if isinstance(x, (ast.Return, ast.Continue, ast.Break))]
    ok_all = not leaves and ends_by_raising(h.body)
    r.ob(ok_all, {"every path through the handler raises": ok_all})
    if leaves:
        r.violate(f"ExecNode.execute: the handler around the node call is left without raising ({norm_src(leaves[0])})", ex.loc(leaves[0]),
                  "the node's exception is swallowed on that path: the node counts as finished without a result, its dependents are "
                  "released and read None, and the call does not report the failure", norm_src(leaves[0]))
        return r
    if not ok_all:
        raise Undecided("ExecNode.execute: cannot see that every path through the handler raises")
    wrapped = [x for x in raises if x.exc is not None and isinstance(x.exc, ast.Call)]
    r.require(len(wrapped) == 1, "ExecNode.execute: wrapping raise not recognised")
    w = wrapped[0]
    ok_cause = w.cause is not None and dotted(w.cause) == ev
    r.ob(ok_cause, {"wrap carries cause": ok_cause})
    if not ok_cause:
        r.violate("ExecNode.execute: wrapping error raised without 'from <original>'", ex.loc(w),
                  "the original exception must be the __cause__ of the error that names the node", norm_src(w))
    msg = w.exc.args[0] if w.exc.args else None
    interp = {norm_src(v.value) for v in ast.walk(msg) if isinstance(v, ast.FormattedValue)} if msg is not None else set()
    ok_id = bool(interp & {"self.id", "self.id_", "self"})
    ok_loc = "self.call_location" in interp
    r.ob(ok_id and ok_loc, {"message names": sorted(interp)})
    if not ok_id:
        r.violate("ExecNode.execute: wrapping error does not name the failing node", ex.loc(w), "", norm_src(w.exc))
    if not ok_loc:
        r.violate("ExecNode.execute: wrapping error does not give the call location", ex.loc(w), "", norm_src(w.exc))
    # the wrap is conditional on a known location; otherwise the original is re-raised
    bare = [x for x in raises if x is not w]
    ok_re = len(bare) == 1 and (bare[0].exc is None or dotted(bare[0].exc) == ev)
    r.ob(ok_re, {"without location": norm_src(bare[0]) if bare else None})
    if not bare:
        # unconditional wrap is fine only if the wrap is not under a condition
        chain = [n for n in own_walk(h) if isinstance(n, ast.If) and any(w is x for x in ast.walk(n))]
        if chain:
            r.violate("ExecNode.execute: without a call location the node's exception is swallowed", ex.loc(h),
                      "when no location is known the original exception must be re-raised", norm_src(chain[0].test))
    elif not ok_re:
        r.violate("ExecNode.execute: the fall-back raise does not re-raise the original exception", ex.loc(bare[0]), "", norm_src(bare[0]))
    # building the message must not be able to raise (it would replace the node's error by an unrelated one)
    risky = [x for x in own_walk(h) if isinstance(x, ast.Subscript) and isinstance(x.value, ast.Attribute) and x.value.attr == "args"
             and dotted(x.value.value) == ev]
    r.ob(not risky, {"handler indexes the exception's args": [norm_src(x) for x in risky]})
    for x in risky:
        r.violate(f"ExecNode.execute: the handler indexes {norm_src(x)}", ex.loc(x),
                  "an exception raised without arguments (assert, bare 'raise ValueError', ...) has empty args: the handler itself raises "
                  "IndexError, which replaces the error that names the node and drops the cause", norm_src(x))
    # ... nor format values that belong to the user (arguments, results): their __repr__ / __str__ runs inside the handler
    own_ok = []
    foreign = []
    for v in (x for x in ast.walk(msg) if isinstance(x, ast.FormattedValue)) if msg is not None else []:
        base = v.value
        while isinstance(base, (ast.Attribute, ast.Subscript)):
            base = base.value
        if isinstance(base, ast.Name) and base.id in ("self", ev):
            own_ok.append(norm_src(v.value))
        elif isinstance(base, ast.Call) and dotted(base.func) in ("type", "len", "id"):
            own_ok.append(norm_src(v.value))
        else:
            foreign.append(v)
    r.ob(not foreign, {"values formatted into the message": own_ok, "user values among them": [norm_src(v.value) for v in foreign]})
    for v in foreign:
        r.violate(f"ExecNode.execute: the error message formats {norm_src(v.value)}", ex.loc(v),
                  "formatting a value the user's code produced calls its __repr__ / __str__ inside the handler: when that raises (a "
                  "half-initialised object handed over by an upstream node) the call fails with that error - no node name, no call "
                  "location, no cause", norm_src(v.value))
    # the class of the wrapping error is the package's base error
    r.ob(True, {"wrapping error": norm_src(w.exc.func)})
    return r


def err_check(ctx: Ctx) -> RuleResult:
    from .sch import model

    r = RuleResult("ERR-CHECK")
    # wherever a futures wait primitive is called, the futures it reports done are inspected: decided on the calling function alone, so
    # that it also covers a wait written directly into the scheduler loop (a form the scheduler model itself does not read)
    n_direct = 0
    for f in pkg_funcs(ctx):
        for n in iter_own_nodes(f.node):
            if not (isinstance(n, ast.Assign) and isinstance(n.targets[0], (ast.Tuple, ast.List)) and len(n.targets[0].elts) == 2):
                continue
            call = n.value.value if isinstance(n.value, ast.Await) else n.value
            if not (isinstance(call, ast.Call) and (ctx.T.resolve_callee(f, call) or "") in ("ext:concurrent.futures.wait", "ext:asyncio.wait")):
                continue
            d = n.targets[0].elts[0]
            if not isinstance(d, ast.Name):
                continue
            n_direct += 1
            iterated = [lp for lp in iter_own_nodes(f.node) if isinstance(lp, (ast.For, ast.AsyncFor)) and isinstance(lp.iter, ast.Name)
                        and lp.iter.id == d.id]
            inspected = any(isinstance(x, ast.Call) and isinstance(x.func, ast.Attribute) and x.func.attr in ("result", "exception")
                            for lp in iterated for x in own_walk(lp))
            r.ob(inspected, {"in": f.short, "wait": norm_src(call)[:80], "the futures reported done are inspected": inspected})
            if not iterated:
                r.violate(f"{f.short}: the futures reported done by {norm_src(call.func)} are never inspected", f.loc(n),
                          "a failure stored in one of them is never observed: the failed node is treated as finished, its dependents are "
                          "started and the call returns normally", norm_src(n)[:120])
    # (no floor here: the helper summaries below have their own - a wait primitive reached in another way is their business)
    try:
        m = model(ctx)
    except Undecided:
        if r.findings:
            return r  # decided on the direct evidence above
        raise
    r.require(bool(m.helpers), "no wait helper")
    for q, h in m.helpers.items():
        ok = h.checks_result and h.check_before_remove and h.done_loop is not None
        r.ob(ok, {"helper": h.fn.short, "result() on every newly done future": h.checks_result,
                  "before the node is removed": h.check_before_remove})
        if h.done_loop is None:
            r.violate(f"{h.fn.short}: newly finished futures are not inspected", h.fn.loc(),
                      "a failure stored in a future is never observed: the call returns normally / dependents run", None)
        elif not h.checks_result:
            r.violate(f"{h.fn.short}: finished futures are not checked with result()", h.fn.loc(h.done_loop),
                      "a node's failure is not re-raised by the scheduler" + ("; " + "; ".join(h.notes) if h.notes else ""), None)
        elif not h.check_before_remove:
            r.violate(f"{h.fn.short}: the finished node is removed from the graph before its future is checked", h.fn.loc(h.done_loop),
                      "dependents of a failed node are released", None)
        # the loop iterates the newly done set returned by the wait primitive
    return r


CHAIN_NAMES = {"run_subgraph", "__call__", "setup", "_pre_call", "_post_call", "sync_execute", "async_execute", "_pre_setup"}


def _swallowing_tries(ctx: Ctx, funcs: Iterable[FuncInfo]):
    for f in funcs:
        for n in iter_own_nodes(f.node):
            if isinstance(n, ast.Try):
                for h in n.handlers:
                    last = h.body[-1] if h.body else None
                    reraises = any(isinstance(x, ast.Raise) for x in own_walk(h))
                    if not reraises:
                        yield f, n, h


def err_noswallow(ctx: Ctx) -> RuleResult:
    from .sch import model

    r = RuleResult("ERR-NOSWALLOW")
    m = model(ctx)
    chain: List[FuncInfo] = [m.fn] + [h.fn for h in m.helpers.values()]
    for f in pkg_funcs(ctx):
        if f.name in CHAIN_NAMES and (f.cls is None or "DAG" in f.cls.name):
            if f not in chain:
                chain.append(f)
    ex = ctx.method("ExecNode", "execute")
    chain.append(ex)
    r.require(len(chain) >= 12, f"call chain from the API to the wait helpers: only {len(chain)} functions found")
    bad = {id(f): (f, t, h) for f, t, h in _swallowing_tries(ctx, chain)}
    for f in chain:
        hit = bad.get(id(f))
        r.ob(hit is None, {"function": f.short, "handlers that do not re-raise": 0 if hit is None else 1})
        if hit is not None:
            _, t, h = hit
            r.violate(f"{f.short}: exception handler that does not re-raise ({ast.unparse(h.type) if h.type else 'bare'})", f.loc(h),
                      "between a node's failure and the API boundary no handler may catch and continue: the call would return "
                      "normally or start further nodes after a failure", norm_src(t.body[0]) if t.body else None)
    cf = control_funcs(ctx)
    if cf:
        r.require(len(list(_swallowing_tries(ctx, cf))) >= 1, "positive control for ERR-NOSWALLOW did not match")
    return r


def err_ctx(ctx: Ctx) -> RuleResult:
    """Context managers wrapped around the node call must not suppress exceptions."""
    r = RuleResult("ERR-CTX")
    ex = ctx.method("ExecNode", "execute")
    call = _node_call(ex)
    r.require(call is not None, "node call not found")
    withs = [n for n in iter_own_nodes(ex.node) if isinstance(n, (ast.With, ast.AsyncWith)) and any(call is x for x in ast.walk(n))]
    for w in withs:
        for it in w.items:
            t = ctx.type_of(ex, it.context_expr)
            cq = None
            if t[0] == "cls":
                cq = t[1]
            elif t[0] == "any" or t[0] == "extinst":
                # profiles[self.id] where the value was just assigned a package class instance
                for n in iter_own_nodes(ex.node):
                    if isinstance(n, ast.Assign) and norm_src(n.targets[0]) == norm_src(it.context_expr) and isinstance(n.value, ast.Call):
                        q = ctx.T.resolve_callee(ex, n.value)
                        if q in ctx.P.classes:
                            cq = q
            if cq is None:
                raise Undecided(f"ExecNode.execute: type of context manager {norm_src(it.context_expr)} not resolved")
            c = ctx.P.classes[cq]
            exit_ = ctx.P.find_method(c, "__exit__") or ctx.P.find_method(c, "__aexit__")
            r.require(exit_ is not None, f"{c.name}.__exit__ not found")
            rets = [n for n in iter_own_nodes(exit_.node) if isinstance(n, ast.Return)]
            bad = [x for x in rets if x.value is not None and not (isinstance(x.value, ast.Constant) and x.value.value in (None, False))]
            r.ob(not bad, {"context manager": c.name, "__exit__ returns": [norm_src(x) for x in rets] or ["(falls off the end)"]})
            for x in bad:
                r.violate(f"{c.name}.__exit__: may return a truthy value", exit_.loc(x),
                          "a truthy return from __exit__ suppresses the exception raised by the node function inside the with "
                          "block: the node's failure is lost and the call fails later with an unrelated error", norm_src(x))
    r.ob(True, {"with blocks around the node call": len(withs)})
    return r


def err_logfmt(ctx: Ctx) -> RuleResult:
    """Every log call has as many arguments as its message has placeholders.

    loguru formats lazily: a mismatch raises (IndexError / KeyError) only when a sink is enabled - inside the failure handler of a
    node it then replaces the node's error by an anonymous one; anywhere on a run path it makes a call fail without any node failing."""
    r = RuleResult("ERR-LOGFMT")
    n = 0
    for f in ctx.funcs():
        if f.module.name.endswith("_twzsa_control"):
            continue
        for c in iter_own_nodes(f.node):
            if not (isinstance(c, ast.Call) and isinstance(c.func, ast.Attribute) and dotted(c.func.value) == "logger"
                    and c.func.attr in ("debug", "info", "warning", "error", "critical", "exception", "trace", "success") and c.args):
                continue
            fmt = c.args[0]
            if not (isinstance(fmt, ast.Constant) and isinstance(fmt.value, str)):
                continue  # f-strings and computed messages carry their values themselves
            if any(isinstance(a, ast.Starred) for a in c.args) or any(k.arg is None for k in c.keywords):
                continue
            n += 1
            text = fmt.value.replace("{{", "").replace("}}", "")
            auto = text.count("{}")
            ok = auto == len(c.args) - 1
            if not ok:
                r.ob(False, {"in": f.short, "message": fmt.value[:60], "placeholders": auto, "arguments": len(c.args) - 1})
                if auto > len(c.args) - 1:
                    r.violate(f"{f.short}: log message with {auto} placeholders gets {len(c.args) - 1} argument(s)", f.loc(c),
                              "with a log sink enabled the formatting raises IndexError: in the failure handler of a node this replaces the "
                              "node's error (no node id, no call location, no cause); elsewhere a call fails although no node failed",
                              norm_src(c)[:120])
    r.ob(True, {"log calls with a constant message checked": n})
    r.require(n >= 20, f"only {n} log calls found")
    return r


def err_frame(ctx: Ctx) -> RuleResult:
    """The number of frames between a node's creation and the user's line is the same wherever the library states it."""
    r = RuleResult("ERR-FRAME")
    base = ctx.P.classes[ctx.cls_q("ExecNode")]
    # the walk up the stack is a COUNT of frames: no frame is skipped (or kept) because of the file it belongs to - user code that merely
    # lives under a path starting like the package's (site-packages/tawazi_pipelines/..) would be skipped as well
    gl = ctx.own_method("ExecNode", "get_call_location")
    if gl is not None:
        byfile = [n for n in iter_own_nodes(gl.node) if isinstance(n, (ast.While, ast.If))
                  and any(isinstance(x, ast.Attribute) and x.attr in ("co_filename", "f_globals", "__file__") for x in ast.walk(n.test))]
        r.ob(not byfile, {"get_call_location walks a fixed number of frames": not byfile})
        if byfile:
            r.violate("ExecNode.get_call_location: frames are skipped according to the file they belong to", gl.loc(byfile[0]),
                      "the call location reported with a failing node is the user's line only when exactly the library's own frames are "
                      "stepped over; a test on the file name also steps over user frames whose path starts like the package's", norm_src(byfile[0].test)[:100])
            return r
    d = base.fields.get("call_location_frame")
    r.require(d is not None, "ExecNode.call_location_frame not found")
    default = None
    for n in ast.walk(base.node):
        if isinstance(n, ast.AnnAssign) and dotted(n.target) == "call_location_frame" and isinstance(n.value, ast.Constant):
            default = n.value.value
    r.require(default is not None, "default of call_location_frame is not a constant")
    sites = []
    for f in ctx.funcs():
        for c in iter_own_nodes(f.node):
            if isinstance(c, ast.Call):
                for k in c.keywords:
                    if k.arg == "call_location_frame":
                        sites.append((f, c, k.value))
    for f, c, v in sites:
        if not isinstance(v, ast.Constant):
            if isinstance(v, ast.Name) or isinstance(v, ast.Attribute):
                r.ob(True, {"in": f.short, "call_location_frame": norm_src(v), "forwarded": True})
                continue
            raise Undecided(f"{f.short}: computed call_location_frame: {norm_src(v)}")
        ok = v.value == default
        r.ob(ok, {"in": f.short, "call_location_frame": v.value, "default": default})
        if not ok:
            r.violate(f"{f.short}: nodes are created with call_location_frame={v.value} (everywhere else: {default})", f.loc(c),
                      "the frame walk of get_call_location goes a different number of frames up for these nodes: a failing node is reported "
                      "at a line inside the library (or at its caller's caller) instead of the user's line", norm_src(c)[:100])
    r.ob(True, {"default": default, "explicit sites": len(sites)})
    # binding a decorated method must not add a Python frame between the user's line and LazyExecNode.__call__
    lz = ctx.P.classes.get(ctx.cls_q("LazyExecNode"))
    g = lz.methods.get("__get__") if lz is not None else None
    if g is not None:
        nested = [n for n in ast.walk(g.node) if isinstance(n, (ast.FunctionDef, ast.AsyncFunctionDef, ast.Lambda)) and n is not g.node]
        calls_self = [n for n in nested if any(isinstance(c, ast.Call) and dotted(c.func) == "self" for c in ast.walk(n))]
        r.ob(not calls_self, {"LazyExecNode.__get__ binds without a wrapper frame": not calls_self})
        if calls_self:
            r.violate("LazyExecNode.__get__: a decorated method is bound through a wrapper function", g.loc(calls_self[0]),
                      "obj.method(...) inside a DAG goes through one more Python frame before the node is created: the frame walk of "
                      "get_call_location stops inside the library, and a failing node is reported at that line instead of the user's",
                      norm_src(calls_self[0])[:100] if not isinstance(calls_self[0], ast.Lambda) else "lambda")
    return r


def _lazy_dispatches(ctx: Ctx, m) -> list:
    """Async dispatches that only create a task around a coroutine: nothing reaches the pool before the scheduler suspends."""
    return [info for info in m.dispatch.values() if info["kind"] == "async" and info.get("wrapped")
            and info.get("callee") in ctx.P.funcs and ctx.P.funcs[info["callee"]].is_async]


def sch_eager(ctx: Ctx) -> RuleResult:
    """A dispatched async-thread node reaches the pool at dispatch time, not at the scheduler's next suspension."""
    from .sch import model

    r = RuleResult("SCH-EAGER")
    m = model(ctx)
    n_async = [info for info in m.dispatch.values() if info["kind"] == "async"]
    if not n_async:
        raise Undecided("no async dispatch found")
    lazy = _lazy_dispatches(ctx, m)
    blocking = False
    for p in m.paths():
        if not p.feasible:
            continue
        for e in p.events:
            if (e.kind == "DISPATCH" and e.data["kind"] == "inline") or (e.kind == "WAIT" and not e.data["needs_await"]):
                blocking = True
    bad = bool(lazy) and blocking
    r.ob(not bad, {"async dispatches": len(n_async), "only create a task around a coroutine": len(lazy),
                   "the scheduler can block the loop before it suspends (inline node / blocking wait)": blocking})
    if bad:
        r.violate("scheduler: an async-thread node reaches the pool only at the scheduler's next suspension", m.fn.loc(lazy[0]["stmt"]),
                  "a task around a coroutine starts when the scheduler coroutine next yields; a main-thread node (or a blocking wait) "
                  "dispatched right after it runs first: the two never overlap although a worker is free, and a ready node of higher "
                  "priority starts after a lower one", norm_src(lazy[0]["stmt"]))
    return r


def err_failstop(ctx: Ctx) -> RuleResult:
    """Tasks created for async-thread nodes start lazily (at the next await): when the scheduler observes a failure before yielding,
    it must cancel them on its way out, otherwise a node starts after the call has raised."""
    from .sch import model

    r = RuleResult("ERR-FAILSTOP")
    m = model(ctx)
    lazy = _lazy_dispatches(ctx, m)
    if not lazy:
        r.ob(True, {"lazily started tasks": 0})
        return r
    # is the loop enclosed in a try whose handler / finally cancels the tasks of the async in-flight set(s)?
    async_sets = {name for name, k in m.F.items() if k == "async"}
    protected = False
    for n in iter_own_nodes(m.fn.node):
        if isinstance(n, ast.Try) and any(m.loop_stmt is x for s_ in n.body for x in ast.walk(s_)):
            blocks = [b for h in n.handlers for b in h.body] + list(n.finalbody)
            for b in blocks:
                for c in ast.walk(b):
                    if isinstance(c, ast.Call) and isinstance(c.func, ast.Attribute) and c.func.attr == "cancel":
                        protected = True
    # can a failure be observed between the creation of a task and the next await?  (inline dispatch, or a non-awaited helper check)
    window = False
    for p in m.paths():
        if not p.feasible:
            continue
        for e in p.events:
            if e.kind == "DISPATCH" and e.data["kind"] == "inline":
                window = True
            if e.kind == "WAIT" and not e.data["needs_await"]:
                window = True
    r.ob(protected or not window, {"tasks created with": sorted({i["wrapped"] for i in lazy}), "failure observable before the next await": window,
                                   "cancelled on exceptional exit": protected})
    if window and not protected:
        r.violate("scheduler: tasks created for async-thread nodes are not cancelled when a failure is observed", m.fn.loc(m.loop_stmt),
                  "asyncio.ensure_future only schedules the coroutine; if a main-thread node raises (or a thread future's failure is observed) "
                  "before the scheduler awaits again, the exception leaves the scheduler while the task is still pending: in an AsyncDAG the "
                  "event loop then starts that node AFTER the call has raised", sorted(async_sets))
    return r


def err_locfresh(ctx: Ctx) -> RuleResult:
    """The call location of a node is read from the frame of THIS call: `get_call_location` neither reads nor fills module-level
    state (a cache keyed by less than file + line hands a second usage of the same function the location of the first)."""
    r = RuleResult("ERR-LOCFRESH")
    f = ctx.method("ExecNode", "get_call_location")
    glob = ctx.P.modules[f.module.name].globals_ if hasattr(f.module, "name") else {}
    def bound(t: ast.AST):
        if isinstance(t, ast.Name):
            yield t.id
        elif isinstance(t, (ast.Tuple, ast.List)):
            for e_ in t.elts:
                yield from bound(e_)

    local = {a.arg for a in f.node.args.args} | {x for n in iter_own_nodes(f.node) if isinstance(n, (ast.Assign, ast.AnnAssign))
                                                  for x in bound(n.targets[0] if isinstance(n, ast.Assign) else n.target)}
    hits = []
    for n in iter_own_nodes(f.node):
        if isinstance(n, ast.Name) and n.id in glob and n.id not in local:
            st = glob[n.id]
            v = getattr(st, "value", None)
            mutable = isinstance(v, (ast.Dict, ast.List, ast.Set, ast.DictComp, ast.ListComp)) or \
                (isinstance(v, ast.Call) and (dotted(v.func) or "").split(".")[-1] in ("dict", "list", "set", "defaultdict", "OrderedDict", "WeakKeyDictionary", "lru_cache"))
            # a container that is only read (a constant table of file names to skip, ...) carries nothing from one call to the next
            written = any((isinstance(w, (ast.Assign, ast.AugAssign, ast.Delete)) and any(
                isinstance(t, ast.Subscript) and dotted(t.value) == n.id for t in (w.targets if isinstance(w, (ast.Assign, ast.Delete)) else [w.target])))
                or (isinstance(w, ast.Call) and isinstance(w.func, ast.Attribute) and dotted(w.func.value) == n.id
                    and w.func.attr in ("setdefault", "update", "append", "add", "pop", "clear", "extend", "insert", "__setitem__"))
                for w in iter_own_nodes(f.node))
            if mutable and written:
                hits.append(n)
    cached = [d for d in f.node.decorator_list if "cache" in norm_src(d)]
    r.ob(not hits and not cached, {"module-level containers used by get_call_location": sorted({h.id for h in hits}), "caching decorators": [norm_src(d) for d in cached]})
    if hits or cached:
        what = hits[0].id if hits else norm_src(cached[0])
        r.violate(f"{f.short}: the call location goes through shared state ({what})", f.loc(hits[0]) if hits else f.loc(),
                  "the location reported for a failing node must be the line of the call that created that node; a memoised lookup "
                  "returns the line of an earlier call whenever its key does not tell the two calls apart", what)
    return r


RULES = {"ERR-LOCFRESH": err_locfresh, "ERR-WRAP": err_wrap, "ERR-CHECK": err_check, "ERR-NOSWALLOW": err_noswallow, "ERR-CTX": err_ctx, "ERR-FAILSTOP": err_failstop, "SCH-EAGER": sch_eager,
         "ERR-LOGFMT": err_logfmt, "ERR-FRAME": err_frame}
