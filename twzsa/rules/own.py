"""own rules."""
RULES = {}
