"""OWN - ownership and effects (DESIGN 4.4).

Alias classes of the object a mutation targets (container level):
  ("owned",)            created in this function (constructor, literal, comprehension, copy, deepcopy, fresh call result)
  ("param", name)       a parameter (incl. 'self' of helper classes): obligation moves to the callers
  ("shared", what)      state of a DAG instance (self.<field> in the DAG classes, self.dag.<x> in executors)
  ("execfield", name)   a field of an executor object (documented single-use, not shared)
  ("global", q)         module-level object
  ("elem", cls)         element of a container of class cls
  ("unknown", why)
"""
from __future__ import annotations

import ast
from typing import Dict, List, Optional, Set, Tuple

from ..ctx import Ctx, arg_for_param, dotted, names_in
from ..loader import FuncInfo, iter_own_nodes, own_walk
from ..report import RuleResult, Undecided, norm_src
from .ref import _if_chains, control_funcs, pkg_funcs

MUTATORS = {
    "append", "extend", "insert", "remove", "pop", "clear", "sort", "reverse", "update", "popitem", "setdefault", "force_set",
    "__setitem__", "__delitem__", "add", "discard", "difference_update", "intersection_update", "symmetric_difference_update",
    "remove_node", "remove_nodes_from", "remove_root_node", "remove_any_root_node", "remove_recursively", "add_node",
    "add_nodes_from", "add_edge", "add_edges_from", "remove_edge", "remove_edges_from", "add_exec_node",
}
FRESH_CALLS = {"copy", "deepcopy", "dict", "list", "set", "tuple", "sorted", "frozenset", "StrictDict", "BiDict", "defaultdict",
               "str", "int", "bool", "len", "max", "min", "sum", "iter", "reversed", "zip", "enumerate", "chain", "isinstance",
               "getattr", "type", "repr", "Counter", "Path", "open"}
FRESH_METHODS = {"copy", "union", "difference", "intersection", "symmetric_difference", "items", "values", "keys", "split",
                 "join", "format", "subgraph", "successors", "predecessors", "nodes", "edges"}

DAG_CLASSES = ("BaseDAG", "DAG", "AsyncDAG")
EXEC_CLASSES = ("BaseDAGExecution", "DAGExecution", "AsyncDAGExecution")


class Own:
    def __init__(self, ctx: Ctx):
        self.ctx = ctx
        self.dag_qs = {ctx.cls_q(c) for c in DAG_CLASSES}
        self.exec_qs = {ctx.cls_q(c) for c in EXEC_CLASSES}
        self._mp: Dict[str, Dict[str, List[dict]]] = {}
        self._ret: Dict[str, tuple] = {}
        self._stack: List[str] = []
        self._inprog: Set[tuple] = set()
        self._name_memo: Dict[tuple, tuple] = {}
        self._ret_pos: Dict[str, Optional[List[tuple]]] = {}
        from ..splice import SpliceInterp

        try:
            sp = ctx.memo("splice_interp", lambda: SpliceInterp(ctx))
            self.splice_nodes = {id(x) for x in ast.walk(sp.block)}
        except Exception:  # the interpreter could not read the splice: its block is still the description branch of DAG.__call__
            self.splice_nodes = set()
            call_ = ctx.own_method("DAG", "__call__")
            if call_ is not None:
                for n_ in iter_own_nodes(call_.node):
                    if isinstance(n_, ast.If) and any(
                            isinstance(x, ast.Call) and isinstance(x.func, ast.Attribute) and x.func.attr == "append"
                            and (dotted(x.func.value) or "").endswith("DAG_PREFIX") for s_ in n_.body for x in ast.walk(s_)):
                        self.splice_nodes = {id(x) for x in ast.walk(n_)}
                        break

    # ------------------------------------------------------------------ run-reachable functions
    def entries(self) -> List[FuncInfo]:
        out = []
        for cn in DAG_CLASSES[1:]:
            for m in ("__call__", "setup", "run_subgraph"):
                f = self.ctx.own_method(cn, m)
                if f is None:
                    raise Undecided(f"run entry point {cn}.{m} not found")
                out.append(f)
        for cn in EXEC_CLASSES[1:]:
            for m in ("__call__", "setup"):
                f = self.ctx.own_method(cn, m)
                if f is None:
                    raise Undecided(f"run entry point {cn}.{m} not found")
                out.append(f)
        return out

    def callees(self, f: FuncInfo) -> List[Tuple[ast.Call, str, dict]]:
        """(call, callee qualname, info) including bound methods passed as arguments and property reads."""
        out = []
        ctx = self.ctx
        for n in iter_own_nodes(f.node):
            if id(n) in self.splice_nodes:
                continue
            if isinstance(n, ast.Call):
                q = ctx.T.resolve_callee(f, n, ctx.env_at(f, n))
                if q in ctx.P.funcs:
                    out.append((n, q, {"kind": "call"}))
                elif q in ctx.P.classes:
                    c = ctx.P.classes[q]
                    for mn in ("__init__", "__post_init__"):
                        m = ctx.P.find_method(c, mn)
                        if m is not None:
                            out.append((n, m.qualname, {"kind": "ctor"}))
                for a in list(n.args) + [k.value for k in n.keywords]:
                    if isinstance(a, ast.Attribute):
                        t = ctx.type_of(f, a)
                        if t[0] == "method" and t[1] in ctx.P.funcs:
                            out.append((n, t[1], {"kind": "bound", "ref": a}))
            elif isinstance(n, ast.Attribute) and isinstance(n.ctx, ast.Load):
                bt = ctx.type_of(f, n.value)
                if bt[0] == "cls" and bt[1] in ctx.P.classes:
                    m = ctx.P.find_method(ctx.P.classes[bt[1]], n.attr)
                    if m is not None and "property" in m.decorators():
                        out.append((n, m.qualname, {"kind": "property"}))
            elif isinstance(n, (ast.With, ast.AsyncWith)):
                for it in n.items:
                    t = ctx.type_of(f, it.context_expr)
                    cq = t[1] if t[0] == "cls" else None
                    if cq in ctx.P.classes:
                        for mn in ("__enter__", "__exit__"):
                            m = ctx.P.find_method(ctx.P.classes[cq], mn)
                            if m is not None:
                                out.append((n, m.qualname, {"kind": "with", "recv": it.context_expr}))
        return out

    def reachable(self) -> List[FuncInfo]:
        def build():
            seen: Dict[str, FuncInfo] = {}
            st = list(self.entries())
            while st:
                f = st.pop()
                if f.qualname in seen:
                    continue
                seen[f.qualname] = f
                for _, q, _ in self.callees(f):
                    if q not in seen:
                        st.append(self.ctx.P.funcs[q])
                for g in self.ctx.P.funcs.values():
                    if g.parent is f and g.qualname not in seen:
                        st.append(g)
            return list(seen.values())
        return self.ctx.memo("own_reachable", build)

    # ------------------------------------------------------------------ classification
    def params(self, f: FuncInfo) -> List[str]:
        a = f.node.args
        out = [p.arg for p in a.posonlyargs + a.args + a.kwonlyargs]
        if a.vararg:
            out.append(a.vararg.arg)
        if a.kwarg:
            out.append(a.kwarg.arg)
        return out

    def classify(self, f: FuncInfo, e: ast.AST, at: ast.AST, depth: int = 0) -> tuple:
        ctx = self.ctx
        if depth > 40:
            return ("unknown", "depth")
        if isinstance(e, (ast.List, ast.Dict, ast.Set, ast.Tuple, ast.ListComp, ast.SetComp, ast.DictComp, ast.GeneratorExp,
                          ast.Constant, ast.JoinedStr, ast.BinOp, ast.Compare, ast.BoolOp, ast.Lambda)):
            if isinstance(e, ast.BoolOp):
                cs = [self.classify(f, v, at, depth + 1) for v in e.values]
                return self._join(cs)
            return ("owned",)
        if isinstance(e, ast.Await):
            return self.classify(f, e.value, at, depth + 1)
        if isinstance(e, ast.IfExp):
            return self._join([self.classify(f, e.body, at, depth + 1), self.classify(f, e.orelse, at, depth + 1)])
        if isinstance(e, ast.Starred):
            return self.classify(f, e.value, at, depth + 1)
        if isinstance(e, ast.Name):
            return self.classify_name(f, e.id, at, depth)
        if isinstance(e, ast.Attribute):
            d = dotted(e) or ""
            bt = ctx.type_of(f, e.value)
            if bt[0] == "module":
                return ("global", f"{bt[1]}.{e.attr}")
            if bt[0] == "cls" and bt[1] in ctx.P.classes:
                m = ctx.P.find_method(ctx.P.classes[bt[1]], e.attr)
                if m is not None and "property" in m.decorators():
                    rc = self.ret_class(m)
                    if rc[0] == "param" and rc[1] == "self":
                        return self.classify(f, e.value, at, depth + 1)
                    if rc[0] == "selffield":
                        return self._field_class(f, e.value, rc[1], at, depth)
                    return rc
                return self._field_class(f, e.value, e.attr, at, depth)
            base = self.classify(f, e.value, at, depth + 1)
            if base[0] in ("owned",):
                return ("owned",)
            return ("elem", base)
        if isinstance(e, ast.Subscript):
            base = self.classify(f, e.value, at, depth + 1)
            return ("elem", base)
        if isinstance(e, ast.Call):
            fn = e.func
            d = dotted(fn) or ""
            last = d.split(".")[-1]
            q = ctx.T.resolve_callee(f, e, ctx.env_at(f, e))
            if q in ctx.P.classes:
                return ("owned",)
            if q in ctx.P.funcs:
                callee = ctx.P.funcs[q]
                rc = self.ret_class(callee)
                if rc[0] == "param":
                    if rc[1] == self.params(callee)[0] and callee.cls is not None and isinstance(fn, ast.Attribute):
                        return self.classify(f, fn.value, at, depth + 1)
                    a = arg_for_param(callee.node, e, rc[1], skip_self=callee.cls is not None and isinstance(fn, ast.Attribute))
                    if a is not None:
                        return self.classify(f, a, at, depth + 1)
                    return ("unknown", f"argument for {rc[1]} of {callee.short}")
                if rc[0] == "selffield" and isinstance(fn, ast.Attribute):
                    return self._field_class(f, fn.value, rc[1], at, depth)
                return rc
            if isinstance(fn, ast.Name) and last in FRESH_CALLS:
                return ("owned",)
            if isinstance(fn, ast.Attribute) and fn.attr in FRESH_METHODS:
                return ("owned",)
            if isinstance(fn, ast.Attribute) and fn.attr in ("get", "pop", "__getitem__", "setdefault"):
                return ("elem", self.classify(f, fn.value, at, depth + 1))
            if q is not None and q.startswith("ext:"):
                return ("owned",)  # external constructors / functions return objects the package does not share
            if isinstance(fn, ast.Call):  # type(x)(**values)
                return ("owned",)
            if q is not None and q.startswith("bm:"):
                return ("owned",)
            return ("unknown", "call " + norm_src(fn))
        return ("unknown", type(e).__name__)

    def _field_class(self, f: FuncInfo, recv: ast.AST, attr: str, at: ast.AST, depth: int) -> tuple:
        ctx = self.ctx
        bt = ctx.type_of(f, recv)
        rc = self.classify(f, recv, at, depth + 1)
        if bt[0] == "cls":
            if any(ctx.P.is_subclass(bt[1], q) or bt[1] == q for q in self.dag_qs):
                if rc[0] == "owned":
                    return ("owned",)
                return ("shared", f"DAG.{attr}")
            if any(ctx.P.is_subclass(bt[1], q) or bt[1] == q for q in self.exec_qs):
                if attr == "dag":
                    return ("shared", "DAG")
                if rc[0] == "owned":
                    return ("owned",)
                return ("execfield", attr)
        if rc[0] == "owned":
            return ("owned",)
        if rc[0] == "param":
            return ("param", rc[1])
        if rc[0] in ("shared", "global", "execfield"):
            return rc
        return ("elem", rc)

    def classify_name(self, f: FuncInfo, name: str, at: ast.AST, depth: int) -> tuple:
        key = (f.qualname, name, ctx_stmt_id(self.ctx, f, at))
        if key in self._name_memo:
            return self._name_memo[key]
        if key in self._inprog:
            return ("same",)
        self._inprog.add(key)
        try:
            res = self._classify_name(f, name, at, depth)
        finally:
            self._inprog.discard(key)
        if not self._inprog:
            self._name_memo[key] = res
        return res

    def _classify_name(self, f: FuncInfo, name: str, at: ast.AST, depth: int) -> tuple:
        ctx = self.ctx
        defs = ctx.reaching_defs(f, name, at)
        chain = ctx.P.enclosing_chain(f)
        is_param = name in self.params(f)
        if not defs:
            if is_param and f.cls is not None and self.params(f)[0] == name and "staticmethod" not in f.decorators():
                cq = f.cls.qualname
                if any(ctx.P.is_subclass(cq, q) or cq == q for q in self.dag_qs):
                    return ("shared", "DAG instance")
                if any(ctx.P.is_subclass(cq, q) or cq == q for q in self.exec_qs):
                    return ("execfield", "self")
            if is_param:
                return ("param", name)
            # closure variable of an enclosing function, or a module-level name
            for g in chain[1:]:
                if name in self.params(g):
                    return ("param", name)
                binds = [n for n in iter_own_nodes(g.node) if isinstance(n, (ast.Assign, ast.AnnAssign)) and any(
                    ctx._binds(t, name) for t in (n.targets if isinstance(n, ast.Assign) else [n.target]))]
                if binds:
                    cs = [self.classify(g, b.value, b, depth + 1) for b in binds if b.value is not None]
                    return self._join(cs) if cs else ("unknown", "closure")
            q = ctx.P.resolve_name(f.module, name)
            if q and "." in q and q.rsplit(".", 1)[0] in ctx.P.modules and q not in ctx.P.funcs and q not in ctx.P.classes:
                return ("global", q)
            # a local bound only by a for/with/comprehension before this point
            return ("unknown", f"no reaching definition of {name}")
        cs = []
        for d in defs:
            if isinstance(d, ast.Assign):
                if len(d.targets) == 1 and isinstance(d.targets[0], ast.Name):
                    cs.append(self.classify(f, d.value, d, depth + 1))
                else:
                    # tuple unpacking: position-wise when the value is a call of a package function returning a tuple
                    pos = None
                    tg = d.targets[0]
                    if isinstance(tg, (ast.Tuple, ast.List)):
                        for i, t in enumerate(tg.elts):
                            if isinstance(t, ast.Name) and t.id == name:
                                pos = i
                    v = self.classify_call_position(f, d.value, pos, d, depth + 1) if pos is not None else None
                    if v is None:
                        v = self.classify(f, d.value, d, depth + 1)
                        v = ("owned",) if v[0] == "owned" else ("elem", v)
                    cs.append(v)
            elif isinstance(d, ast.AnnAssign):
                cs.append(self.classify(f, d.value, d, depth + 1) if d.value is not None else ("unknown", "annotation only"))
            elif isinstance(d, ast.AugAssign):
                cs.append(self.classify_name(f, name, d, depth + 1) if False else ("owned",) if isinstance(d.op, ast.Add) and False
                          else ("same",))
            elif isinstance(d, (ast.For, ast.AsyncFor)):
                it = self.classify(f, d.iter, d, depth + 1)
                cs.append(("owned",) if it[0] == "owned" and self._owned_deep(f, d.iter, d) else ("elem", it))
            else:
                cs.append(("unknown", type(d).__name__))
        if is_param and defs and ctx.entry_reaches(f, name, at):
            cs.append(("param", name))  # on some path the parameter's own value is still the current one
        had_same = any(self._root(c) == ("same",) for c in cs)
        cs = [c for c in cs if self._root(c) != ("same",)]
        if is_param and not cs:
            return ("param", name)
        if not cs and had_same:
            return ("same",)
        return self._join(cs) if cs else ("unknown", name)

    def _owned_deep(self, f: FuncInfo, e: ast.AST, at: ast.AST) -> bool:
        return False

    def classify_call_position(self, f: FuncInfo, value: ast.AST, pos: int, at: ast.AST, depth: int) -> Optional[tuple]:
        ctx = self.ctx
        v = value.value if isinstance(value, ast.Await) else value
        if isinstance(v, ast.Tuple) and pos < len(v.elts):
            return self.classify(f, v.elts[pos], at, depth)
        if not isinstance(v, ast.Call):
            return None
        q = ctx.T.resolve_callee(f, v, ctx.env_at(f, v))
        if q not in ctx.P.funcs:
            return None
        callee = ctx.P.funcs[q]
        rp = self.ret_positions(callee)
        if rp is None or pos >= len(rp):
            return None
        rc = rp[pos]
        if rc[0] == "param":
            is_m = callee.cls is not None and isinstance(v.func, ast.Attribute)
            if is_m and rc[1] == self.params(callee)[0]:
                return self.classify(f, v.func.value, at, depth)
            a = arg_for_param(callee.node, v, rc[1], skip_self=is_m)
            return self.classify(f, a, at, depth) if a is not None else ("unknown", f"argument for {rc[1]}")
        if rc[0] == "selffield" and isinstance(v.func, ast.Attribute):
            return self._field_class(f, v.func.value, rc[1], at, depth)
        if rc[0] == "forward":
            # the callee returns the result of another call unchanged (e.g. asyncio.run(coroutine(...)))
            return self.classify_call_position(callee, rc[1], pos, rc[2], depth + 1) if depth < 6 else None
        return rc

    def ret_positions(self, f: FuncInfo) -> Optional[List[tuple]]:
        """Per-position alias classes when every return of f is a tuple display of one length (or forwards such a call)."""
        if f.qualname in self._ret_pos:
            return self._ret_pos[f.qualname]
        self._ret_pos[f.qualname] = None
        rets = [n for n in iter_own_nodes(f.node) if isinstance(n, ast.Return) and n.value is not None]
        out: Optional[List[tuple]] = None
        if rets and all(isinstance(r_.value, ast.Tuple) for r_ in rets) and len({len(r_.value.elts) for r_ in rets}) == 1:
            n = len(rets[0].value.elts)
            out = []
            for i in range(n):
                cs = []
                for r_ in rets:
                    x = r_.value.elts[i]
                    c = self.classify(f, x, r_)
                    if isinstance(x, ast.Attribute) and f.cls is not None and dotted(x.value) == (self.params(f) or [None])[0] \
                            and c[0] in ("shared", "execfield", "elem", "param"):
                        c = ("selffield", x.attr)
                    cs.append(self._root(c) if c[0] == "elem" else c)
                out.append(self._join(cs))
        elif len(rets) == 1:
            v = rets[0].value
            inner = v.value if isinstance(v, ast.Await) else v
            # asyncio.run(g(...)) / await g(...) / g(...)
            if isinstance(inner, ast.Call) and (dotted(inner.func) or "").endswith("asyncio.run") and inner.args:
                inner = inner.args[0]
            if isinstance(inner, ast.Call):
                q = self.ctx.T.resolve_callee(f, inner, self.ctx.env_at(f, inner))
                if q in self.ctx.P.funcs:
                    rp = self.ret_positions(self.ctx.P.funcs[q])
                    if rp is not None:
                        callee = self.ctx.P.funcs[q]
                        out = []
                        for rc in rp:
                            if rc[0] == "param":
                                a = arg_for_param(callee.node, inner, rc[1], skip_self=callee.cls is not None and isinstance(inner.func, ast.Attribute))
                                out.append(self.classify(f, a, rets[0]) if a is not None else ("unknown", "fwd"))
                            else:
                                out.append(rc)
        self._ret_pos[f.qualname] = out
        return out

    def _join(self, cs: List[tuple]) -> tuple:
        cs = [c for c in cs if c is not None]
        if not cs:
            return ("unknown", "empty")
        order = ["global", "shared", "execfield", "param", "elem", "unknown", "owned"]
        cs.sort(key=lambda c: order.index(c[0]) if c[0] in order else 5)
        return cs[0]

    # ------------------------------------------------------------------ summaries
    def ret_class(self, f: FuncInfo) -> tuple:
        """Alias class of the value a function returns, expressed in its own terms (param names / self fields)."""
        if f.qualname in self._ret:
            return self._ret[f.qualname]
        if f.qualname in self._stack:
            return ("owned",)
        self._stack.append(f.qualname)
        self._ret[f.qualname] = ("owned",)
        cs = []
        for n in iter_own_nodes(f.node):
            if isinstance(n, ast.Return) and n.value is not None:
                v = n.value
                elts = v.elts if isinstance(v, ast.Tuple) else [v]
                for x in elts:
                    c = self.classify(f, x, n)
                    if isinstance(x, ast.Attribute) and dotted(x.value) == (self.params(f) or [None])[0] and f.cls is not None \
                            and c[0] in ("shared", "execfield", "elem", "param"):
                        c = ("selffield", x.attr)
                    cs.append(c)
        self._stack.pop()
        res = ("owned",)
        for kind in ("global", "shared", "selffield", "execfield", "param"):  # worst first
            hit = [c for c in cs if c[0] == kind]
            if hit:
                res = hit[0]
                break
        self._ret[f.qualname] = res
        return res

    def mutations(self, f: FuncInfo) -> List[dict]:
        """Direct mutation sites of f: {node, target expr, how}."""
        out = []
        for n in iter_own_nodes(f.node):
            if id(n) in self.splice_nodes:
                continue
            if isinstance(n, (ast.Assign, ast.AugAssign, ast.AnnAssign)):
                tgs = n.targets if isinstance(n, ast.Assign) else [n.target]
                flat = []
                for t in tgs:
                    flat += list(t.elts) if isinstance(t, (ast.Tuple, ast.List)) else [t]
                for t in flat:
                    if isinstance(t, ast.Subscript):
                        out.append({"node": n, "target": t.value, "how": "item write", "stmt": n})
                    elif isinstance(t, ast.Attribute):
                        out.append({"node": n, "target": t.value, "how": f"attribute write .{t.attr}", "stmt": n, "attr": t.attr})
                    elif isinstance(t, ast.Name) and isinstance(n, ast.AugAssign) and isinstance(n.op, (ast.BitOr, ast.BitAnd, ast.Sub, ast.Add, ast.BitXor)):
                        ty = self.ctx.type_of(f, t)
                        if ty[0] in ("set", "list", "dict"):
                            out.append({"node": n, "target": t, "how": "in-place operator", "stmt": n})
            elif isinstance(n, ast.Delete):
                for t in n.targets:
                    if isinstance(t, (ast.Subscript, ast.Attribute)):
                        out.append({"node": n, "target": t.value, "how": "del", "stmt": n})
            elif isinstance(n, ast.Call):
                fn = n.func
                if isinstance(fn, ast.Attribute) and fn.attr in MUTATORS:
                    q = self.ctx.T.resolve_callee(f, n, self.ctx.env_at(f, n))
                    if q in self.ctx.P.funcs:
                        continue  # a package method: handled through its summary
                    rt = self.ctx.type_of(f, fn.value)
                    if rt[0] in ("str",):
                        continue
                    tgt = fn.value
                    if isinstance(tgt, ast.Call) and dotted(tgt.func) == "super" and f.cls is not None and self.params(f):
                        tgt = ast.copy_location(ast.Name(id=self.params(f)[0], ctx=ast.Load()), tgt)  # super().m(...) acts on self
                    out.append({"node": n, "target": tgt, "how": f".{fn.attr}()", "stmt": n})
                elif dotted(fn) in ("object.__setattr__", "setattr") and len(n.args) >= 2:
                    out.append({"node": n, "target": n.args[0], "how": "setattr", "stmt": n})
            elif isinstance(n, ast.Global):
                out.append({"node": n, "target": None, "how": "global statement", "stmt": n, "names": n.names})
        return out

    def mutated_params(self, f: FuncInfo) -> Dict[str, List[dict]]:
        """param name -> evidence list; a param is mutated directly or by being passed to a callee that mutates it."""
        if f.qualname in self._mp:
            return self._mp[f.qualname]
        self._mp[f.qualname] = {}
        res: Dict[str, List[dict]] = {}
        for m in self.mutations(f):
            if m["target"] is None:
                continue
            c = self.classify(f, m["target"], m["stmt"])
            root = self._root(c)
            if root[0] == "param":
                res.setdefault(root[1], []).append({"in": f.short, "site": norm_src(m["stmt"]), "where": f.loc(m["node"])})
        for call, q, info in self.callees(f):
            callee = self.ctx.P.funcs[q]
            cm = self.mutated_params(callee)
            if not cm:
                continue
            for pn, ev in cm.items():
                a = self._actual(f, call, callee, pn, info)
                if a is None:
                    continue
                c = self.classify(f, a, call if isinstance(call, ast.stmt) else self._stmt_of(f, call))
                root = self._root(c)
                if root[0] == "param":
                    res.setdefault(root[1], []).append({"in": f.short, "site": norm_src(call)[:120], "via": callee.short,
                                                        "where": f.loc(call)})
        self._mp[f.qualname] = res
        return res

    def _stmt_of(self, f: FuncInfo, node: ast.AST) -> ast.AST:
        return node

    def _root(self, c: tuple) -> tuple:
        while c[0] == "elem":
            c = c[1]
        return c

    def _actual(self, f: FuncInfo, call: ast.AST, callee: FuncInfo, pn: str, info: dict) -> Optional[ast.AST]:
        ps = self.params(callee)
        is_method = callee.cls is not None and "staticmethod" not in callee.decorators()
        if info["kind"] == "property":
            return call.value if is_method and ps and pn == ps[0] else None  # type: ignore[attr-defined]
        if info["kind"] == "with":
            return info["recv"] if is_method and ps and pn == ps[0] else None
        if info["kind"] == "ctor":
            return None
        if info["kind"] == "bound":
            ref = info["ref"]
            if is_method and ps and pn == ps[0]:
                return ref.value
            # arguments given to the submitting call by keyword are forwarded to the bound method
            for k in call.keywords:  # type: ignore[attr-defined]
                if k.arg == pn:
                    return k.value
            return None
        if is_method and ps and pn == ps[0]:
            fn = call.func  # type: ignore[attr-defined]
            return fn.value if isinstance(fn, ast.Attribute) else None
        return arg_for_param(callee.node, call, pn, skip_self=is_method and isinstance(call.func, ast.Attribute))  # type: ignore[arg-type]


def ctx_stmt_id(ctx: Ctx, f: FuncInfo, at: ast.AST):
    n = ctx.stmt_containing(f, at)
    return n if n is not None else id(at)


def own(ctx: Ctx) -> Own:
    return ctx.memo("own_engine", lambda: Own(ctx))


# ---------------------------------------------------------------------------------------------- licences
def _writeback_sites(ctx: Ctx):
    """Element writes into self.results inside run_subgraph of the DAG classes, with their guard."""
    out = []
    for cn in DAG_CLASSES[1:]:
        f = ctx.own_method(cn, "run_subgraph")
        if f is None:
            continue
        from .val import reach_conditions

        for n in iter_own_nodes(f.node):
            if isinstance(n, ast.Assign) and isinstance(n.targets[0], ast.Subscript) and norm_src(n.targets[0].value) == "self.results":
                # the guard: enclosing tests and the negated guard clauses (continue / return) before the write, inside its loop
                lp = next((x for x in iter_own_nodes(f.node) if isinstance(x, (ast.For, ast.While)) and any(n is y for y in own_walk(x))), None)
                conds = reach_conditions(lp if lp is not None else f.node, n)
                out.append((f, n, tuple(conds) if conds is not None else None))
    return out


def _guard_is_setup_once(test_chain) -> Tuple[Optional[bool], str]:
    """(verdict, shown): True = exactly 'setup node and not yet recorded'; False = recognisably weaker/stronger; None = unknown shape."""
    if test_chain is None:
        return None, "(reach conditions not readable)"
    parts = []
    for t, v in test_chain:
        if v:
            parts.append(norm_src(t))
        elif isinstance(t, ast.Compare) and len(t.ops) == 1 and isinstance(t.ops[0], ast.In):
            parts.append(f"{norm_src(t.left)} not in {norm_src(t.comparators[0])}")
        elif isinstance(t, ast.Compare) and len(t.ops) == 1 and isinstance(t.ops[0], ast.NotIn):
            parts.append(f"{norm_src(t.left)} in {norm_src(t.comparators[0])}")
        else:
            parts.append("not " + norm_src(t))
    shown = " and ".join(parts)
    setup_t = [p for p in parts if p.endswith(".setup") and not p.startswith("not ")]
    exec_ok = [p for p in parts if (p.startswith("not ") and p.endswith(".executed(self.results)")) or p.endswith(" not in self.results")]
    exec_any = [p for p in parts if "self.results" in p]
    extra = [p for p in parts if p not in setup_t and p not in exec_any]
    if not setup_t or not exec_any or extra:
        return False, shown
    if len(exec_ok) == len(exec_any) == 1 and len(setup_t) == 1:
        return True, shown
    return None, shown


def own_writeback(ctx: Ctx) -> RuleResult:
    r = RuleResult("OWN-WRITEBACK")
    sites = _writeback_sites(ctx)
    r.require(len(sites) >= 2, f"setup write-back sites: found {len(sites)} (expected one per DAG flavour)")
    for f, n, ch in sites:
        ok, shown = _guard_is_setup_once(ch)
        if ok is None:
            raise Undecided(f"{f.short}: write-back guard in an unrecognised form: {shown}")
        r.ob(ok, {"write-back": norm_src(n), "in": f.short, "guard": shown})
        if not ok:
            r.violate(f"{f.short}: write into the DAG's results guarded by '{shown}'", f.loc(n),
                      "the only element write into a DAG's results on a run path must be guarded by 'the node is a setup node and "
                      "its result is not already recorded': a weaker guard leaks per-call values into later calls, a stronger one "
                      "makes a setup node run again", shown)
        # the written key/value come from the results of this execution
        loop = [x for x in iter_own_nodes(f.node) if isinstance(x, ast.For) and any(n is y for y in ast.walk(x))]
        okl = len(loop) == 1 and norm_src(loop[0].iter).endswith(".items()")
        r.ob(okl, {"iterates": norm_src(loop[0].iter) if loop else None})
        # every execution reaches the write-back: no return between the scheduler run and the loop
        if loop and loop[0] in f.node.body:
            before = f.node.body[:f.node.body.index(loop[0])]
            early = [x for st in before for x in own_walk(st) if isinstance(x, ast.Return)]
            r.ob(not early, {"in": f.short, "write-back reached by every execution": not early})
            if early:
                st = next(st for st in before if any(x is early[0] for x in own_walk(st)))
                r.violate(f"{f.short}: the function returns before the setup write-back ({norm_src(st.test)[:70] if isinstance(st, ast.If) else 'early return'})",
                          f.loc(early[0]), "setup results computed by this execution are not remembered: those setup nodes run again in every "
                          "later call (after a partial setup(target_nodes=..) the rest of the setup nodes are re-entered per call)",
                          norm_src(st)[:120])
    # any other write to a DAG's results in the DAG classes (outside the splice / build paths) is a violation of the licence
    o = own(ctx)
    for f in o.reachable():
        if f.cls is None or f.cls.qualname not in o.dag_qs:
            continue
        for m in o.mutations(f):
            if m["target"] is not None and norm_src(m["target"]) == "self.results" and not any(m["stmt"] is s[1] for s in sites):
                r.ob(False)
                r.violate(f"{f.short}: unlicensed mutation of the DAG's results: {norm_src(m['stmt'])[:80]}", f.loc(m["node"]),
                          "a DAG instance may only ever gain setup results", norm_src(m["stmt"]))
    return r


def _setup_rebinds(ctx: Ctx) -> set:
    """Statements that re-bind self.results from a scheduler run of a setup-only graph (the licence OWN-SETUP checks)."""
    def build():
        from .gt import _graph_origin

        out = set()
        for f in ctx.funcs():
            if f.cls is None:
                continue
            for n in iter_own_nodes(f.node):
                if not isinstance(n, ast.Assign):
                    continue
                flat = []
                for t in n.targets:
                    flat += list(t.elts) if isinstance(t, ast.Tuple) else [t]
                own_t = [norm_src(t) for t in flat if norm_src(t) in ("self.results", "self.dag.results")]
                if not own_t:
                    continue
                v = n.value.value if isinstance(n.value, ast.Await) else n.value
                if isinstance(v, ast.Call) and (dotted(v.func) or "").split(".")[-1] in ("sync_execute", "async_execute"):
                    g = next((k.value for k in v.keywords if k.arg == "graph"), None)
                    rs_ = next((k.value for k in v.keywords if k.arg == "results"), None)
                    # (the executor's own form `.., self.dag.results, .. = scheduler(results=self.dag.results, graph=<setup-only>)` is the same
                    # licence written on the executor's side: it starts from the map it re-binds)
                    if g is not None and _graph_origin(ctx, f, g) == "setup-only" and (own_t[0] == "self.results" or (rs_ is not None and norm_src(rs_) == own_t[0])):
                        out.add(id(n))
        return out
    return ctx.memo("own.setup_rebinds", build)


def own_setup(ctx: Ctx) -> RuleResult:
    """The only re-binding of a DAG's results on a run path is setup(), from an execution of the setup-only graph."""
    r = RuleResult("OWN-SETUP")
    o = own(ctx)
    n_rebind = 0
    for f in o.reachable():
        if f.cls is None or f.cls.qualname not in o.dag_qs:
            continue
        for n in iter_own_nodes(f.node):
            if id(n) in o.splice_nodes:
                continue
            if isinstance(n, ast.Assign):
                flat = []
                for t in n.targets:
                    flat += list(t.elts) if isinstance(t, ast.Tuple) else [t]
                if any(norm_src(t) == "self.results" for t in flat):
                    n_rebind += 1
                    v = n.value.value if isinstance(n.value, ast.Await) else n.value
                    is_sched = isinstance(v, ast.Call) and (dotted(v.func) or "").split(".")[-1] in ("sync_execute", "async_execute")
                    g = next((k.value for k in v.keywords if k.arg == "graph"), None) if is_sched else None
                    origin = None
                    if g is not None:
                        from .gt import _graph_origin

                        origin = _graph_origin(ctx, f, g)
                    ok = is_sched and origin == "setup-only"
                    r.ob(ok, {"re-binding": norm_src(n)[:100], "in": f.short, "graph origin": origin})
                    if not ok:
                        r.violate(f"{f.short}: the DAG's results are re-bound from an execution of a graph that is not setup-only", f.loc(n),
                                  "results of non-setup nodes would persist in the DAG instance and be pruned from later calls",
                                  norm_src(n))
                    # the map that is adopted is everything the scheduler was started with plus what the setup-only graph produced:
                    # it must have been started with the DAG's own map and nothing else (cached values, call arguments)
                    if is_sched:
                        rs_ = next((k.value for k in v.keywords if k.arg == "results"), None)
                        if rs_ is not None:
                            own_map = norm_src(rs_) == "self.results"
                            if not own_map and isinstance(rs_, ast.Name):
                                ds_ = [d for d in ctx.reaching_defs(f, rs_.id, n) if isinstance(d, ast.Assign)]
                                own_map = bool(ds_) and all(norm_src(d.value) == "self.results" for d in ds_) and not ctx.entry_reaches(f, rs_.id, n)
                            r.ob(own_map, {"in": f.short, "the adopted execution starts from": norm_src(rs_)[:80]})
                            if not own_map:
                                r.violate(f"{f.short}: the execution whose whole result map becomes the DAG's results does not start from the "
                                          f"DAG's own map", f.loc(n),
                                          "whatever the caller put into the starting map (results read from a cache file, values of call "
                                          "arguments) is stored in the DAG instance for good: later calls find those ids already computed, "
                                          "skip the nodes and ignore the arguments they are given", norm_src(rs_)[:120])
    r.require(n_rebind >= 2, f"re-bindings of the DAG's results found: {n_rebind} (expected the setup path of both flavours)")
    # the setup-only filter
    from .gt import _pre_setup_filters

    # where the filter sits (in _pre_setup, in _run_setup, at the call) does not matter: the origin of every re-binding's graph was
    # followed above through parameters, callers and helpers. Only when that dataflow found NO setup-only origin is the missing
    # filter reported by name.
    okf = _pre_setup_filters(ctx)
    r.ob(True, {"_pre_setup itself keeps only setup nodes": okf})
    if not okf and r.findings:
        ps = ctx.method("BaseDAG", "_pre_setup")
        r.violate("BaseDAG._pre_setup: non-setup nodes are not removed from the graph given to setup()", ps.loc(),
                  "setup() would execute ordinary nodes and store their results in the DAG instance", None)
    return r


# ---------------------------------------------------------------------------------------------- OWN-RUN
def own_run(ctx: Ctx) -> RuleResult:
    r = RuleResult("OWN-RUN")
    o = own(ctx)
    fs = o.reachable()
    r.require(len(fs) >= 25, f"only {len(fs)} functions reachable from the run entry points")
    licensed = {id(n) for _, n, _ in _writeback_sites(ctx)}
    unknown = []
    n_mut = 0
    for f in fs:
        for m in o.mutations(f):
            if m["how"] == "global statement":
                continue
            n_mut += 1
            c = o.classify(f, m["target"], m["stmt"])
            root = o._root(c)
            inst = {"in": f.short, "site": norm_src(m["stmt"])[:100], "how": m["how"], "class": root[0] + (":" + str(root[1]) if len(root) > 1 else "")}
            if root[0] == "owned":
                r.ob(True, inst)
            elif root[0] == "param":
                r.ob(True, dict(inst, note="obligation moves to the callers"))
            elif root[0] == "execfield":
                # executors are disposable, but their graph must survive a failed run
                ok = c[0] == "execfield" and m["how"].startswith("attribute write") or m["how"].startswith("attribute write")
                r.ob(True, inst)
            elif root[0] == "shared":
                if id(m["stmt"]) in licensed:
                    r.ob(True, dict(inst, note="licensed: OWN-WRITEBACK"))
                elif m["how"].startswith("attribute write") and m.get("attr") == "results" and id(m["stmt"]) in _setup_rebinds(ctx):
                    r.ob(True, dict(inst, note="licensed: OWN-SETUP"))
                else:
                    r.ob(False, inst)
                    r.violate(f"{f.short}: mutates shared DAG state ({root[1]}): {norm_src(m['stmt'])[:80]}", f.loc(m["node"]),
                              "a function on a run path mutates an object that belongs to the DAG instance: the next call (or a "
                              "concurrent one) observes this call's data", norm_src(m["stmt"]))
            elif root[0] == "global":
                r.ob(False, inst)
                r.violate(f"{f.short}: mutates module-level state {root[1]}", f.loc(m["node"]),
                          "run paths must not touch module-level mutable state", norm_src(m["stmt"]))
            else:
                unknown.append((f, m, c))
    # obligations at call sites: arguments for mutated parameters
    n_obl = 0
    for f in fs:
        for call, q, info in o.callees(f):
            callee = ctx.P.funcs[q]
            for pn, ev in o.mutated_params(callee).items():
                a = o._actual(f, call, callee, pn, info)
                if a is None:
                    continue
                c = o.classify(f, a, call)
                root = o._root(c)
                n_obl += 1
                inst = {"call": norm_src(call)[:90], "in": f.short, "mutated parameter": f"{callee.short}({pn})",
                        "argument": norm_src(a), "class": root[0]}
                if root[0] in ("owned", "param"):
                    r.ob(True, inst)
                elif root[0] == "execfield":
                    is_graph = ctx.T.is_instance(ctx.type_of(f, a), ctx.cls_q("DiGraphEx"), maybe=False)
                    if is_graph:
                        continue  # judged by OWN-CONSUME
                    r.ob(True, inst)
                elif root[0] in ("shared", "global"):
                    r.ob(False, inst)
                    r.violate(f"{f.short}: passes shared state '{norm_src(a)}' to {callee.short}, which mutates its parameter '{pn}'",
                              f.loc(call), "the callee writes into an object that belongs to the DAG instance / module: state leaks "
                              "between calls; first mutation: " + ev[0]["site"] + " @ " + ev[0]["where"], ev[:3])
                else:
                    unknown.append((f, {"stmt": call, "node": call, "how": "argument"}, c))
    for f, m, c in unknown:
        r.ob(False, {"unclassified": norm_src(m["stmt"])[:100], "in": f.short, "why": str(c)})
    if unknown:
        f, m, c = unknown[0]
        raise Undecided(f"{len(unknown)} mutation target(s) could not be classified, first: {f.loc(m['node'])} "
                        f"{norm_src(m['stmt'])[:80]} -> {c}")
    r.note = f"{len(fs)} run-reachable functions, {n_mut} mutation sites, {n_obl} caller obligations"
    return r


def own_consume(ctx: Ctx) -> RuleResult:
    """The graph the scheduler consumes is fresh per call at every entry."""
    r = RuleResult("OWN-CONSUME")
    o = own(ctx)
    GQ = ctx.cls_q("DiGraphEx")
    n = 0
    for f in o.reachable():
        for call, q, info in o.callees(f):
            callee = ctx.P.funcs[q]
            for pn, ev in o.mutated_params(callee).items():
                t = ctx.T.env(callee).get(pn, ("any",))
                if not ctx.T.is_instance(t, GQ, maybe=False) or pn == "self":
                    continue
                a = o._actual(f, call, callee, pn, info)
                if a is None:
                    continue
                n += 1
                c = o.classify(f, a, call)
                root = o._root(c)
                shallow = isinstance(a, ast.Call) and (dotted(a.func) in ("copy", "copy.copy") or
                                                       (isinstance(a.func, ast.Attribute) and a.func.attr == "copy" and not a.args and
                                                        dotted(a.func.value) not in (None,) and False))
                inst = {"call": norm_src(call)[:100], "in": f.short, "consumed parameter": f"{callee.short}({pn})",
                        "argument": norm_src(a), "class": root[0], "shallow copy": shallow}
                ok = root[0] in ("owned", "param") and not shallow
                r.ob(ok, inst)
                if shallow:
                    r.violate(f"{f.short}: the consumed graph is a shallow copy: {norm_src(a)}", f.loc(call),
                              "copy.copy of a networkx graph shares the adjacency dictionaries: the scheduler removes nodes from the "
                              "original as well, so a retried executor runs only what a failed run left over", norm_src(a))
                elif not ok:
                    r.violate(f"{f.short}: hands its own graph '{norm_src(a)}' to {callee.short}, which consumes it", f.loc(call),
                              "the scheduler removes every finished node from the graph it is given; after a failed run the object "
                              "keeps a partially consumed graph and a second run silently executes the remainder only", ev[:2])
    r.require(n >= 4, f"only {n} hand-overs of a graph to a consuming callee found")
    return r


def own_args(ctx: Ctx) -> RuleResult:
    """Call arguments are force-written only into a copy made in the same function."""
    r = RuleResult("OWN-ARGS")
    o = own(ctx)
    sites = []
    for f in o.reachable():
        for n in iter_own_nodes(f.node):
            if isinstance(n, ast.Call) and isinstance(n.func, ast.Attribute) and n.func.attr == "force_set":
                if id(n) in o.splice_nodes:
                    continue  # description time: the target is the table of the DAG being built, not a run's results
                sites.append((f, n))
    r.require(len(sites) >= 1, "no force_set on a run path found")
    for f, n in sites:
        c = o.classify(f, n.func.value, n)
        root = o._root(c)
        ok = root[0] == "owned"
        r.ob(ok, {"force write": norm_src(n), "in": f.short, "target class": root[0]})
        if not ok:
            r.violate(f"{f.short}: arguments/cached values are force-written into '{norm_src(n.func.value)}' which is not a copy made here",
                      f.loc(n), "the defaults and constants of the DAG instance are overwritten for every later call", str(c))
    # every supplied argument is bound, whatever its value: inside the loop over the call's arguments the write is unconditional
    from .val import reach_conditions

    for f, n in sites:
        loops = [lp for lp in iter_own_nodes(f.node) if isinstance(lp, ast.For) and any(x is n for x in ast.walk(lp))
                 and any(isinstance(x, ast.Name) and x.id == (f.node.args.vararg.arg if f.node.args.vararg else "") for x in ast.walk(lp.iter))]
        for lp in loops:
            st = next((b for b in own_walk(lp) if isinstance(b, ast.Expr) and b.value is n), None)
            if st is None:
                continue
            inner = reach_conditions(lp, st)
            vals = {x.id for x in ast.walk(lp.target) if isinstance(x, ast.Name)}
            dep = [(c_, pol_) for c_, pol_ in (inner or []) if vals & {x.id for x in ast.walk(c_) if isinstance(x, ast.Name)}]
            r.ob(not dep, {"in": f.short, "argument bound whatever its value": not dep})
            if dep:
                r.violate(f"{f.short}: a supplied argument is bound only when {('' if dep[0][1] else 'not ') + norm_src(dep[0][0])}", f.loc(st),
                          "the value the caller passes is the value the DAG computes with - also None, 0 or '' (an explicit None for a "
                          "defaulted flag must not turn back into the default)", norm_src(dep[0][0]))
    return r


def own_global(ctx: Ctx) -> RuleResult:
    r = RuleResult("OWN-GLOBAL")
    o = own(ctx)
    fs = o.reachable()

    def hits(funcs):
        for f in funcs:
            for m in o.mutations(f):
                if m["how"] == "global statement":
                    yield f, m, ("global", ",".join(m["names"]))
                    continue
                c = o._root(o.classify(f, m["target"], m["stmt"]))
                if c[0] == "global":
                    yield f, m, c
            for n in iter_own_nodes(f.node):
                if id(n) in o.splice_nodes:
                    continue
                if isinstance(n, ast.Assign):
                    for t in n.targets:
                        if isinstance(t, ast.Attribute) and ctx.type_of(f, t.value)[0] == "module":
                            yield f, {"node": n, "stmt": n, "how": "module attribute write"}, ("global", dotted(t))

    bad = list(hits(fs))
    for f in fs:
        mine = [b for b in bad if b[0] is f]
        r.ob(not mine, {"function": f.short, "module-level writes": len(mine)})
    for f, m, c in bad:
        r.violate(f"{f.short}: writes module-level state {c[1]}", f.loc(m["node"]),
                  "functions reachable from a DAG call / executor / setup must not write module-level state: concurrent runs and "
                  "builds would interfere", norm_src(m["stmt"])[:100])
    cf = control_funcs(ctx)
    if cf:
        r.require(len(list(hits(cf))) >= 1, "positive control for OWN-GLOBAL did not match")
    return r


def own_strict(ctx: Ctx) -> RuleResult:
    r = RuleResult("OWN-STRICT")
    c = ctx.P.classes[ctx.cls_q("StrictDict")]
    si = c.methods.get("__setitem__")
    r.require(si is not None, "StrictDict.__setitem__ not found")
    k = si.node.args.args[1].arg
    ifs = [n for n in si.node.body if isinstance(n, ast.If) and any(isinstance(b, ast.Raise) for b in n.body)]
    ok = len(ifs) == 1 and norm_src(ifs[0].test) == f"{k} in self"
    r.ob(ok, {"write-once": norm_src(ifs[0].test) if ifs else None})
    if not ifs:
        r.violate("StrictDict.__setitem__: an occupied key is silently overwritten", si.loc(),
                  "the results map is no longer write-once: a node executed twice goes unnoticed", None)
    elif not ok:
        raise Undecided("StrictDict.__setitem__: guard not recognised")
    # force_set bypasses the guard (it is how call arguments override defaults)
    fs = c.methods.get("force_set")
    r.require(fs is not None, "StrictDict.force_set not found")
    okf = any(isinstance(n, ast.Call) and norm_src(n.func) in ("super().__setitem__", "dict.__setitem__") for n in iter_own_nodes(fs.node))
    r.ob(okf, {"force_set bypasses the write-once guard": okf})
    if not okf:
        r.violate("StrictDict.force_set: goes through the guarded __setitem__", fs.loc(),
                  "overriding a default with a call argument (or a cached value) raises KeyError", None)
    # no other overriding writer
    for name in ("update", "setdefault", "__ior__"):
        r.ob(name not in c.methods, {f"StrictDict.{name} not overridden": name not in c.methods})
    return r


def own_force(ctx: Ctx) -> RuleResult:
    """force_set (the write-once bypass) is not reachable from the scheduler."""
    from .sch import model

    r = RuleResult("OWN-FORCE")
    m = model(ctx)
    o = own(ctx)
    roots = [m.fn] + [h.fn for h in m.helpers.values()] + [ctx.method("ExecNode", "execute")]
    seen: Dict[str, FuncInfo] = {}
    st = list(roots)
    while st:
        f = st.pop()
        if f.qualname in seen:
            continue
        seen[f.qualname] = f
        for _, q, _ in o.callees(f):
            st.append(ctx.P.funcs[q])
    n_sites = 0
    for f in pkg_funcs(ctx):
        for n in iter_own_nodes(f.node):
            if isinstance(n, ast.Call) and isinstance(n.func, ast.Attribute) and n.func.attr == "force_set":
                n_sites += 1
                bad = f.qualname in seen
                r.ob(not bad, {"force_set in": f.short, "reachable from the scheduler": bad})
                if bad:
                    r.violate(f"{f.short}: force_set inside the scheduler's extent", f.loc(n),
                              "results written during an execution must be write-once (a second write must raise)", norm_src(n))
    r.require(n_sites >= 2, f"force_set call sites: {n_sites}")
    return r


def own_compose(ctx: Ctx) -> RuleResult:
    r = RuleResult("OWN-COMPOSE")
    f = ctx.method("BaseDAG", "compose")
    # the node table of the composed DAG: deep copies / fresh nodes only
    xd = [n for n in iter_own_nodes(f.node) if isinstance(n, ast.Assign) and isinstance(n.value, ast.Call)
          and dotted(n.value.func) == "StrictDict" and any("exec_nodes" in norm_src(x) for x in ast.walk(n.value))]
    loop_form = None
    if not xd:
        # loop form: `tbl = StrictDict()`; `for id in ..: [if id in inputs: continue]; c = deepcopy(self.exec_nodes[id]); ..; tbl[id] = c`
        ctor_tbl = {dotted(k.value) for n in iter_own_nodes(f.node) if isinstance(n, ast.Call) and dotted(n.func) in ("DAG", "AsyncDAG")
                    for k in n.keywords if k.arg == "exec_nodes"}
        for n in iter_own_nodes(f.node):
            if isinstance(n, ast.Assign) and isinstance(n.targets[0], ast.Subscript) and dotted(n.targets[0].value) in ctor_tbl \
                    and isinstance(n.value, ast.Name):
                lps = [lp for lp in iter_own_nodes(f.node) if isinstance(lp, ast.For) and any(x is n for x in ast.walk(lp))]
                defs_ = [d for d in (own_walk(lps[-1]) if lps else []) if isinstance(d, ast.Assign) and dotted(d.targets[0]) == n.value.id]
                if lps and len(defs_) == 1 and any("exec_nodes" in norm_src(x) for x in ast.walk(lps[-1])):
                    loop_form = (n, defs_[0])
    r.require(len(xd) == 1 or loop_form is not None, "compose: construction of the copied node table not found")
    if loop_form is not None:
        xd = [loop_form[0]]
        tbl = dotted(loop_form[0].targets[0].value)
        val = loop_form[1].value
        # the copied value may be a local bound to the original node (`original = self.exec_nodes[id]; copy = deepcopy(original)`)
    else:
        tbl = dotted(xd[0].targets[0])
        gen = xd[0].value.args[0]
        val = gen.elt.elts[1] if isinstance(gen, ast.GeneratorExp) and isinstance(gen.elt, ast.Tuple) else None
    def _deep(e: Optional[ast.AST]) -> Optional[bool]:
        """True: a deep copy; False: recognisably shared / shallow; None: cannot tell."""
        if isinstance(e, ast.Call) and dotted(e.func) == "deepcopy":
            return True
        if isinstance(e, ast.Call) and dotted(e.func) in ("copy", "copy.copy"):
            return False
        if isinstance(e, (ast.Subscript, ast.Name, ast.Attribute)):
            return False
        if isinstance(e, ast.Call) and isinstance(e.func, ast.Name):
            g = ctx.P.nested(f, e.func.id)
            if g is None:
                # the copying helper may be a plain function of the same module instead of a closure
                cands = [h for h in ctx.P.funcs.values() if h.module is f.module and h.cls is None and h.parent is None
                         and h.name == e.func.id]
                g = cands[0] if len(cands) == 1 else None
            if g is not None and len(g.node.args.args) >= 1:
                p0 = g.node.args.args[0].arg
                rets = [x for x in iter_own_nodes(g.node) if isinstance(x, ast.Return) and x.value is not None]
                if len(rets) == 1 and isinstance(rets[0].value, ast.Name):
                    src = [x for x in iter_own_nodes(g.node) if isinstance(x, ast.Assign) and dotted(x.targets[0]) == rets[0].value.id]
                    if len(src) == 1 and isinstance(src[0].value, ast.Call) and dotted(src[0].value.func) == "deepcopy" \
                            and src[0].value.args and dotted(src[0].value.args[0]) == p0:
                        return True
                    if len(src) == 1 and isinstance(src[0].value, ast.Call) and dotted(src[0].value.func) in ("copy", "copy.copy") \
                            and src[0].value.args and dotted(src[0].value.args[0]) == p0:
                        return False
                    if not src and rets[0].value.id == p0:
                        return False
                if len(rets) > 1 and any(isinstance(x.value, ast.Name) and x.value.id == p0 for x in rets):
                    return False  # some nodes are handed back uncopied
                if len(rets) == 1 and isinstance(rets[0].value, ast.Call) and dotted(rets[0].value.func) == "deepcopy":
                    return True
        return None
    okd = _deep(val)
    if okd is None:
        raise Undecided(f"compose: how the nodes of the composed DAG are copied is not recognised: {norm_src(val) if val is not None else None}")
    r.ob(okd, {"copied nodes": norm_src(val) if val is not None else None})
    if not okd:
        r.violate("BaseDAG.compose: nodes of the original DAG are shared with (not deep-copied into) the composed DAG", f.loc(xd[0]),
                  "the in-place rewiring of references then edits the original DAG's nodes: composing changes the original's behaviour",
                  norm_src(xd[0]))
    # in-place edits target nodes taken from that table only
    edits = 0
    for n in iter_own_nodes(f.node):
        tgt = None
        if isinstance(n, ast.Assign) and isinstance(n.targets[0], ast.Subscript) and isinstance(n.targets[0].value, ast.Attribute):
            tgt = n.targets[0].value.value  # x.f[i] = ..  and the whole-content form  x.f[:] = ..
        elif isinstance(n, ast.Call) and dotted(n.func) == "object.__setattr__":
            tgt = n.args[0]
        elif isinstance(n, ast.Call) and isinstance(n.func, ast.Attribute) and n.func.attr in ("update", "extend", "append", "insert", "clear", "pop") \
                and isinstance(n.func.value, ast.Attribute) and n.func.value.attr in ("args", "kwargs"):
            tgt = n.func.value.value  # x.kwargs.update({..})
        if tgt is not None and isinstance(tgt, ast.Name):
            loops = [l for l in iter_own_nodes(f.node) if isinstance(l, ast.For) and dotted(l.target) == tgt.id and any(n is x for x in ast.walk(l))]
            if loops:
                edits += 1
                ok = norm_src(loops[-1].iter) == f"{tbl}.values()"
                r.ob(ok, {"in-place edit": norm_src(n)[:80], "node taken from": norm_src(loops[-1].iter)})
                if not ok:
                    r.violate(f"BaseDAG.compose: in-place edit of a node taken from {norm_src(loops[-1].iter)}", f.loc(n),
                              "only the copies owned by the composed DAG may be edited", norm_src(n))
    r.require(edits >= 3, f"compose: only {edits} in-place edits found")
    # ... and what is edited are the references (rewired to the new inputs) and the callable (restored after the copy): a copied
    # node keeps every other attribute of the original - resource, priority, is_sequential, setup, debug, tag, unpack_to
    allowed = {"exec_function", "args", "kwargs", "active"}
    for g_ in [f] + [x for x in ctx.P.funcs.values() if x.parent is f]:
        for n in iter_own_nodes(g_.node):
            if isinstance(n, ast.Call) and dotted(n.func) in ("object.__setattr__", "setattr") and len(n.args) == 3 and isinstance(n.args[1], ast.Constant):
                fld = n.args[1].value
                okf = fld in allowed
                r.ob(okf, {"field set on a copied node": fld, "in": g_.short})
                if not okf:
                    r.violate(f"BaseDAG.compose: the copy of a node gets another '{fld}' than the original ({norm_src(n.args[2])})", g_.loc(n),
                              "the composed DAG computes what the original pipeline would compute: its nodes run where (resource), when "
                              "(priority, is_sequential) and as what (setup, debug) the original declared - e.g. a main-thread node moved to "
                              "the pool no longer runs on the invoking thread", norm_src(n))
    # results / exec_nodes handed to the new DAG are built here
    for n in iter_own_nodes(f.node):
        if isinstance(n, ast.Call) and dotted(n.func) in ("DAG", "AsyncDAG"):
            for k in n.keywords:
                if k.arg in ("results", "exec_nodes"):
                    ok = isinstance(k.value, ast.Name)
                    r.ob(ok, {f"{dotted(n.func)}({k.arg}=)": norm_src(k.value)})
                    if not ok:
                        r.violate(f"BaseDAG.compose: the composed DAG shares {norm_src(k.value)} with the original", f.loc(n),
                                  "setup results / nodes written by one DAG would appear in the other", norm_src(k.value))
    res = [n for n in iter_own_nodes(f.node) if isinstance(n, ast.Assign) and dotted(n.targets[0]) == "results"]
    if len(res) == 1 and isinstance(res[0].value, ast.Call) and res[0].value.args and isinstance(res[0].value.args[0], ast.GeneratorExp):
        gen = res[0].value.args[0]
        flt = gen.generators[0].ifs
        okt = len(flt) == 1 and isinstance(flt[0], ast.Compare) and isinstance(flt[0].ops[0], ast.In) and dotted(flt[0].comparators[0]) == tbl
        r.ob(okt, {"results kept for": norm_src(flt[0]) if flt else None})
        if flt and not okt:
            r.violate(f"BaseDAG.compose: stored values are kept by '{norm_src(flt[0])}', not by membership in the composed node table '{tbl}'",
                      f.loc(res[0]), "the composed DAG must hold a stored value exactly for the nodes it contains: ids of the replaced inputs "
                      "(or of nodes left out) would make the first call fail or shadow the supplied value", norm_src(flt[0]))
    okr = len(res) == 1 and isinstance(res[0].value, ast.Call) and dotted(res[0].value.func) == "StrictDict"
    r.ob(okr, {"new results map": norm_src(res[0].value)[:80] if res else None})
    if res and not okr:
        r.violate("BaseDAG.compose: the results map of the composed DAG is not a new map", f.loc(res[0]), "", norm_src(res[0]))
    return r


def own_graphfrozen(ctx: Ctx) -> RuleResult:
    """The graph of a DAG instance is never edited in place: every operation that needs another graph derives a copy
    (make_subgraph, deepcopy, extend_graph_with_debug_nodes), re-configuration re-binds the attribute.

    A method that removes or adds nodes / edges on `self.graph_ids` itself (a drawing helper hiding the argument nodes, ...) changes
    every later call, executor, compose and setup of that instance."""
    r = RuleResult("OWN-GRAPHFROZEN")
    mut = ("remove_node", "remove_nodes_from", "remove_edge", "remove_edges_from", "add_node", "add_nodes_from", "add_edge", "add_edges_from",
           "clear", "clear_edges", "remove_recursively", "remove_root_node", "remove_any_root_node", "add_exec_node", "update")
    n_reads = 0
    for cn in DAG_CLASSES:
        c = ctx.P.classes.get(ctx.cls_q(cn))
        if c is None:
            continue
        for m in c.methods.values():
            aliases = {"self.graph_ids"}
            for n in iter_own_nodes(m.node):
                if isinstance(n, ast.Assign) and len(n.targets) == 1 and isinstance(n.targets[0], ast.Name) and norm_src(n.value) == "self.graph_ids":
                    aliases.add(n.targets[0].id)
            for n in iter_own_nodes(m.node):
                if isinstance(n, ast.Attribute) and norm_src(n) == "self.graph_ids":
                    n_reads += 1
                tgt = None
                if isinstance(n, ast.Call) and isinstance(n.func, ast.Attribute) and n.func.attr in mut and norm_src(n.func.value) in aliases:
                    tgt = n
                elif isinstance(n, (ast.Assign, ast.AugAssign)):
                    for t in (n.targets if isinstance(n, ast.Assign) else [n.target]):
                        if isinstance(t, ast.Subscript) and isinstance(t.value, ast.Attribute) and norm_src(t.value.value) in aliases:
                            tgt = n
                if tgt is not None:
                    r.ob(False, {"in": m.short, "in-place edit of the DAG's graph": norm_src(tgt)[:100]})
                    r.violate(f"{m.short}: the DAG's own graph is edited in place ({norm_src(tgt)[:60]})", m.loc(tgt),
                              "the graph belongs to the instance: after this, calls that omit a required argument no longer fail, compose() "
                              "and executors derive their sub-graphs from the edited graph - the DAG does not behave like a freshly built one",
                              norm_src(tgt)[:120])
    r.require(n_reads >= 5, f"only {n_reads} uses of self.graph_ids found in the DAG classes")
    if not r.findings:
        r.ob(True, {"uses of self.graph_ids": n_reads, "in-place edits": 0})
    return r


def own_deepcopy(ctx: Ctx) -> RuleResult:
    r = RuleResult("OWN-DEEPCOPY")
    for cn in DAG_CLASSES:
        c = ctx.P.classes[ctx.cls_q(cn)]
        bad = [m for m in ("__copy__", "__deepcopy__", "__reduce__", "__reduce_ex__", "__getstate__", "__setstate__") if m in c.methods]
        r.ob(not bad, {"class": cn, "copy protocol overrides": bad})
        for m in bad:
            r.violate(f"{cn}.{m}: custom copy protocol", c.methods[m].loc(),
                      "deep copies of a DAG must have independent setup state; a custom copy hook can share the results map", None)
    return r


def own_schedcopy(ctx: Ctx) -> RuleResult:
    """The scheduler works on its own copy of the results and of the non-setup nodes."""
    from .sch import model

    r = RuleResult("OWN-SCHEDCOPY")
    m = model(ctx)
    o = own(ctx)
    f = m.fn
    res_names = {kw.get("results") for kw in m.exec_kwargs}
    r.require(len(res_names) == 1, "results object passed to execute not unique")
    rn = next(iter(res_names))
    site = m.sites[0]
    c = o._root(o.classify(f, ast.Name(id=rn, ctx=ast.Load()), site))
    ok = c[0] == "owned"
    r.ob(ok, {"results handed to the nodes": rn, "class": c[0]})
    if not ok:
        r.violate(f"{f.short}: nodes write their results into the caller's map", f.loc(site),
                  "the scheduler must copy the results it is given: otherwise setup()/calls write every node's result into the "
                  "DAG instance", str(c))
    c2 = o._root(o.classify(f, ast.Name(id=m.node_table, ctx=ast.Load()), m.xn_assign))
    r.ob(c2[0] == "owned", {"node table": m.node_table, "class": c2[0]})
    return r


def own_wbcomplete(ctx: Ctx) -> RuleResult:
    """A setup result is made permanent only if it was computed from all the inputs of the node.

    A selection by root_nodes is the one selection that keeps a node without all its predecessors (the node then receives None
    for them - the documented behaviour for that one run). If such a node is a setup node, its result must not be recorded in the
    DAG instance: every later call would reuse a value computed from None."""
    from .gt import graph_q
    from ..ctx import arg_for_param

    r = RuleResult("OWN-WBCOMPLETE")
    g = ctx.P.classes[graph_q(ctx)]
    ms = g.methods.get("make_subgraph")
    r.require(ms is not None, "make_subgraph not found")
    roots_used = []
    for f in ctx.funcs():
        if f.module.name.endswith("_twzsa_control") or f.cls is g:
            continue
        for call, q in ctx.calls_in(f):
            if q == ms.qualname:
                a = arg_for_param(ms.node, call, "root_nodes", skip_self=True)
                if a is not None and not (isinstance(a, ast.Constant) and a.value is None):
                    roots_used.append(f.short)
    r.ob(True, {"selections by root_nodes are built in": sorted(set(roots_used))})
    if not roots_used:
        return r
    # does the root selection itself keep the setup ancestors of what it selects?
    keeps = any(isinstance(n, ast.Attribute) and n.attr in ("setup_nodes",) for n in iter_own_nodes(ms.node))
    if keeps:
        raise Undecided("make_subgraph mentions setup nodes: whether a root selection keeps setup ancestors is not modelled")
    sites = [(f, n, ch) for f, n, ch in _writeback_sites(ctx)]
    r.require(len(sites) >= 2, "write-back sites not found")
    for f, n, ch in sites:
        parts = []
        for t, v in ch or ():
            parts += [norm_src(x) for x in (t.values if isinstance(t, ast.BoolOp) and isinstance(t.op, ast.And) else [t])]
        complete = any(any(k in p_ for k in (".dependencies", ".args", ".kwargs", "predecessors", "in_degree")) for p_ in parts)
        r.ob(complete, {"write-back": norm_src(n), "in": f.short, "guard": " and ".join(parts), "tests the node's inputs": complete})
        if not complete:
            r.violate(f"{f.short}: a setup result computed in a root_nodes selection is recorded without a test that the node's "
                      f"inputs were available", f.loc(n),
                      "executor(root_nodes=[s1]) keeps the setup node build(s1, s2) but not s2: build runs with s2=None and that result "
                      "is written into the DAG instance; every later call (and every executor) reuses it - the DAG no longer behaves "
                      "like a freshly built one", " and ".join(parts))
    return r


def own_liveresults(ctx: Ctx) -> RuleResult:
    """Before it runs, an executor reads the DAG's results LIVE: it never stores a reference to them.

    DAG.setup() (and any executor's setup()) re-binds dag.results to a new mapping: a reference taken earlier keeps the old one,
    without the setup results - the executor then runs the setup nodes a second time."""
    r = RuleResult("OWN-LIVERESULTS")
    rebinds = _setup_rebinds(ctx)
    r.ob(True, {"statements that re-bind a DAG's results": len(rebinds)})
    if not rebinds:
        return r
    base = ctx.P.classes.get(ctx.cls_q("BaseDAGExecution"))
    r.require(base is not None, "executor base class not found")
    n_live = 0
    for ci in ctx.P.subclasses(base.qualname):
        for mth in ci.methods.values():
            for n in iter_own_nodes(mth.node):
                if isinstance(n, ast.Assign) and norm_src(n.value) == "self.dag.results" \
                        and any(isinstance(t, ast.Attribute) and dotted(t.value) == "self" for t in n.targets):
                    r.ob(False, {"in": mth.short, "stores": norm_src(n)})
                    r.violate(f"{mth.short}: the executor stores a reference to the DAG's results ({norm_src(n)})", mth.loc(n),
                              "dag.setup() re-binds dag.results to a new mapping; the executor created before keeps the old one and executes "
                              "the already set-up setup nodes again (silently)", norm_src(n))
                # ... nor a copy of them (with or without cached entries merged in): a snapshot taken when the executor is created misses
                # every setup result the DAG acquires before the executor is called
                if isinstance(n, ast.Assign) and any(isinstance(t, ast.Attribute) and dotted(t.value) == "self" for t in n.targets) \
                        and norm_src(n.value) != "self.dag.results":
                    vals = [n.value]
                    if isinstance(n.value, ast.Name):
                        vals = [d.value for d in ctx.reaching_defs(mth, n.value.id, n) if isinstance(d, ast.Assign)]
                    snap = next((v_ for v_ in vals if any(norm_src(x) == "self.dag.results" for x in ast.walk(v_))), None)
                    if snap is not None:
                        r.ob(False, {"in": mth.short, "stores": norm_src(n)[:100]})
                        r.violate(f"{mth.short}: the executor keeps a snapshot derived from the DAG's results ({norm_src(n)[:80]})", mth.loc(n),
                                  "a setup node that runs on the DAG after the snapshot was taken (dag.setup(), executor.setup(), a plain "
                                  "call) is missing from it: the executor's call runs that setup node a second time and hands its nodes "
                                  "another object than the one the DAG holds", norm_src(snap)[:120])
                if isinstance(n, ast.Return) and n.value is not None and (norm_src(n.value) == "self.dag.results" or (
                        isinstance(n.value, ast.IfExp) and "self.dag.results" in (norm_src(n.value.body), norm_src(n.value.orelse)))):
                    n_live += 1
    r.ob(n_live >= 1, {"live reads of the DAG's results in the executors": n_live})
    if n_live == 0 and not r.findings:
        raise Undecided("executors: no live read of self.dag.results found (form not modelled)")
    return r


def own_nodeepval(ctx: Ctx) -> RuleResult:
    """Result VALUES are never deep-copied: a mapping of results is copied shallowly (the values keep their identity).

    Setup results are reused by reference (a connection, a model, a sentinel compared with `is`); a deep copy of a results mapping
    hands an execution (or a composed DAG) clones of them."""
    r = RuleResult("OWN-NODEEPVAL")
    n = 0
    for f in ctx.funcs():
        if f.module.name.endswith("_twzsa_control"):
            continue
        for c in iter_own_nodes(f.node):
            if not (isinstance(c, ast.Call) and dotted(c.func) in ("deepcopy", "copy.deepcopy") and c.args):
                continue
            n += 1
            a = c.args[0]
            t = ctx.type_of(f, a)
            src = norm_src(a)
            is_results = src.split(".")[-1] in ("results", "result", "res") or src.endswith("_results") \
                or (t and t[0] == "dict" and len(t) > 3 and str(t[3]).endswith("StrictDict") and "results" in src)
            r.ob(not is_results, {"deep copy of": src, "in": f.short})
            if is_results:
                r.violate(f"{f.short}: result values are deep-copied ({src})", f.loc(c),
                          "the values produced by setup nodes (and defaults / constants) are shared by reference: a deep copy gives this "
                          "execution - or the composed DAG - clones: a stateful resource exists twice, `value is sentinel` is False",
                          norm_src(c))
    r.require(n >= 2, f"only {n} deepcopy calls found")
    return r


def own_execflag(ctx: Ctx) -> RuleResult:
    """An executor is marked as executed only once its run has returned: a run that fails leaves it free to run again."""
    r = RuleResult("OWN-EXECFLAG")
    base = ctx.P.classes.get(ctx.cls_q("BaseDAGExecution"))
    r.require(base is not None, "executor base class not found")
    sets = []
    for ci in ctx.P.subclasses(base.qualname):
        for mth in ci.methods.values():
            for n in iter_own_nodes(mth.node):
                if isinstance(n, ast.Assign) and norm_src(n.targets[0]) == "self.executed" and isinstance(n.value, ast.Constant) and n.value.value is True:
                    sets.append((mth, n))
    r.require(len(sets) >= 1, "no place marks the executor as executed")
    for mth, n in sets:
        runs = [c for c, q in ctx.calls_in(mth) if q in ctx.P.funcs and ctx.P.funcs[q].name == "run_subgraph"]
        if not runs:
            # set in a helper: every caller must call it after its run
            okc = True
            for cf, call in ctx.callers_of(mth.qualname):
                r2 = [c for c, q in ctx.calls_in(cf) if q in ctx.P.funcs and ctx.P.funcs[q].name == "run_subgraph"]
                if r2 and not all(getattr(c, "lineno", 0) < getattr(call, "lineno", 0)
                                  or any(c is x for a_ in list(call.args) + [k.value for k in call.keywords] for x in ast.walk(a_))
                                  for c in r2):
                    okc = False  # (a run written as an ARGUMENT of the helper call is evaluated before the call)
            r.ob(okc, {"executed set in": mth.short, "called after the run by every caller": okc})
            if not okc:
                r.violate(f"{mth.short}: the executor is marked as executed before its run", mth.loc(n), "", norm_src(n))
            continue
        ok = all(getattr(c, "lineno", 0) < getattr(n, "lineno", 0) for c in runs)
        r.ob(ok, {"executed set in": mth.short, "after the run": ok})
        if not ok:
            r.violate(f"{mth.short}: the executor is marked as executed before its run has returned", mth.loc(n),
                      "when a node fails the run raises and the flag stays set: the executor refuses the retry that its twin accepts "
                      "(TawaziUsageError), its results property raises, and no setup result of that run is recorded", norm_src(n))
    return r


RULES = {
    "OWN-GRAPHFROZEN": own_graphfrozen, "OWN-NODEEPVAL": own_nodeepval, "OWN-EXECFLAG": own_execflag,
    "OWN-LIVERESULTS": own_liveresults,
    "OWN-WBCOMPLETE": own_wbcomplete,
    "OWN-RUN": own_run, "OWN-WRITEBACK": own_writeback, "OWN-SETUP": own_setup, "OWN-CONSUME": own_consume, "OWN-ARGS": own_args,
    "OWN-GLOBAL": own_global, "OWN-STRICT": own_strict, "OWN-FORCE": own_force, "OWN-COMPOSE": own_compose,
    "OWN-DEEPCOPY": own_deepcopy, "OWN-SCHEDCOPY": own_schedcopy,
}
