"""SCH - event rules over the enumerated head-to-head paths of the scheduler loop (DESIGN 4.1)."""
from __future__ import annotations

import ast
from typing import Dict, FrozenSet, List, Optional, Set, Tuple

from ..ctx import Ctx, dotted
from ..loader import iter_own_nodes, own_walk
from ..report import RuleResult, Undecided, norm_src
from ..sched import ALL, FIRST, Clause, Event, Path, SchedModel

POOLED = ("pool", "async", "foreign")


def model(ctx: Ctx) -> SchedModel:
    return ctx.memo("sched_model", lambda: SchedModel(ctx))


def _sane(m: SchedModel, r: RuleResult) -> List[Path]:
    """Feasible paths; unmodelled constructs touching scheduler state make the rule undecided."""
    ps = [p for p in m.paths() if p.feasible]
    for p in ps:
        for e in p.events:
            if e.kind in ("UNMODELLED", "STATE_WRITE", "G_WRITE"):
                raise Undecided(f"scheduler state is touched by a construct that is not modelled: "
                                f"{m.fn.loc(e.node)} {e.data.get('what')}")
    return ps


def _where(m: SchedModel, node: ast.AST) -> str:
    return m.fn.loc(node)


def _unit(facts, atom: str, val: bool) -> bool:
    return frozenset([(atom, val)]) in facts


def _path_key(p: Path) -> str:
    return " > ".join(x.split(":", 1)[1] for x in p.describe())


def _dispatch_events(p: Path) -> List[Tuple[int, Event]]:
    return [(i, e) for i, e in enumerate(p.events) if e.kind == "DISPATCH"]


# ---------------------------------------------------------------------------------------------- SCH-ORIGIN
def sch_origin(ctx: Ctx) -> RuleResult:
    r = RuleResult("SCH-ORIGIN")
    m = model(ctx)
    ps = _sane(m, r)
    t = ctx.T.env(m.fn).get(m.node_table, ("any",))
    r.require(t[0] == "dict" and ctx.T.is_instance(t[2], m.EXECNODE), f"node table {m.node_table} is not a mapping to ExecNode: {t}")
    for p in ps:
        for i, e in _dispatch_events(p):
            si = p.index("SELECT")
            ok = 0 <= si < i
            r.ob(ok, {"path": p.describe(), "dispatch": e.data["kind"]})
            if not ok:
                r.violate(f"{m.fn.short}: dispatch({e.data['kind']}) without selection in the same iteration",
                          _where(m, e.node), "a node is dispatched on a path that did not select it from the runnable set "
                          "in this iteration (stale or foreign node)", p.describe())
    r.note = f"selected node = {m.node_table}[k], k = {m.sel_form}({m.R}); {len(ps)} feasible paths"
    return r


# ---------------------------------------------------------------------------------------------- SCH-RSET
def sch_rset(ctx: Ctx) -> RuleResult:
    r = RuleResult("SCH-RSET")
    m = model(ctx)
    ps = _sane(m, r)
    seen: Set[int] = set()
    for p in ps:
        for e in p.events:
            if id(e.node) in seen:
                continue
            if e.kind == "R_WRITE" or (e.kind == "R_ADD" and e.data["origin"] != "released"):
                seen.add(id(e.node))
                r.ob(False, {"write": e.data["what"], "where": _where(m, e.node)})
                r.violate(f"{m.fn.short}: runnable set written with {norm_src(e.data['what'])}", _where(m, e.node),
                          "the runnable set may only be initialised from the graph's roots, united with the roots released by "
                          "a graph removal, or lose the selected id", e.data["what"])
            elif e.kind == "R_ADD":
                seen.add(id(e.node))
                r.ob(True, {"write": "R |= released roots", "where": _where(m, e.node)})
            elif e.kind == "G_REMOVE" and not e.data["united"]:
                seen.add(id(e.node))
                r.ob(False, {"removal": "result dropped", "where": _where(m, e.node)})
                r.violate(f"{m.fn.short}: roots released by remove_root_node are discarded", _where(m, e.node),
                          "the set of new roots returned by the graph removal is not united into the runnable set: "
                          "those nodes are never scheduled (hang)", norm_src(e.node))
            elif e.kind == "G_MUTATE" and e.data["how"] in ("remove_node", "remove_nodes_from", "remove_recursively",
                                                            "remove_any_root_node", "clear"):
                seen.add(id(e.node))
                r.ob(False, {"removal": e.data["what"], "where": _where(m, e.node)})
                r.violate(f"{m.fn.short}: graph removal that does not release successors: {e.data['how']}", _where(m, e.node),
                          "a node is removed from the remaining graph with a primitive that does not report the successors "
                          "that became roots", e.data["what"])
            elif e.kind == "WAIT":
                seen.add(id(e.node))
                h = m.helpers[e.data["helper"]]
                ok = e.data["graph_ok"] and e.data["runnable_in_ok"] and (e.data["rebind_runnable"] or h.unions_roots)
                r.ob(ok, {"wait": e.data["what"], "where": _where(m, e.node)})
                if not (e.data["graph_ok"] and e.data["runnable_in_ok"]):
                    r.violate(f"{m.fn.short}: wait helper called with foreign graph/runnable set", _where(m, e.node),
                              "the wait helper must prune the remaining graph and feed the runnable set of this execution",
                              norm_src(e.node))
    for q, h in m.helpers.items():
        if h.removes_done:
            r.ob(h.unions_roots, {"helper": h.fn.short, "unions released roots": h.unions_roots})
            if not h.unions_roots:
                r.violate(f"{h.fn.short}: roots released by the removal of a finished node are discarded", h.fn.loc(),
                          "the helper removes finished nodes but does not add the released successors to the runnable set")
    # initialisation: R = G.root_nodes
    init = _r_init(m)
    r.ob(init is not None, {"init": norm_src(init) if init is not None else None})
    if init is None:
        raise Undecided(f"initialisation of the runnable set {m.R} from the graph's root nodes not found before the loop")
    return r


def _r_init(m: SchedModel) -> Optional[ast.stmt]:
    for s in m.preloop_statements():
        if isinstance(s, (ast.Assign, ast.AnnAssign)):
            tg = s.targets[0] if isinstance(s, ast.Assign) else s.target
            v = s.value
            if isinstance(tg, ast.Name) and tg.id == m.R and v is not None:
                inner = v
                if isinstance(inner, ast.Call) and dotted(inner.func) in ("set", "copy") and inner.args:
                    inner = inner.args[0]
                if isinstance(inner, ast.Attribute) and inner.attr == "root_nodes" and dotted(inner.value) == m.G:
                    return s
    return None


# ---------------------------------------------------------------------------------------------- SCH-ROOTS
def sch_roots(ctx: Ctx) -> RuleResult:
    r = RuleResult("SCH-ROOTS")
    g = ctx.P.classes[ctx.cls_q("DiGraphEx")]
    rn = ctx.P.find_method(g, "root_nodes")
    rr = ctx.P.find_method(g, "remove_root_node")
    r.require(rn is not None and rr is not None, "root_nodes / remove_root_node not found on the graph class")
    # --- root_nodes: {n for n, d in self.in_degree if d == 0}
    ret = [n for n in iter_own_nodes(rn.node) if isinstance(n, ast.Return)]
    r.require(len(ret) == 1 and isinstance(ret[0].value, (ast.SetComp, ast.ListComp, ast.GeneratorExp, ast.Call)),
              "root_nodes: unrecognised body")
    comp = ret[0].value
    if isinstance(comp, ast.Call) and comp.args and isinstance(comp.args[0], (ast.SetComp, ast.ListComp, ast.GeneratorExp)):
        comp = comp.args[0]
    r.require(isinstance(comp, (ast.SetComp, ast.ListComp, ast.GeneratorExp)) and len(comp.generators) == 1, "root_nodes: not one comprehension")
    gen = comp.generators[0]
    src = norm_src(gen.iter)
    deg_attr = "in_degree" if "in_degree" in src else ("out_degree" if "out_degree" in src else ("degree" if "degree" in src else None))
    tests = gen.ifs
    r.require(len(tests) == 1 and isinstance(tests[0], (ast.Compare, ast.UnaryOp)), "root_nodes: filter not recognised")
    tsrc = norm_src(tests[0])
    for t in ast.walk(tests[0]):
        if isinstance(t, ast.Attribute) and t.attr in ("in_degree", "out_degree", "degree"):
            deg_attr = t.attr
    zero = _is_cmp_const(tests[0], (ast.Eq,), 0) or (isinstance(tests[0], ast.UnaryOp) and isinstance(tests[0].op, ast.Not)) \
        or _is_cmp_const(tests[0], (ast.Lt,), 1) or _is_cmp_const(tests[0], (ast.LtE,), 0)
    ok = deg_attr == "in_degree" and zero
    r.ob(ok, {"root_nodes": norm_src(ret[0].value)})
    if not ok:
        if deg_attr in ("out_degree", "degree") or isinstance(tests[0], ast.Compare):
            r.violate("DiGraphEx.root_nodes: not 'in-degree == 0'", rn.loc(ret[0]),
                      f"the roots must be the nodes whose in-degree is 0; found {deg_attr} with filter {tsrc}", norm_src(ret[0]))
        else:
            raise Undecided("root_nodes: filter form not recognised: " + tsrc)
    # --- remove_root_node
    arg = rr.node.args.args[1].arg
    comp_stmt = rem_stmt = None
    for i, s in enumerate(rr.node.body):
        for n in own_walk(s):
            if isinstance(n, (ast.SetComp, ast.ListComp, ast.GeneratorExp)) and comp_stmt is None:
                comp_stmt = (i, s, n)
            if isinstance(n, ast.Call) and isinstance(n.func, ast.Attribute) and n.func.attr == "remove_node" \
                    and dotted(n.func.value) == "self" and rem_stmt is None:
                rem_stmt = (i, s, n)
    r.require(comp_stmt is not None and rem_stmt is not None, "remove_root_node: comprehension or removal not found")
    ci, cs, comp = comp_stmt
    gen = comp.generators[0]
    it = gen.iter
    r.require(isinstance(it, ast.Call) and isinstance(it.func, ast.Attribute) and dotted(it.func.value) == "self",
              "remove_root_node: iteration source not recognised")
    source = it.func.attr
    r.require(len(gen.ifs) == 1, "remove_root_node: filter not recognised")
    flt = gen.ifs[0]
    deg = None
    for t in ast.walk(flt):
        if isinstance(t, ast.Attribute) and t.attr in ("in_degree", "out_degree", "degree"):
            deg = t.attr
    before = ci < rem_stmt[0]
    one = _is_cmp_const(flt, (ast.Eq,), 1)
    zero = _is_cmp_const(flt, (ast.Eq,), 0)
    good = source == "successors" and deg == "in_degree" and ((before and one) or (not before and zero and False))
    # (the "captured before, tested after" idiom needs the successors materialised before the removal; not used today)
    r.ob(good, {"remove_root_node": norm_src(cs), "before_removal": before})
    if not good:
        if source != "successors" or deg != "in_degree" or isinstance(flt, ast.Compare):
            r.violate("DiGraphEx.remove_root_node: released set is not 'successors whose in-degree drops from 1 to 0'",
                      rr.loc(cs), f"iterates {source}, tests {norm_src(flt)} {'before' if before else 'after'} the removal",
                      norm_src(cs))
        else:
            raise Undecided("remove_root_node: form not recognised")
    # the returned value is the comprehension's value
    rets = [n for n in iter_own_nodes(rr.node) if isinstance(n, ast.Return)]
    tgt = cs.targets[0].id if isinstance(cs, ast.Assign) and isinstance(cs.targets[0], ast.Name) else None
    okret = len(rets) == 1 and tgt is not None and dotted(rets[0].value) == tgt
    r.ob(okret, {"returns": norm_src(rets[0]) if rets else None})
    if not okret:
        raise Undecided("remove_root_node: returned value is not the computed set")
    # the removed node is the argument
    okarg = dotted(rem_stmt[2].args[0]) == arg and dotted(it.args[0]) == arg
    r.ob(okarg)
    if not okarg:
        r.violate("DiGraphEx.remove_root_node: removes or inspects another node than its argument", rr.loc(rem_stmt[1]),
                  "the node removed and the node whose successors are inspected must be the argument", norm_src(rem_stmt[1]))
    return r


def _is_cmp_const(e: ast.AST, ops: tuple, c: int) -> bool:
    return isinstance(e, ast.Compare) and len(e.ops) == 1 and isinstance(e.ops[0], ops) \
        and isinstance(e.comparators[0], ast.Constant) and e.comparators[0].value == c


# ---------------------------------------------------------------------------------------------- SCH-DONE
def sch_done(ctx: Ctx) -> RuleResult:
    r = RuleResult("SCH-DONE")
    m = model(ctx)
    ps = _sane(m, r)
    for p in ps:
        disp = _dispatch_events(p)
        for i, e in enumerate(p.events):
            if e.kind not in ("G_REMOVE", "G_MUTATE"):
                continue
            if e.kind == "G_MUTATE" and not e.data["how"].startswith("remove") and e.data["how"] != "clear":
                r.ob(False)
                r.violate(f"{m.fn.short}: remaining graph mutated by {e.data['how']}", _where(m, e.node),
                          "the scheduler may only remove finished nodes from the remaining graph", e.data["what"])
                continue
            sel = e.data.get("selected", False)
            inline_before = any(j < i and d.data["kind"] == "inline" for j, d in disp)
            pooled = [d for j, d in disp if d.data["kind"] in POOLED]
            deact = _unit(e.facts, "ACTIVE", False) and not disp
            ok = sel and not pooled and (inline_before or deact)
            r.ob(ok, {"removal": norm_src(e.node), "context": "inline-finished" if inline_before else ("deactivated" if deact else "?"),
                      "path": p.describe()})
            if not ok:
                why = ("the node was only handed to the pool on this path: it has not finished" if pooled else
                       "the removed node is not the selected one" if not sel else
                       "the node neither ran inline nor was deactivated on this path")
                r.violate(f"{m.fn.short}: graph removal outside a completion context ({'pooled' if pooled else 'no-run'})",
                          _where(m, e.node), "a node leaves the remaining graph although " + why, p.describe())
    for q, h in m.helpers.items():
        ok = (not h.removes_done) or (h.checks_result and h.check_before_remove)
        r.ob(ok, {"helper": h.fn.short, "removes only futures of the done set": h.removes_done,
                  "checked before removal": h.check_before_remove})
        if h.removes_done and not ok:
            r.violate(f"{h.fn.short}: finished node removed before / without checking its future", h.fn.loc(h.done_loop or None),
                      "a failed node must not be removed from the graph: its dependents would be released", h.notes)
        if not h.removes_done:
            r.violate(f"{h.fn.short}: finished nodes are not removed from the graph", h.fn.loc(),
                      "the helper waits for futures but never removes the finished nodes: successors are never released")
        early = [x for x in h.notes if x.startswith("EARLY-EXIT")]
        r.ob(not early, {"helper": h.fn.short, "every finished future is pruned (the loop over the done set is not left early)": not early})
        if early:
            r.violate(f"{h.fn.short}: the loop over the finished futures is left early", h.fn.loc(h.done_loop or None),
                      "the wait primitive took all the futures it reports out of the running set; those the loop does not reach are never "
                      "checked and never pruned from the graph: their successors stay blocked and the scheduler spins with nothing in flight",
                      early)
        reb = [x for x in h.notes if x.startswith("PENDING-REBOUND")]
        r.ob(not reb, {"helper": h.fn.short, "pending set is the one returned by the wait primitive": not reb})
        if reb:
            r.violate(f"{h.fn.short}: the set of running futures is re-filtered after the wait", h.fn.loc(h.wait_call),
                      "a future that finishes between the return of the wait primitive and the re-filtering leaves the in-flight set "
                      "without ever being pruned from the graph: its successors never become runnable and the scheduler spins with "
                      "nothing in flight", reb)
    return r


# ---------------------------------------------------------------------------------------------- SCH-ONCE
def sch_once(ctx: Ctx) -> RuleResult:
    r = RuleResult("SCH-ONCE")
    m = model(ctx)
    ps = _sane(m, r)
    for p in ps:
        ks = p.kinds()
        disp = _dispatch_events(p)
        rem = [e for e in p.events if e.kind == "R_REMOVE"]
        deact = any(e.kind == "G_REMOVE" and _unit(e.facts, "ACTIVE", False) for e in p.events) and not disp
        runs = bool(disp) or deact
        if len(disp) > 1:
            r.ob(False)
            r.violate(f"{m.fn.short}: {len(disp)} dispatches on one loop path", _where(m, disp[1][1].node),
                      "a selected node is dispatched more than once in one iteration", p.describe())
            continue
        for e in rem:
            if not e.data["selected"]:
                r.violate(f"{m.fn.short}: runnable set loses {e.data['what']}, not the selected id", _where(m, e.node),
                          "only the selected node may leave the runnable set", p.describe())
        nsel = sum(1 for e in rem if e.data["selected"])
        if runs:
            ok = nsel == 1
            r.ob(ok, {"path": p.describe()})
            if not ok:
                first = disp[0][1].node if disp else next(e.node for e in p.events if e.kind == "G_REMOVE")
                r.violate(f"{m.fn.short}: selected id removed from the runnable set {nsel} times on a "
                          f"{'dispatching' if disp else 'deactivating'} path", _where(m, first),
                          "the selected node must leave the runnable set exactly once, otherwise it is selected again "
                          "(double execution)" if nsel == 0 else "double removal", p.describe())
            elif "SELECT" in ks:
                # the removal must follow the selection
                si = ks.index("SELECT")
                ri = next(i for i, e in enumerate(p.events) if e.kind == "R_REMOVE" and e.data["selected"])
                if ri < si:
                    r.violate(f"{m.fn.short}: runnable set shrinks before the selection", _where(m, p.events[ri].node),
                              "removal of the selected id precedes the selection", p.describe())
        else:
            ok = nsel == 0
            r.ob(ok, {"path": p.describe()})
            if not ok:
                e = next(e for e in rem if e.data["selected"])
                r.violate(f"{m.fn.short}: selected id leaves the runnable set on a path that neither runs nor deactivates it",
                          _where(m, e.node), "the node is lost: it is never executed", p.describe())
    return r


# ---------------------------------------------------------------------------------------------- SCH-PRUNE
def _results_name(m: SchedModel) -> Optional[str]:
    names = {kw.get("results") for kw in m.exec_kwargs}
    if len(names) == 1:
        return next(iter(names))
    return None


def sch_prune(ctx: Ctx) -> RuleResult:
    r = RuleResult("SCH-PRUNE")
    m = model(ctx)
    res = _results_name(m)
    r.require(res is not None, "the results object passed to execute is not one local name")
    pre = m.preloop_statements()
    prune_i = init_i = None
    touched = []
    for i, s in enumerate(pre):
        for n in own_walk(s):
            if isinstance(n, ast.Call) and isinstance(n.func, ast.Attribute) and dotted(n.func.value) == m.G and \
                    n.func.attr.startswith(("remove", "clear", "add")):
                touched.append((i, n))
    for i, n in touched:
        if n.func.attr == "remove_nodes_from" and len(n.args) == 1:
            a = n.args[0]
            if isinstance(a, ast.Call) and dotted(a.func) in ("list", "set", "tuple") and a.args:
                a = a.args[0]
            # the same set written as an intersection: ids of the results  &  nodes of the graph (either order)
            if isinstance(a, ast.BinOp) and isinstance(a.op, ast.BitAnd):
                def _side(e: ast.AST) -> Optional[str]:
                    if isinstance(e, ast.Call) and dotted(e.func) in ("set", "frozenset") and len(e.args) == 1:
                        e = e.args[0]
                    if isinstance(e, ast.Call) and isinstance(e.func, ast.Attribute) and e.func.attr == "keys" and not e.args:
                        e = e.func.value
                    if isinstance(e, ast.Attribute) and e.attr == "nodes":
                        e = e.value
                    if isinstance(e, ast.Call) and isinstance(e.func, ast.Attribute) and e.func.attr == "nodes" and not e.args:
                        e = e.func.value
                    return dotted(e)
                if {_side(a.left), _side(a.right)} == {m.G, res}:
                    prune_i = i
                    continue
            if isinstance(a, (ast.ListComp, ast.SetComp, ast.GeneratorExp)) and len(a.generators) == 1:
                gen = a.generators[0]
                over_g = dotted(gen.iter) == m.G or (isinstance(gen.iter, ast.Attribute) and dotted(gen.iter.value) == m.G
                                                     and gen.iter.attr == "nodes") or \
                    (isinstance(gen.iter, ast.Call) and dotted(gen.iter.func) in (f"{m.G}.nodes", "list") )
                var = dotted(gen.target)
                flt = gen.ifs[0] if len(gen.ifs) == 1 else None
                member = isinstance(flt, ast.Compare) and len(flt.ops) == 1 and isinstance(flt.ops[0], ast.In) \
                    and dotted(flt.left) == var and dotted(flt.comparators[0]) == res and dotted(a.elt if not isinstance(a, ast.DictComp) else None) == var
                if over_g and not member and isinstance(flt, ast.BoolOp) and isinstance(flt.op, ast.And) and dotted(a.elt) == var:
                    mem_ = [c_ for c_ in flt.values if isinstance(c_, ast.Compare) and len(c_.ops) == 1 and isinstance(c_.ops[0], ast.In)
                            and dotted(c_.left) == var and dotted(c_.comparators[0]) == res]
                    rest_ = [c_ for c_ in flt.values if not any(c_ is m_ for m_ in mem_)]
                    if mem_ and rest_:
                        r.ob(False, {"prune": norm_src(n)[:120]})
                        r.violate(f"{m.fn.short}: an id that already has a result is pruned only when {norm_src(rest_[0])[:60]}", m.fn.loc(n),
                                  "a node whose result is provided (a cached result, a setup result, an argument) and that fails the extra "
                                  "test stays in the graph and is executed again: its side effects repeat, and storing its result a second "
                                  "time fails the whole run", norm_src(n))
                        prune_i = i
                        continue
                if over_g and member:
                    prune_i = i
                elif over_g and isinstance(flt, ast.Compare) and isinstance(flt.ops[0], ast.NotIn) and dotted(flt.comparators[0]) == res:
                    r.violate(f"{m.fn.short}: prune removes the ids that are NOT in the results", m.fn.loc(n),
                              "the pre-computed ids must be removed, not kept", norm_src(n))
                    prune_i = i
    init = _r_init(m)
    if init is not None:
        init_i = pre.index(init)
    if prune_i is None:
        # recognised weaker form: a loop that removes a provided id only under a condition on the graph's structure
        from .val import reach_conditions

        for i, n in touched:
            if n.func.attr in ("remove_node", "remove_root_node") and n.args:
                lp = next((l for l in own_walk(pre[i]) if isinstance(l, ast.For) and any(x is n for x in ast.walk(l))), None)
                st = next((b for b in own_walk(pre[i]) if isinstance(b, ast.Expr) and b.value is n), None)
                if lp is None or st is None:
                    continue
                conds = reach_conditions(lp, st) or []
                member = [c_ for c_, pol_ in conds if pol_ and isinstance(c_, ast.Compare) and isinstance(c_.ops[0], ast.In) and dotted(c_.comparators[0]) == res]
                struct = [c_ for c_, pol_ in conds if any(isinstance(x, ast.Attribute) and x.attr in ("in_degree", "out_degree", "predecessors", "successors",
                                                                                                        "root_nodes", "leaf_nodes", "pred", "succ")
                                                         for x in ast.walk(c_))]
                if member and struct:
                    r.ob(False, {"prune": norm_src(pre[i])[:120]})
                    r.violate(f"{m.fn.short}: an id that already has a result is pruned only when {norm_src(struct[0])}", m.fn.loc(n),
                              "the provided results are not closed under ancestors (a cache written after a deactivated node, a setup node "
                              "computed by a root_nodes selection): a node with a provided result and an unfinished predecessor stays in the "
                              "graph and is executed again", norm_src(struct[0]))
                    return r
        # ... or walks down from the roots with the scheduler's own primitive (only roots, and what they release, are candidates)
        for i, n in touched:
            if n.func.attr in ("remove_root_node", "remove_any_root_node") or any(
                    isinstance(x, ast.Attribute) and x.attr == "root_nodes" and dotted(x.value) == m.G for x in ast.walk(pre[i])):
                mem = any(isinstance(c_, ast.Compare) and isinstance(c_.ops[0], ast.In) and dotted(c_.comparators[0]) == res for st_ in pre for c_ in ast.walk(st_))
                if mem:
                    r.ob(False, {"prune": norm_src(pre[i])[:120]})
                    r.violate(f"{m.fn.short}: the ids that already have a result are pruned by walking down from the roots", m.fn.loc(n),
                              "a provided id below a node that has no result (a cache written after a deactivated node, a setup node computed "
                              "by a root_nodes selection) is never reached: it stays in the graph and is executed again", norm_src(pre[i])[:120])
                    return r
        if touched:
            raise Undecided("a statement mutates the graph before the loop but is not the recognised prune form: "
                            + norm_src(touched[0][1]))
        # must-pass-through: nothing at all removes pre-computed ids before scheduling
        callers_prune = False
        for f2, call in ctx.callers_of(m.fn.qualname):
            for n in iter_own_nodes(f2.node):
                if isinstance(n, ast.Call) and isinstance(n.func, ast.Attribute) and n.func.attr == "remove_nodes_from":
                    callers_prune = True
        if callers_prune:
            raise Undecided("no prune in the scheduler; a caller removes nodes from the graph (not modelled)")
        r.ob(False)
        r.violate(f"{m.fn.short}: ids already present in the results are not pruned from the graph before scheduling",
                  m.fn.loc(), "no statement before the scheduler loop removes from the graph the ids that already have a result "
                  "(constants, arguments, executed setup nodes, cached results): they would be executed again", None)
        return r
    r.ob(True, {"prune": norm_src(pre[prune_i])})
    r.require(init_i is not None, "initialisation of the runnable set not found")
    ok = prune_i < init_i
    r.ob(ok, {"runnable initialised after prune": ok})
    if not ok:
        r.violate(f"{m.fn.short}: runnable set initialised before the prune", m.fn.loc(pre[init_i]),
                  "the runnable set is computed from the graph before pre-computed ids are removed: it contains nodes that "
                  "must not run and misses the roots that the prune creates", [norm_src(pre[init_i]), norm_src(pre[prune_i])])
    # the results used for the membership test must be the per-call copy (assigned from copy(param)) or the param itself
    return r


# ---------------------------------------------------------------------------------------------- SCH-BOUND
def _full_sets(m: SchedModel) -> FrozenSet[str]:
    return frozenset(m.F)


def sch_bound(ctx: Ctx) -> RuleResult:
    r = RuleResult("SCH-BOUND")
    m = model(ctx)
    ps = _sane(m, r)
    r.require(bool(m.F), "no in-flight set discovered")
    n_pooled = 0
    for p in ps:
        for i, e in _dispatch_events(p):
            if e.data["kind"] not in POOLED:
                continue
            n_pooled += 1
            lit = _unit(e.facts, "N_FULL", False)
            # full wait since the loop head with nothing added in between
            before = p.events[:i]
            last_add = max([j for j, x in enumerate(before) if x.kind == "ADD"], default=-1)
            waited = {x.data["set"] for x in before[last_add + 1:] if x.kind == "WAIT" and x.data["rebind_running"]}
            full = waited >= set(m.F)
            ok = lit or full
            r.ob(ok, {"path": p.describe(), "by": "literal n<max" if lit else ("full wait" if full else None)})
            if not ok:
                r.violate(f"{m.fn.short}: pooled dispatch({e.data['kind']}) reachable without 'in-flight < max'",
                          _where(m, e.node), "on this path neither a guard literal implying in-flight < max_concurrency is live at the "
                          "dispatch nor were all in-flight sets waited on since the last submission",
                          {"path": p.describe(), "facts": sorted(map(sorted, e.facts))})
    r.require(n_pooled > 0, "no pooled dispatch path found")
    # "all in-flight sets were waited on" implies a free slot only when the wait really blocks until something finished
    for q, h in m.helpers.items():
        tm = [x for x in h.notes if x.startswith("TIMEOUT")]
        r.ob(not tm, {"helper": h.fn.short, "the wait blocks until a future is done (no timeout)": not tm})
        if tm:
            r.violate(f"{h.fn.short}: the wait primitive can return on a timeout ({tm[0][9:]})", h.fn.loc(h.wait_call),
                      "a wait that may return with nothing finished frees no slot: the dispatch that follows the scheduler's 'pool is full' "
                      "wait hands one more node to the pool than max_concurrency allows (and every later one, since the guard tests equality)", tm)
    return r


# ---------------------------------------------------------------------------------------------- SCH-COUNT
def sch_count(ctx: Ctx) -> RuleResult:
    r = RuleResult("SCH-COUNT")
    m = model(ctx)
    ps = _sane(m, r)
    full = _full_sets(m)
    # every count expression used in a branch covers all in-flight sets
    seen = set()
    for n in own_walk(m.loop_stmt):
        if isinstance(n, (ast.If, ast.While)):
            for t in ast.walk(n.test):
                c = m.count_of(t) if isinstance(t, (ast.BinOp, ast.Call)) else None
                if c is not None and id(t) not in seen:
                    # skip sub-terms of a larger sum
                    seen.update(id(x) for x in ast.walk(t))
                    ok = c == full
                    r.ob(ok, {"count": norm_src(t), "sets": sorted(c)})
                    if not ok:
                        r.violate(f"{m.fn.short}: in-flight count {norm_src(t)} omits {sorted(full - c)}", _where(m, t),
                                  "the count used by a guard does not cover every set that receives pooled futures", sorted(c))
    for name, c in m.count_funcs.items():
        ok = c == full
        r.ob(ok, {"count function": name, "sets": sorted(c)})
        if not ok:
            g = ctx.P.nested(m.fn, name)
            r.violate(f"{m.fn.short}.{name}: in-flight count omits {sorted(full - c)}", g.loc() if g else m.fn.loc(),
                      "the in-flight count does not cover every set that receives pooled futures", sorted(c))
    # every pooled dispatch registers its future; sets shrink only through the wait helpers
    for p in ps:
        for i, e in _dispatch_events(p):
            if e.data["kind"] in POOLED:
                after = p.events[i + 1:]
                nxt = next((x for x in after if x.kind in ("ADD", "WAIT", "DISPATCH")), None)
                fv = e.data["info"].get("future_var")
                ok = nxt is not None and nxt.kind == "ADD" and fv is not None and nxt.data.get("arg") == fv
                r.ob(ok, {"dispatch": e.data["kind"], "registered in": nxt.data["set"] if ok else None})
                if not ok:
                    r.violate(f"{m.fn.short}: future of a pooled dispatch({e.data['kind']}) is not added to an in-flight set",
                              _where(m, e.node), "an in-flight future that is not counted breaks the bound and is never waited for",
                              p.describe())
        for e in p.events:
            if e.kind == "F_WRITE":
                r.ob(False)
                r.violate(f"{m.fn.short}: in-flight set written outside dispatch/wait: {norm_src(e.data['what'])}", _where(m, e.node),
                          "in-flight sets grow at pooled dispatches and shrink only by being re-bound to the pending set of a wait",
                          e.data["what"])
            if e.kind == "WAIT":
                ok = e.data["rebind_running"]
                r.ob(ok, {"wait": e.data["what"]})
                if not ok:
                    r.violate(f"{m.fn.short}: pending set returned by the wait helper is not re-bound to the waited set",
                              _where(m, e.node), "finished futures stay counted as in flight", norm_src(e.node))
    r.ob(m.bound_name is not None, {"bound": m.bound_name})
    if m.bound_name is None:
        raise Undecided("no parameter is compared with the in-flight count")
    return r


def sch_poolsize(ctx: Ctx) -> RuleResult:
    """The pool has exactly as many workers as the bound the scheduler counts against."""
    r = RuleResult("SCH-POOLSIZE")
    m = model(ctx)
    mx = m.max_expr
    r.require(m.bound_name is not None, "bound not discovered")
    if mx is None:
        r.ob(False)
        r.violate(f"{m.fn.short}: pool created without max_workers", _where(m, m.pool_ctor),
                  "the pool size is the library default, unrelated to max_concurrency: submissions counted as in flight may queue "
                  "inside the pool, or more threads than the limit run", norm_src(m.pool_ctor))
        return r
    reb = [n for n in iter_own_nodes(m.fn.node) if isinstance(n, (ast.Assign, ast.AugAssign, ast.AnnAssign)) and any(
        isinstance(t, ast.Name) and t.id == m.bound_name for t in (n.targets if isinstance(n, ast.Assign) else [n.target]))]
    r.ob(not reb, {"bound re-assigned inside the scheduler": [norm_src(x) for x in reb]})
    for x in reb:
        r.violate(f"{m.fn.short}: the concurrency bound '{m.bound_name}' is recomputed inside the scheduler", _where(m, x),
                  "the scheduler must enforce the limit it is given: a lower value blocks while slots are free and nodes are ready, a "
                  "higher one exceeds the limit", norm_src(x))
    ok = isinstance(mx, ast.Name) and mx.id == m.bound_name
    r.ob(ok, {"max_workers": norm_src(mx), "bound compared by the guards": m.bound_name})
    if not ok:
        shrinks = any(isinstance(x, ast.Call) and dotted(x.func) == "min" for x in ast.walk(mx)) or isinstance(mx, ast.Constant) \
            or (isinstance(mx, ast.BinOp) and isinstance(mx.op, (ast.Sub, ast.FloorDiv, ast.Div)))
        other_param = isinstance(mx, ast.Name)
        if shrinks or other_param:
            r.violate(f"{m.fn.short}: pool size {norm_src(mx)} differs from the bound '{m.bound_name}' the scheduler counts against",
                      _where(m, m.pool_ctor), "the scheduler submits up to the bound and counts submissions as running; with fewer "
                      "workers the surplus queues inside the pool while slots look busy (ready nodes wait although the limit is "
                      "not reached)", norm_src(m.pool_ctor))
        else:
            raise Undecided(f"max_workers expression not recognised: {norm_src(mx)}")
    return r


# ---------------------------------------------------------------------------------------------- SCH-ARMS
def _resource_members(ctx: Ctx) -> List[str]:
    c = ctx.P.classes[ctx.cls_q("Resource")]
    out = []
    for b in c.node.body:
        if isinstance(b, ast.AnnAssign) and isinstance(b.target, ast.Name) and b.value is not None:
            out.append(b.target.id)
        elif isinstance(b, ast.Assign) and isinstance(b.targets[0], ast.Name):
            out.append(b.targets[0].id)
    return out


EXPECTED_KIND = {"thread": "pool", "async_thread": "async", "main_thread": "inline"}


def sch_arms(ctx: Ctx) -> RuleResult:
    r = RuleResult("SCH-ARMS")
    m = model(ctx)
    ps = _sane(m, r)
    members = _resource_members(ctx)
    r.require(set(members) == set(EXPECTED_KIND), f"Resource members changed: {members} (mapping table must be confirmed by hand)")
    covered: Dict[str, str] = {}
    for p in ps:
        for i, e in _dispatch_events(p):
            poss = set(members)
            for c in e.facts:
                if len(c) == 1:
                    (a, v), = c
                    if a.startswith("RES:"):
                        mem = a[4:]
                        if v:
                            poss &= {mem}
                        else:
                            poss -= {mem}
            kind = e.data["kind"]
            if kind == "foreign":
                r.ob(False, {"dispatch": "foreign", "callee": e.data["info"].get("callee")})
                r.violate(f"{m.fn.short}: node function handed to {e.data['info'].get('callee', '?')[4:]}, not to the scheduler's pool",
                          _where(m, e.node), "the node runs on an executor that is not bounded by max_concurrency (e.g. the event loop's "
                          "default executor): the scheduler counts it as in flight while it may be queued elsewhere, or more threads than "
                          "the limit run", norm_src(e.node))
                continue
            exp = {k for k, v in EXPECTED_KIND.items() if v == kind}
            ok = poss == exp
            r.ob(ok, {"dispatch": kind, "resources reaching it": sorted(poss)})
            if not ok:
                r.violate(f"{m.fn.short}: dispatch({kind}) is reached for resources {sorted(poss)}", _where(m, e.node),
                          f"nodes whose resource is {sorted(poss - exp) or sorted(poss)} are dispatched '{kind}'; "
                          f"expected thread->pool submit, async_thread->task around a pool submission, main_thread->inline call",
                          p.describe())
            for x in poss:
                covered.setdefault(x, kind)
            info = e.data["info"]
            if kind == "async":
                direct = info.get("direct") is not None or (info.get("callee") in ctx.P.funcs and _returns_pool_future(ctx.P.funcs[info["callee"]]))
                okw = (info["wrapped"] is not None or direct) and not info["awaited"]
                r.ob(okw, {"async dispatch wrapped in": info["wrapped"], "wrapper returns the submission's future": direct,
                           "awaited in place": info["awaited"]})
                if not okw:
                    r.violate(f"{m.fn.short}: async-thread dispatch is awaited in place / not made a task", _where(m, e.node),
                              "the scheduler would block on the node instead of keeping it in flight", norm_src(info["stmt"]))
            if kind == "pool" and info["awaited"]:
                r.violate(f"{m.fn.short}: pool submission awaited", _where(m, e.node), "", norm_src(info["stmt"]))
    miss = set(members) - set(covered)
    r.ob(not miss, {"members": members, "covered": covered})
    if miss:
        r.violate(f"{m.fn.short}: no dispatch arm for resource(s) {sorted(miss)}", m.fn.loc(m.loop_stmt),
                  "a node with this resource is never executed", sorted(miss))
    kws = m.exec_kwargs
    same = all(k == kws[0] for k in kws)
    r.ob(same, {"execute arguments per arm": kws})
    if not same:
        r.violate(f"{m.fn.short}: dispatch arms pass different results/profiles objects", m.fn.loc(m.loop_stmt),
                  "all arms must share the per-call results and profiles", kws)
    return r


# ---------------------------------------------------------------------------------------------- SCH-SEQ-PRE / POST
def sch_seq_pre(ctx: Ctx) -> RuleResult:
    r = RuleResult("SCH-SEQ-PRE")
    m = model(ctx)
    _reselected(m, r)
    if r.findings:
        return r
    ps = _sane(m, r)
    want = frozenset([("SEQ", False), ("N_ZERO", True)])
    nd = 0
    for p in ps:
        for i, e in _dispatch_events(p):
            nd += 1
            ok = any(c <= want for c in e.facts)
            r.ob(ok, {"path": p.describe()})
            if not ok:
                r.violate(f"{m.fn.short}: dispatch({e.data['kind']}) not guarded by 'not sequential or nothing in flight'",
                          _where(m, e.node), "a sequential node can be started while other nodes are in flight: no live fact "
                          "'not xn.is_sequential or in-flight == 0' at the dispatch on this path",
                          {"path": p.describe(), "facts": sorted(map(sorted, e.facts))})
    r.require(nd > 0, "no dispatch path")
    return r


def sch_seq_post(ctx: Ctx) -> RuleResult:
    r = RuleResult("SCH-SEQ-POST")
    m = model(ctx)
    ps = _sane(m, r)
    nd = 0
    for p in ps:
        for i, e in _dispatch_events(p):
            if e.data["kind"] not in POOLED:
                continue
            nd += 1
            post = p.events[i + 1:]
            fset = next((x.data["set"] for x in post if x.kind == "ADD"), None)
            seq_false = any(x.kind == "BRANCH" and frozenset([("SEQ", False)]) in x.data["clauses"] for x in post)
            waited = {x.data["set"] for x in post if x.kind == "WAIT"}
            ok = seq_false or (fset is not None and fset in waited)
            r.ob(ok, {"path": p.describe(), "sequential excluded by branch": seq_false, "drained": sorted(waited)})
            if not ok:
                r.violate(f"{m.fn.short}: after dispatch({e.data['kind']}) of a possibly sequential node the loop continues "
                          f"without waiting for it", _where(m, e.node),
                          "a sequential node handed to the pool must be waited for before anything else is started",
                          p.describe())
    r.require(nd > 0, "no pooled dispatch path")
    # the drain is a wait that returns only when the sequential node has finished: the wait primitive has no timeout
    for q, h in m.helpers.items():
        tm = [x for x in h.notes if x.startswith("TIMEOUT")]
        r.ob(not tm, {"helper": h.fn.short, "wait without timeout": not tm})
        if tm:
            r.violate(f"{h.fn.short}: the wait primitive is given a timeout ({tm[0][9:]})", h.fn.loc(h.wait_call),
                      "the wait issued once after a sequential node was handed to the pool returns when the timeout expires, with that "
                      "node still running: the loop goes on and starts other nodes alongside it", tm)
    return r


def _reselected(m: SchedModel, r: RuleResult) -> None:
    """The node that is dispatched is the node that was selected and tested: it is not re-bound, under a test on itself, in between."""
    rs = getattr(m, "reselect", None)
    r.ob(rs is None, {"selected node re-bound after its guards": norm_src(rs)[:80] if rs is not None else None})
    if rs is not None:
        r.violate(f"{m.fn.short}: the selected node is replaced by another one after it was tested ({norm_src(rs)[:60]})", _where(m, rs),
                  "the replacement is dispatched without having gone through the iteration's guards: it may be sequential itself (and "
                  "starts alongside the nodes in flight), and it is not the highest compound priority of the ready set", norm_src(rs))


# ---------------------------------------------------------------------------------------------- SCH-PRIO
def sch_prio(ctx: Ctx) -> RuleResult:
    r = RuleResult("SCH-PRIO")
    m = model(ctx)
    form, key = m.sel_form, m.sel_key
    inst = {"selection": norm_src(m.sel_expr)}
    _reselected(m, r)
    if r.findings:
        return r
    if getattr(m, "sel_subset", None):
        r.ob(False, inst)
        r.violate(f"{m.fn.short}: the selection ranks only a part of the runnable set ({m.sel_subset[0]}() may return {m.sel_subset[1]})",
                  m.fn.loc(m.sel_stmt), "the node that starts must have the greatest compound priority among ALL ready nodes: a ready node "
                  "that the filter leaves out is overtaken by a node of lower compound priority", norm_src(m.sel_expr))
        return r
    if form != "max":
        r.ob(False, inst)
        r.violate(f"{m.fn.short}: selection is '{form}' over the runnable set, not 'max'", m.fn.loc(m.sel_stmt),
                  "the node that starts must have the greatest compound priority among the runnable nodes", norm_src(m.sel_expr))
        return r
    if key is None:
        r.ob(False, inst)
        r.violate(f"{m.fn.short}: selection without priority key", m.fn.loc(m.sel_stmt),
                  "max over node ids compares the ids, not the compound priorities", norm_src(m.sel_expr))
        return r
    ok, why = _prio_key(m, key)
    if ok is None:
        raise Undecided("selection key not recognised: " + norm_src(key))
    r.ob(ok, inst)
    if not ok:
        r.violate(f"{m.fn.short}: selection key is not the executed graph's compound priority", m.fn.loc(m.sel_stmt), why,
                  norm_src(key))
    return r


def _prio_key(m: SchedModel, key: ast.AST):
    if isinstance(key, ast.Lambda) and len(key.args.args) == 1:
        a = key.args.args[0].arg
        b = key.body
        if isinstance(b, ast.Subscript) and dotted(b.slice) == a and isinstance(b.value, ast.Attribute):
            tbl, g = b.value.attr, dotted(b.value.value)
            if tbl == "compound_priority" and g == m.G:
                return True, ""
            if tbl == "compound_priority":
                return False, f"the table is read from '{g}', not from the executed graph '{m.G}'"
            return False, f"the key reads table '{tbl}'"
        if isinstance(b, ast.UnaryOp) and isinstance(b.op, ast.USub):
            return False, "negated key"
        if isinstance(b, ast.Attribute) and b.attr in ("priority",):
            return False, "the key is the node's own priority, not the compound priority"
        if isinstance(b, ast.Call) and isinstance(b.func, ast.Attribute) and b.func.attr == "get" and \
                isinstance(b.func.value, ast.Attribute) and b.func.value.attr == "compound_priority":
            return (dotted(b.func.value.value) == m.G and dotted(b.args[0]) == a), "table of another graph"
        for t in ast.walk(b):
            if isinstance(t, ast.Attribute) and t.attr == "priority":
                return False, "the key is the node's own priority, not the compound priority"
        return None, ""
    if isinstance(key, ast.Attribute) and key.attr in ("__getitem__", "get") and isinstance(key.value, ast.Attribute) \
            and key.value.attr == "compound_priority":
        return dotted(key.value.value) == m.G, "table of another graph"
    return None, ""


# ---------------------------------------------------------------------------------------------- SCH-FRESHPICK
def sch_freshpick(ctx: Ctx) -> RuleResult:
    r = RuleResult("SCH-FRESHPICK")
    m = model(ctx)
    ps = _sane(m, r)
    for p in ps:
        si = p.index("SELECT")
        for i, e in _dispatch_events(p):
            between = p.events[si + 1:i] if si >= 0 else p.events[:i]
            bad = [x for x in between if x.kind in ("WAIT", "R_ADD", "G_REMOVE")]
            r.ob(not bad, {"path": p.describe()})
            if bad:
                r.violate(f"{m.fn.short}: runnable set can grow between selection and dispatch ({bad[0].kind})",
                          _where(m, bad[0].node), "a node that became ready after the selection, possibly with a greater "
                          "compound priority, is not considered: the stale choice is dispatched", p.describe())
    return r


def sch_poolexit(ctx: Ctx) -> RuleResult:
    """The pool entered by the scheduler is left on EVERY exit, exceptional ones included (pairing rule).

    ThreadPoolExecutor.__exit__ waits for the running work: when it is only reached on the normal exit, a failing call returns
    while the nodes it started are still running - they overlap the next call on the same DAG (its sequential nodes, its
    max_concurrency) and the worker threads stay alive until the exception object is collected."""
    r = RuleResult("SCH-POOLEXIT")
    m = model(ctx)
    f = m.fn
    in_with = any(isinstance(n, (ast.With, ast.AsyncWith)) and any(it.context_expr is m.pool_ctor for it in n.items) for n in iter_own_nodes(f.node))
    if in_with:
        r.ob(True, {"pool managed by": "with"})
        return r
    exits = [n for n in iter_own_nodes(f.node) if isinstance(n, ast.Call) and isinstance(n.func, ast.Attribute)
             and n.func.attr in ("__exit__", "shutdown") and dotted(n.func.value) == m.pool_var]
    in_finally = False
    for t in iter_own_nodes(f.node):
        if isinstance(t, ast.Try) and any(x is e for st in t.finalbody for x in ast.walk(st) for e in exits) \
                and any(m.loop_stmt is x for st in t.body for x in ast.walk(st)):
            in_finally = True
    r.ob(in_finally, {"pool variable": m.pool_var, "released by": [norm_src(e) for e in exits], "on every exit (finally / with)": in_finally})
    if not exits:
        raise Undecided("the scheduler's pool is neither managed by 'with' nor released explicitly (form not modelled)")
    if not in_finally:
        r.violate("scheduler: the thread pool is released on the normal exit only", f.loc(exits[0]),
                  "when a node fails the exception leaves the scheduler without ThreadPoolExecutor.__exit__: the call returns while nodes it "
                  "started are still running; the next call on the DAG runs alongside them (a sequential node is not alone, more than "
                  "max_concurrency nodes of the DAG run) - it does not behave like a call on a freshly built DAG", norm_src(exits[0]))
    return r


def sch_onlydispatch(ctx: Ctx) -> RuleResult:
    """Node functions are entered from the scheduler only: nothing else in the package calls ExecNode.execute."""
    r = RuleResult("SCH-ONLYDISPATCH")
    m = model(ctx)
    ex = ctx.method("ExecNode", "execute")
    n = 0
    for f in ctx.funcs():
        if f.module.name.endswith("_twzsa_control"):
            continue
        for c in iter_own_nodes(f.node):
            if isinstance(c, ast.Attribute) and c.attr == "execute" and m._is_execute_ref(f, c):
                n += 1
                ok = f.qualname == m.fn.qualname
                r.ob(ok, {"reference to ExecNode.execute in": f.short})
                if not ok:
                    r.violate(f"{f.short}: runs a node outside the scheduler ({norm_src(c)})", f.loc(c),
                              "the node runs on the calling thread whatever its resource, outside max_concurrency and the sequential "
                              "protocol, and without the activation test", norm_src(c))
    r.require(n >= 3, f"only {n} references to ExecNode.execute found (the scheduler has three dispatch arms)")
    return r


def sch_poolown(ctx: Ctx) -> RuleResult:
    """The worker pool belongs to one execution: it is created by the scheduler for this run and bound to a local.

    A pool kept in a cache (per thread, per size, module level) is shared by executions that overlap - concurrent awaits of an
    AsyncDAG in one loop, a DAG called inside a node: each scheduler counts max_concurrency free slots of a pool that has
    max_concurrency workers in total, so ready nodes queue inside the pool while every scheduler believes they run."""
    r = RuleResult("SCH-POOLOWN")
    m = model(ctx)
    kept = getattr(m, "pool_kept_in", None)
    r.ob(kept is None, {"pool": norm_src(m.pool_ctor), "bound to": m.pool_var, "kept in": norm_src(kept) if kept is not None else None})
    if kept is not None:
        r.violate(f"{m.fn.short}: the worker pool is kept in {norm_src(kept.value)} and reused by later / overlapping executions", _where(m, m.pool_ctor),
                  "two executions that overlap on one thread (asyncio.gather of an AsyncDAG, a DAG run inside a node) share the workers: "
                  "each counts its own max_concurrency slots, the pool runs max_concurrency nodes in total - ready nodes idle in the "
                  "pool's queue although the scheduler believes they are in flight", norm_src(kept))
    return r


def sch_ownthread(ctx: Ctx) -> RuleResult:
    """The scheduler runs on the thread that invoked the DAG: its entry functions are only ever *called* (and awaited), never handed
    as a value to something that would run them elsewhere (asyncio.to_thread, run_in_executor, submit, Thread(target=..)).

    Main-thread nodes run inline in the scheduler: where the scheduler runs is where they run."""
    r = RuleResult("SCH-OWNTHREAD")
    m = model(ctx)
    entries = {m.fn.qualname} | {q for q in ctx.P.funcs if ctx.P.funcs[q].cls is None and ctx.P.funcs[q].name in ("sync_execute", "async_execute")}
    names = {q.rsplit(".", 1)[-1] for q in entries}
    n = 0
    for f in ctx.funcs():
        if f.module.name.endswith("_twzsa_control"):
            continue
        called = {id(c.func) for c in iter_own_nodes(f.node) if isinstance(c, ast.Call)}
        for x in iter_own_nodes(f.node):
            if isinstance(x, ast.Name) and x.id in names and isinstance(x.ctx, ast.Load) and ctx.P.resolve_name(f.module, x.id) in entries:
                n += 1
                ok = id(x) in called
                r.ob(ok, {"scheduler entry referenced in": f.short, "as": "a call" if ok else "a value"})
                if not ok:
                    r.violate(f"{f.short}: the scheduler entry {x.id} is handed over as a value instead of being called", f.loc(x),
                              "whatever receives it (asyncio.to_thread, an executor, a Thread) runs the scheduler - and with it every "
                              "main-thread node - on another thread than the one that invoked the DAG", norm_src(x))
    r.require(n >= 4, f"only {n} references to the scheduler entries found")
    return r


def sch_stalepick(ctx: Ctx) -> RuleResult:
    """After a node has run on the scheduler's own thread (an unbounded time), finished pooled nodes are collected before the
    next selection - otherwise a node whose dependencies finished meanwhile is not among the candidates."""
    r = RuleResult("SCH-STALEPICK")
    m = model(ctx)
    ps = _sane(m, r)
    pooled = any(info["kind"] in ("pool", "async") for info in m.dispatch.values())
    inline = []
    for p in ps:
        for i, e in _dispatch_events(p):
            if e.data["kind"] == "inline" and not any(x.kind == "WAIT" for x in p.events[i + 1:]):
                inline.append(p)
    picks = []
    for p in ps:
        si = p.index("SELECT")
        if si >= 0 and not any(x.kind == "WAIT" for x in p.events[:si]):
            picks.append(p)
    if not inline or not pooled:
        r.ob(True, {"inline dispatch that is not followed by a collection": len(inline), "pooled dispatches": pooled})
        return r
    r.ob(not picks, {"iterations that run a node inline and loop back without collecting": len(inline),
                     "iterations that select without collecting finished futures first": len(picks)})
    if picks:
        sel = picks[0].events[picks[0].index("SELECT")]
        r.violate("scheduler: selection after an inline node uses the ready set computed before that node ran", _where(m, sel.node),
                  "pooled nodes that finished while a main-thread node was running are only collected when the scheduler blocks "
                  "(pool full / nothing runnable): their successors, ready by then and possibly of higher priority, do not compete "
                  "for the next pick, and a free worker stays idle", picks[0].describe())
    return r


# ---------------------------------------------------------------------------------------------- wait licences
def _wait_sites(m: SchedModel, ps: List[Path]):
    """One record per distinct wait call site: position class, guards, data."""
    sites: Dict[int, dict] = {}
    for p in ps:
        ks = p.kinds()
        si = ks.index("SELECT") if "SELECT" in ks else None
        di = ks.index("DISPATCH") if "DISPATCH" in ks else None
        for i, e in enumerate(p.events):
            if e.kind != "WAIT":
                continue
            pos = "pre-select" if (si is None or i < si) else ("post-dispatch" if (di is not None and i > di) else "pre-dispatch")
            s = sites.setdefault(id(e.node), {"event": e, "pos": set(), "paths": []})
            s["pos"].add(pos)
            s["paths"].append(p)
    return sites


def _licence(m: SchedModel, site: dict) -> Tuple[Optional[str], str]:
    e: Event = site["event"]
    g = e.guards
    pos = site["pos"]
    if len(pos) != 1:
        return None, f"wait site reached at different phases of the iteration: {sorted(pos)}"
    pos = next(iter(pos))
    if not g:
        return None, "unconditional blocking wait"
    main_atoms = {("N_FULL", True), ("R_EMPTY", True)}
    if pos == "pre-select":
        bad = [c for c in g if not c <= main_atoms]
        if not bad:
            return "MAIN", ""
        return None, "guard has a disjunct/conjunct other than 'in-flight == max' / 'runnable empty': " + \
            "; ".join(" or ".join(f"{'' if v else 'not '}{a}" for a, v in sorted(c)) for c in bad)
    if pos == "pre-dispatch":
        if frozenset([("SEQ", True)]) in g and frozenset([("N_ZERO", False)]) in g:
            return "SEQ-PRE", ""
        return None, "wait between selection and dispatch not under 'sequential candidate and something in flight'"
    if frozenset([("SEQ", True)]) in g:
        return "SEQ-POST", ""
    return None, "wait after a dispatch not under 'the dispatched node is sequential'"


def sch_waitsites(ctx: Ctx) -> RuleResult:
    r = RuleResult("SCH-WAITSITES")
    m = model(ctx)
    ps = _sane(m, r)
    sites = _wait_sites(m, ps)
    r.require(bool(sites), "no wait site in the scheduler loop")
    for s in sites.values():
        lic, why = _licence(m, s)
        e = s["event"]
        r.ob(lic is not None, {"wait": e.data["what"], "where": _where(m, e.node), "licence": lic})
        # under MAIN / SEQ-PRE one completion is enough to go back to the loop head and look at the ready set again: such a wait is not
        # repeated by an inner loop of its own (a drain keeps ready nodes and free slots waiting for unrelated nodes to finish)
        if lic in ("MAIN", "SEQ-PRE"):
            from ..ctx import enclosing_stmt_chain

            inner = [x for x in enclosing_stmt_chain(m.loop_stmt, e.node) if isinstance(x, (ast.While, ast.For, ast.AsyncFor)) and x is not m.loop_stmt]
            r.ob(not inner, {"wait": e.data["what"], "licence": lic, "repeated by an inner loop": bool(inner)})
            if inner:
                r.violate(f"{m.fn.short}: the {lic} wait({e.data['kind']}) is repeated by an inner loop ({norm_src(inner[-1].test if isinstance(inner[-1], ast.While) else inner[-1].iter)[:50]})",
                          _where(m, e.node), "the scheduler keeps waiting until the loop condition fails instead of re-examining the ready "
                          "set after the first completion: a ready node released by an early finisher, and a free slot, wait for nodes they "
                          "do not depend on", norm_src(inner[-1])[:120])
        if lic is None:
            r.violate(f"{m.fn.short}: blocking wait({e.data['kind']}) outside the three licences", _where(m, e.node),
                      "the scheduler may block only when max_concurrency nodes are in flight, nothing is runnable, or a sequential "
                      "node is the candidate / is running: " + why, norm_src(e.node))
    return r


def sch_waitmode(ctx: Ctx) -> RuleResult:
    r = RuleResult("SCH-WAITMODE")
    m = model(ctx)
    ps = _sane(m, r)
    for s in _wait_sites(m, ps).values():
        lic, _ = _licence(m, s)
        e = s["event"]
        if lic in ("MAIN", "SEQ-PRE"):
            mode = e.data["mode"]
            if mode is not None and mode.startswith("?"):
                raise Undecided(f"wait mode not a known constant: {mode}")
            ok = mode == FIRST
            r.ob(ok, {"wait": e.data["what"], "licence": lic})
            if not ok:
                r.violate(f"{m.fn.short}: {lic} wait({e.data['kind']}) uses {mode}", _where(m, e.node),
                          "under this licence one completion must be enough to resume: waiting for all running nodes leaves "
                          "free slots idle while nodes are ready", norm_src(e.node))
        elif lic == "SEQ-POST":
            r.ob(True, {"wait": e.data["what"], "licence": lic, "mode": "any (one future in flight)"})
    for q, h in m.helpers.items():
        # one call of the helper is one wait: it returns with the first completion it was asked for
        rew = [x for x in h.notes if x.startswith("REWAIT")]
        for c2, q2 in ctx.calls_in(h.fn):
            if q2 in m.helpers and q2 != q:
                rew.append("REWAIT: calls " + m.helpers[q2].fn.short)
        r.ob(not rew, {"helper": h.fn.short, "waits once per call": not rew})
        if rew:
            r.violate(f"{h.fn.short}: the wait helper waits more than once per call", h.fn.loc(h.wait_call),
                      "the scheduler asked to be resumed at the FIRST completion (a slot is free, or a successor became ready): a helper "
                      "that waits again keeps it blocked while a ready node and a free slot both exist - " + rew[0], rew)
        # the helper must forward the mode it is given
        ok = h.p_mode is not None
        r.ob(ok, {"helper": h.fn.short, "mode parameter": h.p_mode, "constant": h.const_mode})
        if not ok:
            if h.const_mode == FIRST:
                continue
            r.violate(f"{h.fn.short}: wait mode is the constant {h.const_mode}, the requested mode is ignored", h.fn.loc(h.wait_call),
                      "callers asking for FIRST_COMPLETED get " + str(h.const_mode), norm_src(h.wait_call))
    return r


def sch_guard(ctx: Ctx) -> RuleResult:
    """The MAIN guard exists and dominates the selection (the scheduler does block when full)."""
    r = RuleResult("SCH-GUARD")
    m = model(ctx)
    ps = _sane(m, r)
    sites = _wait_sites(m, ps)
    mains = [s for s in sites.values() if _licence(m, s)[0] == "MAIN"]
    r.ob(bool(mains), {"MAIN wait sites": len(mains)})
    if not mains:
        raise Undecided("no wait site under the MAIN licence found")
    covered = {s["event"].data["set"] for s in mains}
    ok = covered >= set(m.F)
    r.ob(ok, {"sets waited under MAIN": sorted(x for x in covered if x)})
    if not ok:
        r.violate(f"{m.fn.short}: MAIN licence does not wait on every in-flight set", _where(m, mains[0]["event"].node),
                  f"sets {sorted(set(m.F) - covered)} are never waited for when the scheduler is full or idle", sorted(covered))
    # under one licence every in-flight set is polled under the same condition: the wait on one set is not made to depend on what the
    # wait on another set has just released (its finished futures would stay uncollected: their successors are missing from the
    # ranking, their failures are not observed, while the scheduler goes on dispatching)
    for lic in ("MAIN", "SEQ-PRE"):
        group = sorted((s for s in sites.values() if _licence(m, s)[0] == lic), key=lambda s: getattr(s["event"].node, "lineno", 0))
        if len(group) < 2:
            continue
        g0 = group[0]["event"].guards
        for s in group[1:]:
            e = s["event"]
            same = tuple(e.guards) == tuple(g0)
            r.ob(same, {"licence": lic, "wait": e.data["what"], "polled under the same guards as the first wait of the licence": same})
            if not same:
                r.violate(f"{m.fn.short}: under the {lic} licence the wait on {e.data['set'] or e.data['kind']} is reached under a different "
                          f"condition than the wait on {group[0]['event'].data['set'] or group[0]['event'].data['kind']}", _where(m, e.node),
                          "futures of this set that have already finished are not collected when the other wait released something: the "
                          "nodes they make ready are missing from the set the selection ranks (a lower compound priority starts first) and "
                          "a failure stored in one of them is stepped over while further nodes are started", norm_src(e.node)[:120])
    return r


def sch_waitorder(ctx: Ctx) -> RuleResult:
    """Under every licence that waits on both kinds of futures the awaited wait comes first (loop liveness, C17 only: the order is
    indifferent to what starts, to idling and to the observation of failures)."""
    r = RuleResult("SCH-WAITORDER")
    m = model(ctx)
    ps = _sane(m, r)
    sites = _wait_sites(m, ps)
    for lic in ("MAIN", "SEQ-PRE"):
        group = sorted((s for s in sites.values() if _licence(m, s)[0] == lic), key=lambda s: getattr(s["event"].node, "lineno", 0))
        if len(group) < 2:
            continue
        # the awaited wait comes first: while the scheduler coroutine sits in the blocking wait on the thread futures the event loop is
        # not served - taken first, it keeps async-thread nodes (and every other coroutine of the loop) from being observed at all
        kinds_ = [s_["event"].data["kind"] for s_ in group]
        if "async" in kinds_ and "conc" in kinds_:
            first_async = kinds_.index("async") < kinds_.index("conc")
            r.ob(first_async, {"licence": lic, "order of the waits": kinds_})
            if not first_async:
                r.violate(f"{m.fn.short}: under the {lic} licence the blocking wait on the thread futures precedes the awaited wait",
                          _where(m, group[0]["event"].node), "the other licences await the async-thread futures first; here the event loop is "
                          "blocked before it was given the hand: an async-thread node that needs a sibling coroutine to progress never "
                          "finishes while a thread node is in flight", kinds_)
    return r


def sch_mixwait(ctx: Ctx) -> RuleResult:
    """Expected finding F-10: consecutive blocking waits on disjoint in-flight sets under one licence."""
    r = RuleResult("SCH-MIXWAIT")
    m = model(ctx)
    ps = _sane(m, r)
    sites = _wait_sites(m, ps)
    by_lic: Dict[Tuple[str, Tuple], List[dict]] = {}
    for s in sites.values():
        lic, _ = _licence(m, s)
        if lic in ("MAIN", "SEQ-PRE"):
            by_lic.setdefault((lic, s["event"].guards), []).append(s)
    for (lic, _), ss in sorted(by_lic.items(), key=lambda kv: kv[0][0]):
        ss.sort(key=lambda s: getattr(s["event"].node, "lineno", 0))
        kinds = [s["event"].data["kind"] for s in ss]
        r.ob(len(set(kinds)) <= 1, {"licence": lic, "waits": kinds})
        if len(set(kinds)) > 1:
            ks = sorted(set(kinds))
            r.violate(f"scheduler {lic} licence: consecutive blocking waits on disjoint in-flight sets ({' + '.join(ks)})",
                      _where(m, ss[0]["event"].node),
                      "with futures of both kinds in flight the scheduler waits for one of EACH kind: a finished node of the second "
                      "kind does not release its successors until a node of the first kind finishes", kinds)
    return r


# ---------------------------------------------------------------------------------------------- SCH-PROGRESS / EXIT / EMPTYWAIT
def sch_progress(ctx: Ctx) -> RuleResult:
    r = RuleResult("SCH-PROGRESS")
    m = model(ctx)
    ps = _sane(m, r)
    helpers_ok = all(h.removes_done for h in m.helpers.values())
    for p in ps:
        ks = p.kinds()
        moved = ("DISPATCH" in ks and any(e.kind == "R_REMOVE" and e.data["selected"] for e in p.events))
        removed = "G_REMOVE" in ks
        how = None
        if moved or removed:
            how = "graph shrinks" if removed else "runnable -> in flight"
        elif "WAIT" in ks:
            first = next(e for e in p.events if e.kind == "WAIT")
            f = first.facts
            waited = {e.data["set"] for e in p.events if e.kind == "WAIT"}
            allsets = waited >= set(m.F)
            if (_unit(f, "N_FULL", True) or _unit(f, "N_ZERO", False)) and allsets:
                how = "blocking wait: in-flight > 0 from path facts"
            elif any(c <= frozenset([("N_FULL", True), ("R_EMPTY", True)]) for c in f) and allsets:
                how = "blocking wait: in-flight == max >= 1, or runnable empty hence in flight non-empty (INV-R)"
            if how and not helpers_ok:
                how = None
        ok = how is not None
        r.ob(ok, {"path": p.describe(), "progress": how})
        if not ok:
            n = p.events[-1].node if p.events else m.loop_stmt
            r.violate(f"{m.fn.short}: loop path without progress: {_path_key(p) or 'empty iteration'}", _where(m, n),
                      "on this path the graph does not shrink, no node moves from runnable to in flight and no wait provably blocks "
                      "on a non-empty set: the scheduler can spin or sleep forever", p.describe())
    return r


def sch_exit(ctx: Ctx) -> RuleResult:
    r = RuleResult("SCH-EXIT")
    m = model(ctx)

    def scan(stmts, in_inner_loop):
        for s in stmts:
            if isinstance(s, ast.Return):
                r.ob(False)
                r.violate(f"{m.fn.short}: return inside the scheduler loop", _where(m, s),
                          "the scheduler can return normally while selected nodes have not run", norm_src(s))
            elif isinstance(s, ast.Break) and not in_inner_loop:
                r.ob(False)
                r.violate(f"{m.fn.short}: break inside the scheduler loop", _where(m, s),
                          "the scheduler can leave the loop while the graph is not empty", norm_src(s))
            elif isinstance(s, (ast.For, ast.AsyncFor, ast.While)):
                scan(s.body, True)
                scan(s.orelse, in_inner_loop)
            elif isinstance(s, ast.If):
                scan(s.body, in_inner_loop)
                scan(s.orelse, in_inner_loop)
            elif isinstance(s, (ast.With, ast.AsyncWith)):
                scan(s.body, in_inner_loop)
            elif isinstance(s, ast.Try):
                scan(s.body, in_inner_loop)
                for h in s.handlers:
                    scan(h.body, in_inner_loop)
                scan(s.orelse, in_inner_loop)
                scan(s.finalbody, in_inner_loop)

    scan(m.loop_stmt.body, False)
    ok = m.loop_test_graph == m.G
    r.ob(ok, {"loop test": norm_src(m.loop_stmt.test), "graph": m.G})
    if not ok:
        r.violate(f"{m.fn.short}: the scheduler loop does not run 'while the remaining graph is non-empty'", m.fn.loc(m.loop_stmt),
                  f"the loop test is '{norm_src(m.loop_stmt.test)}': the loop can end (the call returns normally) while selected nodes "
                  f"are still in flight or not yet started", norm_src(m.loop_stmt.test))
    # the value returned after the loop includes the results object given to execute
    return r


def sch_emptywait(ctx: Ctx) -> RuleResult:
    r = RuleResult("SCH-EMPTYWAIT")
    m = model(ctx)
    n = 0
    for q, h in m.helpers.items():
        if h.kind == "async":
            n += 1
            r.ob(h.early_return_on_empty, {"helper": h.fn.short, "returns before asyncio.wait on an empty set": h.early_return_on_empty})
            if not h.early_return_on_empty:
                r.violate(f"{h.fn.short}: asyncio.wait reachable with an empty set", h.fn.loc(h.wait_call),
                          "asyncio.wait raises ValueError on an empty set; the scheduler calls this helper with nothing in flight",
                          norm_src(h.wait_call))
        if h.fn.is_async:
            for p in m.paths():
                for e in p.events:
                    if e.kind == "WAIT" and e.data["helper"] == q and not e.data["awaited"]:
                        r.violate(f"{m.fn.short}: coroutine wait helper called without await", _where(m, e.node),
                                  "the helper never runs", norm_src(e.node))
    r.require(n > 0 or not any(k == "async" for k in m.F.values()), "no async wait helper although async futures exist")
    return r


# ---------------------------------------------------------------------------------------------- SCH-DEACT / ACTIVE
def sch_deact(ctx: Ctx) -> RuleResult:
    r = RuleResult("SCH-DEACT")
    m = model(ctx)
    ps = _sane(m, r)
    r.require(bool(m.activation_funcs), "activation predicate not found")
    n_false = 0
    for p in ps:
        br = [e for e in p.events if e.kind == "BRANCH" and any(("ACTIVE", False) in c or ("ACTIVE", True) in c for c in e.data["clauses"])]
        disp = _dispatch_events(p)
        act_false = any(frozenset([("ACTIVE", False)]) in e.data["clauses"] for e in br)
        act_true = any(frozenset([("ACTIVE", True)]) in e.data["clauses"] for e in br)
        if act_false:
            n_false += 1
            grem = [e for e in p.events if e.kind == "G_REMOVE" and e.data["selected"] and e.data["united"]]
            ok = not disp and len(grem) == 1
            r.ob(ok, {"deactivated path": p.describe()})
            if disp:
                r.violate(f"{m.fn.short}: dispatch on the deactivated arm", _where(m, disp[0][1].node),
                          "a node whose activation flag is falsy is executed", p.describe())
            elif not grem:
                r.violate(f"{m.fn.short}: deactivated node is not removed from the graph with its successors released",
                          _where(m, br[-1].node), "the scheduler never finishes (the node stays in the graph) or dependents never run",
                          p.describe())
        for i, e in disp:
            ok = _unit(e.facts, "ACTIVE", True)
            r.ob(ok, {"dispatch guarded by activation": ok, "path": p.describe()})
            if not ok:
                r.violate(f"{m.fn.short}: dispatch({e.data['kind']}) not dominated by the activation test", _where(m, e.node),
                          "a node is executed without its activation flag having been evaluated", p.describe())
    r.require(n_false > 0, "no deactivated arm found in the scheduler loop")
    return r


def sch_active(ctx: Ctx) -> RuleResult:
    r = RuleResult("SCH-ACTIVE")
    m = model(ctx)
    r.require(len(m.activation_funcs) == 1, f"expected one activation predicate, found {sorted(m.activation_funcs)}")
    f = ctx.P.funcs[next(iter(m.activation_funcs))]
    xn = f.node.args.args[0].arg
    rets = [n for n in iter_own_nodes(f.node) if isinstance(n, ast.Return)]
    # 1. absent flag -> True
    none_ok = False
    for s in f.node.body:
        if isinstance(s, ast.If) and len(s.body) == 1 and isinstance(s.body[0], ast.Return) and isinstance(s.body[0].value, ast.Constant) \
                and s.body[0].value.value is True:
            disj = s.test.values if isinstance(s.test, ast.BoolOp) and isinstance(s.test.op, ast.Or) else [s.test]
            for d_ in disj:
                if norm_src(d_) == f"{xn}.active is None":
                    none_ok = True
                else:
                    r.ob(False, {"taken for active when": norm_src(d_)})
                    r.violate(f"{f.short}: a node is taken for active on another condition than 'it has no activation reference'", f.loc(s),
                              "an activation reference whose producer did not run in this call (it was itself deactivated, or left out of "
                              "the selection) reads as None - falsy: the node is deactivated; treating the missing value as 'active' runs "
                              "nodes whose flag was never true", norm_src(d_))
    if r.findings:
        return r
    r.ob(none_ok, {"absent flag means active": none_ok})
    if not none_ok:
        raise Undecided(f"{f.short}: 'no activation reference -> active' not recognised")
    # every other return decides by the truthiness of the value: judged one by one (a comparison on any of them is a defect)
    absent_rets = {id(s.body[0]) for s in f.node.body if isinstance(s, ast.If) and len(s.body) == 1 and isinstance(s.body[0], ast.Return)
                   and isinstance(s.body[0].value, ast.Constant) and s.body[0].value.value is True}
    for rt in rets[:-1]:
        if id(rt) in absent_rets or rt.value is None:
            continue
        v_ = rt.value
        truthy = (isinstance(v_, ast.Call) and dotted(v_.func) == "bool" and len(v_.args) == 1) or \
            (isinstance(v_, ast.UnaryOp) and isinstance(v_.op, ast.Not) and isinstance(v_.operand, ast.UnaryOp) and isinstance(v_.operand.op, ast.Not))
        if truthy:
            r.ob(True, {"decision": norm_src(v_)})
            continue
        r.ob(False, {"decision": norm_src(v_)})
        if isinstance(v_, (ast.Compare, ast.Constant)):
            r.violate(f"{f.short}: on one of its paths the activation is decided by '{norm_src(v_)[:60]}', not by the truthiness of the value",
                      f.loc(rt), "the flag is decided by bool(value) for every value (an object whose __bool__ and __len__ disagree, an "
                      "array, a custom report object ...): a decision by length, by comparison or by type runs nodes whose flag is falsy "
                      "and skips nodes whose flag is truthy", norm_src(v_))
            return r
        raise Undecided(f"{f.short}: activation decision not recognised: {norm_src(v_)}")
    final = rets[-1].value
    inst = {"decision": norm_src(final)}
    e = final
    if isinstance(e, ast.Call) and dotted(e.func) == "bool" and len(e.args) == 1:
        r.ob(True, inst)
        return r
    if isinstance(e, ast.UnaryOp) and isinstance(e.op, ast.Not) and isinstance(e.operand, ast.UnaryOp) and isinstance(e.operand.op, ast.Not):
        r.ob(True, inst)
        return r
    if isinstance(e, ast.IfExp) and isinstance(e.body, ast.Constant) and isinstance(e.orelse, ast.Constant) \
            and e.body.value is True and e.orelse.value is False:
        r.ob(True, inst)
        return r
    if isinstance(e, ast.Compare):
        r.ob(False, inst)
        r.violate(f"{f.short}: activation decided by a comparison, not by truthiness", f.loc(rets[-1]),
                  "the flag must be decided by the truthiness of the supplied value (1, 'x', [0] are active; 0, '', [] are not)",
                  norm_src(final))
        return r
    raise Undecided(f"{f.short}: activation decision not recognised: {norm_src(final)}")


def _returns_pool_future(f: FuncInfo) -> bool:
    """A plain function every return of which hands back the future of a run_in_executor submission made in it."""
    if f.is_async:
        return False
    rets = [n for n in iter_own_nodes(f.node) if isinstance(n, ast.Return)]
    if not rets:
        return False
    for rt in rets:
        v = rt.value
        if isinstance(v, ast.Name):
            asg = [n for n in iter_own_nodes(f.node) if isinstance(n, ast.Assign) and dotted(n.targets[0]) == v.id]
            v = asg[0].value if len(asg) == 1 else None
        if not (isinstance(v, ast.Call) and isinstance(v.func, ast.Attribute) and v.func.attr == "run_in_executor"):
            return False
    return True


def sch_taskdone(ctx: Ctx) -> RuleResult:
    """The task the scheduler tracks for an async-thread node completes only when the node function has completed."""
    r = RuleResult("SCH-TASKDONE")
    m = model(ctx)
    callees = {info["callee"] for info in m.dispatch.values() if info["kind"] == "async" and info.get("callee")}
    n_direct = sum(1 for info in m.dispatch.values() if info["kind"] == "async" and info.get("direct") is not None)
    if n_direct:
        # run_in_executor(<the scheduler's pool>, ..) written in place: the tracked future IS the submission's future
        r.ob(True, {"async dispatches submitted in place to the scheduler's pool": n_direct})
    if not callees and not n_direct:
        raise Undecided("no async dispatch found")
    for q in sorted(callees):
        f = ctx.P.funcs[q]
        returned = _returns_pool_future(f)
        r.ob(f.is_async or returned, {"async dispatch wrapper": f.short, "is a coroutine function": f.is_async,
                                      "returns the pool submission's future": returned})
        if not f.is_async and not returned:
            raise Undecided(f"{f.short}: async dispatch wrapper is neither a coroutine function nor returns the future of its pool "
                            f"submission (form not modelled)")
        awaited = {id(n.value) for n in iter_own_nodes(f.node) if isinstance(n, ast.Await)}
        if not f.is_async:
            # the future handed back IS the submission's future: it completes when the node function has completed
            awaited |= {id(n.value) for n in iter_own_nodes(f.node) if isinstance(n, ast.Return) and n.value is not None}
        calls = [n for n in iter_own_nodes(f.node) if isinstance(n, ast.Call) and isinstance(n.func, ast.Attribute)
                 and n.func.attr == "run_in_executor"]
        # the wrapper submits to the pool it is given
        passed = all(info.get("pool_passed", False) for info in m.dispatch.values() if info.get("callee") == q)
        pool_params = [a.arg for a in f.node.args.posonlyargs + f.node.args.args + f.node.args.kwonlyargs
                       if "ThreadPoolExecutor" in ast.unparse(a.annotation or ast.Constant(value=""))]
        if f.cls is not None and any((b or "").split(".")[-1] == "ThreadPoolExecutor" for b in f.cls.bases) and f.node.args.args:
            pool_params.append(f.node.args.args[0].arg)  # a method of a pool subclass: the pool is `self`
        uses_pool = any(c.args and dotted(c.args[0]) in pool_params for c in calls)
        r.ob(passed and uses_pool, {"in": f.short, "receives the scheduler's pool": passed, "submits to it": uses_pool})
        if not (passed and uses_pool):
            other = [n for n in iter_own_nodes(f.node) if isinstance(n, ast.Call) and (dotted(n.func) or "").endswith("to_thread")]
            r.violate(f"{f.short}: the node function is not submitted to the pool the scheduler passes in", f.loc(other[0] if other else None),
                      "the node runs on another executor (e.g. asyncio's default one): it is not bounded by max_concurrency, although the "
                      "scheduler counts it as in flight", norm_src(other[0]) if other else None)
            continue
        for c in calls:
            ok = id(c) in awaited
            # a future bound to a name and awaited later
            if not ok:
                for st in iter_own_nodes(f.node):
                    if isinstance(st, ast.Assign) and st.value is c and isinstance(st.targets[0], ast.Name):
                        nm = st.targets[0].id
                        ok = any(isinstance(a, ast.Await) and dotted(a.value) == nm for a in iter_own_nodes(f.node)) or \
                            (not f.is_async and any(isinstance(a, ast.Return) and dotted(a.value) == nm for a in iter_own_nodes(f.node)))
            r.ob(ok, {"in": f.short, "pool submission": norm_src(c), "awaited by the wrapper": ok})
            if not ok:
                r.violate(f"{f.short}: the future returned by run_in_executor is not awaited", f.loc(c),
                          "the coroutine (hence the task the scheduler tracks for the node) completes as soon as the work is handed to "
                          "the pool: the scheduler removes the node from the graph and releases its dependents while the node function "
                          "is still running (they read a missing result as None)", norm_src(c))
        # a contextvars.Context may be entered by one thread at a time: it must be created per dispatch
        runs = [n for n in iter_own_nodes(f.node) if isinstance(n, ast.Attribute) and n.attr == "run" and isinstance(n.value, ast.Name)]
        params = [a.arg for a in f.node.args.posonlyargs + f.node.args.args + f.node.args.kwonlyargs]
        for rn in runs:
            cv = rn.value.id
            made_here = any(isinstance(n, ast.Assign) and dotted(n.targets[0]) == cv and isinstance(n.value, ast.Call)
                            and (dotted(n.value.func) or "").endswith("copy_context") for n in iter_own_nodes(f.node))
            if cv in params or made_here:
                r.ob(made_here, {"context object": cv, "created per dispatch": made_here})
                if not made_here:
                    r.violate(f"{f.short}: the contextvars.Context used to run the node is passed in, not copied per dispatch", f.loc(rn),
                              "one Context shared by the nodes of an execution is entered by several worker threads at once: the second "
                              "'ctx.run' raises RuntimeError and the call fails whenever two async-thread nodes overlap", norm_src(rn))
        # the function that is run on the worker is the one passed in
        p0 = f.node.args.args[0].arg if f.node.args.args else None
        uses = any(isinstance(n, ast.Name) and n.id == p0 for n in iter_own_nodes(f.node))
        r.ob(uses, {"runs the callable it is given": uses})
    return r


def sch_bidict(ctx: Ctx) -> RuleResult:
    """The future <-> node id map used to identify a finished future keeps its inverse consistent."""
    r = RuleResult("SCH-BIDICT")
    m = model(ctx)
    # helpers identify the finished node through <map>.inverse[future]
    uses = 0
    for h in m.helpers.values():
        for n in iter_own_nodes(h.fn.node):
            if isinstance(n, ast.Subscript) and isinstance(n.value, ast.Attribute) and n.value.attr == "inverse":
                uses += 1
    if uses == 0:
        raise Undecided("the wait helpers do not identify finished futures through an inverse map (form not modelled)")
    c = ctx.P.classes.get(ctx.cls_q("BiDict"))
    si = c.methods.get("__setitem__")
    r.require(si is not None, "BiDict.__setitem__ not found")
    k, v = si.node.args.args[1].arg, si.node.args.args[2].arg
    inv = [n for n in iter_own_nodes(si.node) if isinstance(n, ast.Assign) and norm_src(n.targets[0]) == f"self.inverse[{v}]"]
    ok = len(inv) == 1 and dotted(inv[0].value) == k
    r.ob(ok, {"BiDict.__setitem__ records": norm_src(inv[0]) if inv else None})
    if not ok:
        r.violate("BiDict.__setitem__: the inverse map is not updated with value -> key", si.loc(),
                  "the scheduler looks a finished future up in the inverse map to find the node to remove from the graph: a wrong or "
                  "missing entry removes another node (its dependents start early) or raises", norm_src(inv[0]) if inv else None)
    fwd = any(isinstance(n, ast.Call) and norm_src(n.func) == "super().__setitem__" and [dotted(a) for a in n.args] == [k, v]
              for n in iter_own_nodes(si.node))
    r.ob(fwd, {"forward map written": fwd})
    if not fwd:
        r.violate("BiDict.__setitem__: the forward map is not written with key -> value", si.loc(), "", None)
    # every pooled dispatch registers its future under the selected node's id
    for p in m.paths():
        if not p.feasible:
            continue
        for i, e in enumerate(p.events):
            if e.kind == "DISPATCH" and e.data["kind"] in POOLED:
                fv = e.data["info"].get("future_var")
                reg = [x for x in p.events[i + 1:] if x.kind == "ITEM_WRITE" and x.data["selected"] and x.data["value"] == fv]
                r.ob(len(reg) == 1, {"future registered under the selected id": len(reg) == 1, "dispatch": e.data["kind"]})
                if len(reg) != 1:
                    r.violate(f"{m.fn.short}: future of dispatch({e.data['kind']}) is not registered under the selected node's id",
                              _where(m, e.node), "the finished future cannot be mapped back to its node", p.describe())
    return r


RULES = {
    "SCH-OWNTHREAD": sch_ownthread, "SCH-POOLOWN": sch_poolown, "SCH-ORIGIN": sch_origin, "SCH-RSET": sch_rset, "SCH-ROOTS": sch_roots, "SCH-DONE": sch_done, "SCH-ONCE": sch_once,
    "SCH-PRUNE": sch_prune, "SCH-BOUND": sch_bound, "SCH-COUNT": sch_count, "SCH-ARMS": sch_arms,
    "SCH-SEQ-PRE": sch_seq_pre, "SCH-SEQ-POST": sch_seq_post, "SCH-PRIO": sch_prio, "SCH-FRESHPICK": sch_freshpick,
    "SCH-WAITSITES": sch_waitsites, "SCH-WAITMODE": sch_waitmode, "SCH-GUARD": sch_guard, "SCH-WAITORDER": sch_waitorder, "SCH-MIXWAIT": sch_mixwait,
    "SCH-PROGRESS": sch_progress, "SCH-EXIT": sch_exit, "SCH-EMPTYWAIT": sch_emptywait, "SCH-DEACT": sch_deact,
    "SCH-ACTIVE": sch_active, "SCH-POOLSIZE": sch_poolsize, "SCH-TASKDONE": sch_taskdone, "SCH-BIDICT": sch_bidict, "SCH-STALEPICK": sch_stalepick, "SCH-ONLYDISPATCH": sch_onlydispatch, "SCH-POOLEXIT": sch_poolexit,
}
